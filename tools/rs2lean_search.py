#!/usr/bin/env python3
"""Tie (a) for FUNCTIONS, stage 4a: the SEARCH RECURSION of `weechess-engine/src/searcher.rs`
(`Searcher::quiescence_search`, `Searcher::calculate_extension_depth`, `Searcher::analyze_recursive`).

    python3 tools/rs2lean_search.py [--repo DIR] [--out FILE] [--check]

Imports `tools/rs2lean.py` (lexer, item finder), `rs2lean2.py`, `rs2lean3.py`, `rs2lean_eval.py`, `rs2lean_tt.py` as modules (none is
modified).  The earlier stages are RUN in this process (a broken stage 1/2/3c breaks this stage as well); the functions of the earlier
stages that the search calls are called BY THEIR GENERATED NAME (`EXTERNS` below): their Rust signatures are checked textually in the
source tree and the heads of their Lean definitions in the committed `lean/Wee/Gen/*.lean` (Lean type-checks the calls).  The items
of `FUNCTIONS` are translated into `lean/Wee/Gen/SearchFns.lean` (namespace `Wee.GenFns`); `Wee/Proofs/SearchFnsBridge.lean` proves the
generated functions to REFINE the hand-written model (`quiesce`, `searchNode` of `Wee/Model/Search.lean`).  Anything outside the
supported subset fails CLOSED: `TIE-BROKEN rs2lean_search: <reason>`, exit status 2.

Stage 4e (class `IterEm`, further down, with its own TRUSTED PART 3): the statement `for depth in 0..max_depth { .. }` of
`Searcher::analyze_iterative` is translated as a FRAGMENT into `Searcher.analyze_iterative.iteration` / `.loop` (monad `IM`: the loop's
generator, the shared table, the polls of the token, the calls of the callback `f` as a list); the workers of one iteration run one after
the other (ONE admissible schedule of the rayon map -- trusted reading).  `Wee/Proofs/SearchFnsBridge2.lean` bridges the whole of
`analyze_recursive`, `Wee/Proofs/SearchIterBridge.lean` the loop (to `boundaryPoll` / `iterStep` / `iterLoop`).

======================================================================================================
TRUSTED PART 1 -- semantics given to the Rust subset of this stage (additions to the tables of the earlier stages)
------------------------------------------------------------------------------------------------------
 three monads                         a function without `Result` and without cells lives in `Panics` (= `Option`, stage 1);
                                      a function returning `Result<T, SearchInterrupt>` without cells lives in
                                      `QM = Except SearchStop`; a function with CELLS (below) lives in
                                      `SM = SearchCells -> Except SearchStop a x SearchCells` (the cells survive an error, as the
                                      memory behind a `&mut` / a shared reference survives an early `return Err(..)`).
                                      `Ok(v)` = `pure v`, `Err(SearchInterrupt)` = `throw interrupt`, `e?` = monadic bind,
                                      a panic of a callee (`none`) = `throw panic`.
 CELLS of `analyze_recursive`         the parameters `nodes_searched: &mut usize`, `rng: &mut ChaCha8Rng`,
                                      `transpositions: &TranspositionTableAccess` (interior mutability, stage 3c: the `RwLock`s are
                                      transparent) and `token: &CancellationToken` are the four fields of `SearchCells`.  The tool
                                      checks that every recursive call passes exactly these identifiers in these positions, i.e.
                                      the whole recursion works on the SAME four objects.  Reading `*nodes_searched` = reading the
                                      field, `*nodes_searched += 1` = CHECKED addition written back.
 other `&mut` parameters              (`move_buffer: &mut Vec<PseudoLegalMove>`) are returned values as in stage 2: the function
                                      returns `(result, move_buffer)`; a call rebinds the local passed as `&mut local`.  On `Err` the
                                      final value is not returned (every caller propagates the error or drops the buffer).
 recursion                            a self-recursive function gets a first parameter `fuel : Nat`, is defined by STRUCTURAL
                                      recursion on it (`0` = `out_of_fuel`), recursive calls pass `fuel`.  A call of
                                      `quiescence_search` from another function passes `SPrim.quiescence_fuel game_state` = number of
                                      men on the board + 2 (every recursive call of `quiescence_search` follows a capture, so the
                                      measure drops; `C04_quiesce_fuel` proves for the model that it is never exhausted and the
                                      bridge transports this).  For `analyze_recursive` the bridge shows that
                                      `max_depth - current_depth + 1` is enough fuel.
 usize                                `UInt64`; `+`, `+=` CHECKED (debug profile), `-` CHECKED, `% <non-zero literal>` plain.
 statement `if`/`if let`/`match`      no early exit inside: `let vars <- (if c then do ..; pure vars else pure vars)` (the tuple of
                                      the outer variables the statement assigns).  `if c { ..; return r; }` (the block diverges, no
                                      `else`): `if c then <block> else <rest>`.  Any other statement with an early exit yields
                                      `Early.ret r | Early.cont vars` and is followed by ONE `match` (as stage 2).
 for x in V.iter() / V.iter().rev()   `SPrim.for_early` over `Array.toList V` (reversed for `.rev()`), state = the outer variables
                                      the body assigns; `return` = `Early.ret`, `continue` / end of body = `Early.cont`.
 let Some(P) = e else { continue; }   `match e with | none => <else> | some p => <rest>`
 a && b                               when `b` has an effect or can panic: `if a then b else false` (short circuit kept).
 f32                                  `Rat` soft-float of stage 3b: `a - b` = `F32.sub`, `a * b` = `F32.mul`, unary `-` = exact
                                      negation, `x as i32` = `f32.to_i32`, literals as exact bit patterns.
======================================================================================================
TRUSTED PART 2 -- primitive mappings (prelude of `SearchFns.lean`)
------------------------------------------------------------------------------------------------------
 v.sort_by_cached_key(|x| k)          `SPrim.sort_by_cached_key`: nothing if `len < 2`; else the keys are computed ONCE, front to
                                      back (the closure may draw random numbers / panic), then a STABLE ascending sort by key
                                      (`List.mergeSort` on the `(key, element)` pairs comparing keys only).  This is the reading
                                      of `slice::sort_by_cached_key` (std: keys collected by `iter().map(f)`, `(key, index)` pairs
                                      sorted, `len < 2` returns at once).
 rng.gen_range(-10..=10)              `SPrim.gen_range_i32 lo hi`: the model's ChaCha8 `Rng.genRangeI32` on the `rng` cell.
 token.is_cancelled()                 `SPrim.is_cancelled`: the poll is COUNTED in the cell `polls` and answers "cancelled" iff the
                                      token's `cancel_at = some k` and at least `k` polls happened before -- the behaviour of the
                                      verification hook `verif::poll_hook` (`POLLS.fetch_add(1) >= CANCEL_AT_POLL`), which is how the
                                      differential runs schedule the flag; the text of `CancellationToken::is_cancelled` (hook, then
                                      `self.cancelled.load(Ordering::Relaxed)`) is checked.  WHEN another thread sets the flag is
                                      not derived from the text (that is the parameter `cancel_at`).
 transpositions.find / insert         the stage-3c `TranspositionTableAccess.find / insert` applied to the cell `transpositions`.
 it.all(|m| c), o.map(|p| e)          `SPrim.iter_all` (stops at the first `false`), `SPrim.option_map` (panicking closures).
 a.min(b), a.max(b) on Evaluation     `Evaluation.ord_min / ord_max` (`Ord::min / max` of the derived total order on the `i32`).
 Evaluation::from(i32)                identity on the transparent newtype (text of the impl checked).
 Vec::new(), v.push(x), v.is_empty()  `#[]`, `Array.push`, `Array.isEmpty` (stage 3a).
======================================================================================================
"""
import argparse
import os
import re
import sys

sys.dont_write_bytecode = True
sys.path.insert(0, os.path.dirname(os.path.abspath(__file__)))
import rs2lean as R  # noqa: E402
import rs2lean2 as R2  # noqa: E402
import rs2lean3 as R3  # noqa: E402,F401
import rs2lean_eval as RE  # noqa: E402
import rs2lean_tt as RT  # noqa: E402

from rs2lean import N, TieBroken, fail  # noqa: E402

VERIF = R.VERIF
GEN = os.path.join(VERIF, "lean", "Wee", "Gen")
DEFAULT_OUT = os.path.join(GEN, "SearchFns.lean")
SEARCHER = "weechess-engine/src/searcher.rs"
EVALMOD = "weechess-engine/src/eval/mod.rs"
MOVEGEN = "weechess-core/src/movegen.rs"
MOVES = "weechess-core/src/moves.rs"
STATE = "weechess-core/src/state.rs"
HASHER = "weechess-core/src/hasher.rs"
TAG = "rs2lean_search"

# ----------------------------------------------------------------------------------------------------
# TABLES
# ----------------------------------------------------------------------------------------------------
# functions of `impl Searcher` translated here, in dependency order
FUNCTIONS = ["calculate_extension_depth", "quiescence_search", "analyze_recursive"]
# the other functions of `impl Searcher` (named, so that a NEW fn in the block is a broken tie)
NOT_TRANSLATED = {"new": "constructor", "analyze": "threads / channels", "analyze_iterative": "only its `for` loop, as a fragment: stage 4e below",
                  "perft": "perft driver", "perft_recursive": "perft recursion"}
# cells of the search monad: parameter name -> (mode, Rust type)
CELLS = {"nodes_searched": ("refmut", "usize"), "rng": ("refmut", "ChaCha8Rng"),
         "transpositions": ("ref", "TranspositionTableAccess"), "token": ("ref", "CancellationToken")}

# declarations that primitive mappings rest on: (file, regex, description)
DECLS = [
    (SEARCHER, r"use rand::\{Rng, SeedableRng\};\s*use rand_chacha::ChaCha8Rng;", "ChaCha8Rng is rand_chacha::ChaCha8Rng, gen_range is rand::Rng"),
    (SEARCHER, r"use crate::eval::\{self, Evaluation\};", "eval::Evaluation is crate::eval::Evaluation"),
    (SEARCHER, r"struct SearchInterrupt;", "struct SearchInterrupt (unit struct)"),
    (SEARCHER, r"fn is_cancelled\(&self\) -> bool \{\s*#\[cfg\(weechess_verif\)\]\s*if verif::poll_hook\(\) \{\s*return true;\s*\}\s*"
               r"self\.cancelled\.load\(Ordering::Relaxed\)\s*\}", "CancellationToken::is_cancelled = poll hook, then the atomic flag"),
    (SEARCHER, r"pub\(super\) fn poll_hook\(\) -> bool \{\s*let at = CANCEL_AT_POLL\.load\(Ordering::SeqCst\);\s*if at < 0 \{\s*return false;\s*\}\s*"
               r"let n = POLLS\.fetch_add\(1, Ordering::SeqCst\);\s*\(n as i64\) >= at\s*\}", "verif::poll_hook counts the polls"),
    (EVALMOD, r"#\[derive\(Debug, Clone, Copy, PartialEq, PartialOrd, Eq, Ord\)\]\s*pub struct Evaluation\(i32\);",
     "Evaluation(i32) with the derived total order"),
    (EVALMOD, r"impl From<i32> for Evaluation \{\s*fn from\(value: i32\) -> Self \{\s*Evaluation\(value\)\s*\}\s*\}", "Evaluation::from(i32) = Evaluation(value)"),
    (EVALMOD, r"pub use evaluate_piece_worths::PIECE_PAWN_WORTHS;", "eval::PIECE_PAWN_WORTHS re-export"),
    (MOVES, r"pub struct MoveResult\(pub Move, pub State\);", "struct MoveResult(pub Move, pub State)"),
    (HASHER, r"pub type Hash = u64;", "type Hash = u64"),
    # Rust signatures of the callees
    (EVALMOD, r"pub fn evaluate\(&self, state: &State, perspective: Color, depth: usize\) -> Evaluation \{", "Evaluator::evaluate"),
    (EVALMOD, r"pub fn estimate\(&self, state: &State, mv: &Move\) -> Evaluation \{", "Evaluator::estimate"),
    (MOVEGEN, r"pub fn compute_legal_moves_into\(state: &State, buffer: &mut MoveGenerationBuffer\) \{", "MoveGenerator::compute_legal_moves_into"),
    (MOVEGEN, r"pub fn compute_psuedo_legal_moves_into\(state: &State, result: &mut Vec<PseudoLegalMove>\) \{",
     "MoveGenerator::compute_psuedo_legal_moves_into"),
    (MOVEGEN, r"pub fn try_as_legal_move\(self, state: &State\) -> Option<MoveResult> \{", "PseudoLegalMove::try_as_legal_move"),
    (MOVEGEN, r"pub fn new\(mv: Move\) -> Self \{", "PseudoLegalMove::new"),
    (MOVEGEN, r"pub legal_moves: Vec<MoveResult>,", "MoveGenerationBuffer.legal_moves"),
    (STATE, r"pub fn turn_to_move\(&self\) -> Color \{", "State::turn_to_move"),
    (STATE, r"pub fn is_check\(&self\) -> bool \{", "State::is_check"),
    (HASHER, r"pub fn hash\(&self, state: &State\) -> Hash \{", "ZobristHasher::hash"),
    (MOVES, r"pub fn is_capture\(&self\) -> bool \{", "Move::is_capture"),
    (MOVES, r"pub fn piece\(&self\) -> Piece \{", "Move::piece"),
    (MOVES, r"pub fn capture\(&self\) -> Option<Piece> \{", "Move::capture"),
    (SEARCHER, r"fn find\(&self, hash: Hash\) -> Option<TranspositionEntry> \{", "TranspositionTableAccess::find"),
    (SEARCHER, r"fn insert\(&self, hash: Hash, entry: TranspositionEntry\) \{", "TranspositionTableAccess::insert"),
    (SEARCHER, r"fn lookup\(&self, hash: &Hash\) -> Option<&usize> \{", "StateHistory::lookup"),
]
# heads of the Lean definitions the generated code calls (checked in the committed Gen files)
EXTERN_HEADS = {
    "MoveFns.lean": ["def Move.is_capture (self : Move) : Panics Bool := do", "def Move.piece (self : Move) : Panics Piece := do",
                     "def Move.capture (self : Move) : Panics (Option Piece) := do", "def Evaluation.EVEN : Evaluation := (0 : Int32)",
                     "abbrev Evaluation := Int32", "abbrev Move := BitSet"],
    "CoreFns.lean": ["def State.turn_to_move (self : State) : Color :=", "def ZobristHasher.hash (self : ZobristHasher) (state : State) : Panics UInt64 := do",
                     "def ArrayMap.index {α : Type} (a : Array α) (i : Index) : Panics α := a[i.toNat]?", "inductive Early (ρ α : Type) where"],
    "GenMoves.lean": ["abbrev PseudoLegalMove := Move", "abbrev MoveResult := Move × State", "def MoveGenerationBuffer.new : MoveGenerationBuffer :=",
                      "def MoveGenerator.compute_legal_moves_into (state : State) (buffer : MoveGenerationBuffer) : Panics MoveGenerationBuffer := do",
                      "def MoveGenerator.compute_psuedo_legal_moves_into (state : State) (result : Array PseudoLegalMove) : Panics (Array PseudoLegalMove) := do",
                      "def PseudoLegalMove.try_as_legal_move (self : PseudoLegalMove) (state : State) : Panics (Option (Move × State)) := do",
                      "def PseudoLegalMove.new (mv : Move) : PseudoLegalMove :="],
    "EvalFns.lean": ["def State.is_check (self : State) : Panics Bool := do",
                     "def Evaluator.evaluate (self : Evaluator) (state : State) (perspective : Color) (depth : UInt64) : Panics Evaluation := do",
                     "def Evaluator.estimate (self : Evaluator) (state : State) (mv : Move) : Panics Evaluation := do",
                     "def Evaluation.neg (self : Evaluation) : Panics Evaluation := do",
                     "def Evaluation.add_assign_Evaluation (self : Evaluation) (rhs : Evaluation) : Panics Evaluation := do",
                     "def f32.to_i32 (x : f32) : Int32 := Int32.ofInt (F32.toI32 x)", "abbrev f32 := Rat"],
    "TTFns.lean": ["def TranspositionTableAccess.find (self : TranspositionTableAccess) (hash : UInt64) : Panics (Option TranspositionEntry) := do",
                   "def TranspositionTableAccess.insert (self : TranspositionTableAccess) (hash : UInt64) (entry : TranspositionEntry) : Panics TranspositionTableAccess := do",
                   "def StateHistory.lookup (self : StateHistory) (hash : UInt64) : Option UInt64 :=",
                   "structure TranspositionEntry where", "inductive EvaluationKind where"],
}

# externs: key -> (lean name, [parameter types (without self)], result type, monad ('-' pure, 'P' Panics), index of a `&mut` parameter or None)
METHODS = {
    ("State", "turn_to_move"): ("State.turn_to_move", [], "Color", "-", None),
    ("State", "is_check"): ("State.is_check", [], "bool", "P", None),
    ("Evaluator", "evaluate"): ("Evaluator.evaluate", ["State", "Color", "usize"], "Evaluation", "P", None),
    ("Evaluator", "estimate"): ("Evaluator.estimate", ["State", "Move"], "Evaluation", "P", None),
    ("Move", "is_capture"): ("Move.is_capture", [], "bool", "P", None),
    ("Move", "piece"): ("Move.piece", [], "Piece", "P", None),
    ("Move", "capture"): ("Move.capture", [], ("Option", "Piece"), "P", None),
    ("Move", "try_as_legal_move"): ("PseudoLegalMove.try_as_legal_move", ["State"], ("Option", "MoveResult"), "P", None),
    ("ZobristHasher", "hash"): ("ZobristHasher.hash", ["State"], "usize", "P", None),
    ("StateHistory", "lookup"): ("StateHistory.lookup", ["usize"], ("Option", "usize"), "-", None),
}
ASSOC = {
    ("MoveGenerationBuffer", "new"): ("MoveGenerationBuffer.new", [], "MoveGenerationBuffer", "-", None),
    ("MoveGenerator", "compute_legal_moves_into"): ("MoveGenerator.compute_legal_moves_into", ["State", "MoveGenerationBuffer"], "unit", "P", 1),
    ("MoveGenerator", "compute_psuedo_legal_moves_into"): ("MoveGenerator.compute_psuedo_legal_moves_into", ["State", ("Vec", "Move")], "unit", "P", 1),
    ("PseudoLegalMove", "new"): ("PseudoLegalMove.new", ["Move"], "Move", "-", None),
}
STRUCT_FIELDS = {
    "TranspositionEntry": [("kind", "EvaluationKind"), ("performed_move", "Move"), ("depth", "usize"), ("max_depth", "usize"), ("evaluation", "Evaluation")],
    "MoveGenerationBuffer": [("legal_moves", ("Vec", "MoveResult")), ("psuedo_legal_moves", ("Vec", "Move"))],
}
ENUMS = {"EvaluationKind": ["Exact", "UpperBound", "LowerBound"]}
CONSTS = {("Evaluation", "EVEN"): ("Evaluation.EVEN", "Evaluation")}

LEAN_TY = {"usize": "UInt64", "u64": "UInt64", "i32": "Int32", "f32": "f32", "bool": "Bool", "unit": "Unit", "Evaluation": "Evaluation",
           "Move": "Move", "State": "State", "Evaluator": "Evaluator", "ZobristHasher": "ZobristHasher", "StateHistory": "StateHistory",
           "TranspositionTableAccess": "TranspositionTableAccess", "TranspositionEntry": "TranspositionEntry",
           "EvaluationKind": "EvaluationKind", "Piece": "Piece", "Color": "Color", "MoveGenerationBuffer": "MoveGenerationBuffer",
           "MoveResult": "(Move × State)", "CancellationToken": "CancellationToken", "ChaCha8Rng": "Wee.Rng.ChaCha8"}
LEAN_KEYWORDS = {"from", "end", "at", "show", "have", "fun", "do", "then", "open", "local", "prefix", "instance", "where", "with", "deriving"}

PRELUDE = r'''
/-! ## Prelude of stage 4a (fixed vocabulary; see the tables at the top of `tools/rs2lean_search.py`) -/

/-- why a search function stops without a value: `Err(SearchInterrupt)`, a panic (debug profile), or the fuel of the
translation ran out (never, for enough fuel: see the bridge) -/
inductive SearchStop where
  | interrupt
  | panic
  | out_of_fuel
deriving DecidableEq, Repr, Inhabited

/-- `Result<T, SearchInterrupt>` for a function without cells -/
abbrev QM := Except SearchStop
def QM.liftP {α : Type} : Panics α → QM α
  | none => .error .panic
  | some a => .ok a
def QM.out_of_fuel {α : Type} : QM α := .error .out_of_fuel
def QM.interrupt {α : Type} : QM α := .error .interrupt

/-- `CancellationToken`: `cancel_at = some k` — the `k`-th (0-based) poll of the flag and all later ones answer "cancelled" -/
structure CancellationToken where
  cancel_at : Option Nat

/-- the objects behind the `&mut` / shared references that the whole recursion works on -/
structure SearchCells where
  nodes_searched : UInt64
  rng : Wee.Rng.ChaCha8
  transpositions : TranspositionTableAccess
  polls : Nat

/-- the monad of a function with cells: the cells survive an error -/
def SM (α : Type) : Type := SearchCells → Except SearchStop α × SearchCells
instance : Monad SM where
  pure a := fun c => (.ok a, c)
  bind x f := fun c => match x c with
    | (.ok a, c') => f a c'
    | (.error e, c') => (.error e, c')
def SM.liftP {α : Type} (p : Panics α) : SM α := fun c =>
  match p with
  | none => (.error .panic, c)
  | some a => (.ok a, c)
def SM.liftQ {α : Type} (q : QM α) : SM α := fun c => (q, c)
def SM.out_of_fuel {α : Type} : SM α := fun c => (.error .out_of_fuel, c)
def SM.interrupt {α : Type} : SM α := fun c => (.error .interrupt, c)
def SM.read_nodes_searched : SM UInt64 := fun c => (.ok c.nodes_searched, c)
def SM.write_nodes_searched (v : UInt64) : SM Unit := fun c => (.ok (), { c with nodes_searched := v })
def SM.read_transpositions : SM TranspositionTableAccess := fun c => (.ok c.transpositions, c)
def SM.write_transpositions (v : TranspositionTableAccess) : SM Unit := fun c => (.ok (), { c with transpositions := v })
/-- `token.is_cancelled()` through the verification hook: the poll is counted -/
def SPrim.is_cancelled (token : CancellationToken) : SM Bool := fun c =>
  (.ok (match token.cancel_at with | some k => decide (c.polls ≥ k) | none => false), { c with polls := c.polls + 1 })
/-- `rng.gen_range(lo..=hi)` on `i32`: the model's ChaCha8 -/
def SPrim.gen_range_i32 (lo hi : Int32) : SM Int32 := fun c =>
  (.ok (Int32.ofInt (Wee.Rng.genRangeI32 lo.toInt hi.toInt c.rng).1), { c with rng := (Wee.Rng.genRangeI32 lo.toInt hi.toInt c.rng).2 })

/-- `for .. { body }` with `return` / `continue` in the body, in any monad -/
def SPrim.for_early {m : Type → Type} [Monad m] {α ρ σ : Type} (f : σ → α → m (Early ρ σ)) : List α → σ → m (Early ρ σ)
  | [], s => pure (Early.cont s)
  | x :: xs, s => do
    match ← f s x with
    | Early.ret r => pure (Early.ret r)
    | Early.cont s' => SPrim.for_early f xs s'
/-- `slice::sort_by_cached_key`: keys computed once, front to back, only for two or more elements; stable, ascending -/
def SPrim.sort_by_cached_key {m : Type → Type} [Monad m] {α : Type} (xs : Array α) (key : α → m Int32) : m (Array α) :=
  if xs.size < 2 then pure xs else do
    let keyed ← xs.toList.mapM (fun x => do let k ← key x; pure (k, x))
    pure ((keyed.mergeSort (fun a b => decide (a.1 ≤ b.1))).map (·.2)).toArray
/-- `iter.all(closure)` with a panicking closure: stops at the first `false` -/
def SPrim.iter_all {α : Type} (f : α → Panics Bool) : List α → Panics Bool
  | [] => some true
  | x :: xs => match f x with
    | none => none
    | some false => some false
    | some true => SPrim.iter_all f xs
/-- `Option::map` with a panicking closure -/
def SPrim.option_map {α β : Type} (f : α → Panics β) : Option α → Panics (Option β)
  | none => some none
  | some a => match f a with
    | none => none
    | some b => some (some b)
/-- `Ord::min` / `Ord::max` of the derived order of `Evaluation(i32)` -/
def Evaluation.ord_min (a b : Evaluation) : Evaluation := if a ≤ b then a else b
def Evaluation.ord_max (a b : Evaluation) : Evaluation := if a ≤ b then b else a
/-- the fuel passed to `quiescence_search` by its callers: men on the board + 2 -/
def SPrim.quiescence_fuel (s : State) : Nat := (u64.count_ones (Board.occupancy (State.board s))).toNat + 2
'''


def die(line, msg):
    fail(f"{SEARCHER}:{line}: {msg}")


# ----------------------------------------------------------------------------------------------------
# parser (own, small; everything it does not know fails closed)
# ----------------------------------------------------------------------------------------------------
BINPREC = [["||"], ["&&"], ["==", "!=", "<", ">", "<=", ">="], ["|"], ["^"], ["&"], ["<<", ">>"], ["+", "-"], ["*", "/", "%"]]
ASSIGN_OPS = {"=", "+=", "-=", "*=", "/=", "%=", "|=", "&=", "^=", "<<=", ">>="}


class P:
    def __init__(self, toks, ext=False):
        self.t, self.i, self.nostruct = toks, 0, 0
        self.ext = ext            # extended syntax of the `analyze_iterative` fragment (stage 4e); off for the stage-4a functions
        self.dropped = []         # `#[cfg(weechess_verif)]` items dropped (ext only)

    def peek(self, o=0):
        return self.t[self.i + o].s if self.i + o < len(self.t) else None

    def tok(self):
        return self.t[self.i]

    def line(self):
        return self.t[min(self.i, len(self.t) - 1)].line

    def err(self, msg):
        die(self.line(), msg)

    def eat(self, s=None):
        if self.i >= len(self.t):
            self.err(f"unexpected end, wanted `{s}`")
        t = self.t[self.i]
        if s is not None and t.s != s:
            self.err(f"expected `{s}`, found `{t.s}`")
        self.i += 1
        return t

    def cfg_verif(self):
        """exactly `#[cfg(weechess_verif)]` (instrumentation of the verification build: dropped, see TRUSTED PART 3)"""
        want = ["#", "[", "cfg", "(", "weechess_verif", ")", "]"]
        got = [self.peek(o) for o in range(len(want))]
        if got != want:
            self.err("an attribute other than `#[cfg(weechess_verif)]`")
        for _ in want:
            self.eat()

    # ---- types
    def ty(self):
        s = self.peek()
        if s == "&":
            self.eat()
            if self.tok().k == "life":
                self.eat()
            if self.peek() == "mut":
                self.eat()
                return ("refmut", self.ty())
            return ("ref", self.ty())
        if self.ext and s == "_":
            self.eat()
            return "_"
        if self.tok().k != "id":
            self.err(f"type expected, found `{s}`")
        segs = [self.eat().s]
        while self.peek() == "::":
            self.eat()
            segs.append(self.eat().s)
        args = []
        if self.peek() == "<":
            self.eat()
            while True:
                args.append(self.ty())
                if self.peek() == ",":
                    self.eat()
                    continue
                break
            if self.peek() == ">>":
                self.t[self.i] = R.Tok("op", ">", self.tok().line)
            else:
                self.eat(">")
        name = segs[-1]
        if name == "Option" and len(args) == 1:
            return ("Option", args[0])
        if name == "Vec" and len(args) == 1:
            return ("Vec", args[0])
        if name == "Result" and len(args) == 2:
            if args[1] != "SearchInterrupt":
                self.err("`Result` with an error type other than `SearchInterrupt`")
            return ("Result", args[0])
        if args:
            self.err(f"generic type `{name}<..>` is outside the supported subset")
        if segs[:-1] not in ([], ["eval"]):
            self.err(f"type path `{'::'.join(segs)}` is outside the supported subset")
        return name

    def signature(self):
        self.eat("(")
        params = []
        while self.peek() != ")":
            if self.peek() in ("&", "self", "mut") and (self.peek() == "self" or self.peek(1) in ("self", "mut")):
                self.err("`self` parameter (the search functions are associated functions)")
            name = self.eat().s
            self.eat(":")
            t = self.ty()
            mode = "val"
            if isinstance(t, tuple) and t[0] in ("ref", "refmut"):
                mode, t = t[0], t[1]
            params.append((name, t, mode))
            if self.peek() == ",":
                self.eat()
        self.eat(")")
        ret = "unit"
        if self.peek() == "->":
            self.eat()
            ret = self.ty()
        if self.i != len(self.t):
            self.err(f"unsupported signature tail `{self.peek()}`")
        return params, ret

    # ---- patterns
    def pattern(self):
        t = self.tok()
        if t.s == "_":
            self.eat()
            return ("wild",)
        if t.s in ("mut", "ref", "&"):
            self.err(f"`{t.s}` in a pattern is outside the supported subset")
        if t.k != "id":
            self.err(f"pattern expected, found `{t.s}`")
        segs = [self.eat().s]
        while self.peek() == "::":
            self.eat()
            segs.append(self.eat().s)
        if self.peek() == "(":
            self.eat()
            ps = []
            while self.peek() != ")":
                ps.append(self.pattern())
                if self.peek() == ",":
                    self.eat()
            self.eat(")")
            if segs == ["Some"] and len(ps) == 1:
                return ("some", ps[0])
            return ("ctor", segs, ps)
        if self.peek() in ("{", "|", "@"):
            self.err("struct / or / @ patterns are outside the supported subset")
        if segs == ["None"]:
            return ("none",)
        if len(segs) == 1 and segs[0][0].islower():
            return ("bind", segs[0])
        return ("path", segs)

    # ---- blocks / statements
    def block(self):
        ln = self.line()
        self.eat("{")
        saved, self.nostruct = self.nostruct, 0
        stmts, tail = [], None
        while self.peek() != "}":
            if tail is not None:
                self.err("expected `}` after the tail expression")
            s = self.peek()
            l2 = self.line()
            if s == "#":
                if not self.ext:
                    self.err("attribute on a statement is outside the supported subset")
                self.cfg_verif()
                st = self.i
                if self.peek() != "let":
                    self.err("`#[cfg(weechess_verif)]` on something other than a `let` statement")
                while self.peek() != ";":
                    if self.peek() in ("{", "}"):
                        self.err("`#[cfg(weechess_verif)]` statement with a block")
                    self.eat()
                self.eat(";")
                self.dropped.append(" ".join(x.s for x in self.t[st:self.i]))
                continue
            if self.ext and s == "struct":
                self.eat()
                name = self.eat().s
                self.eat("{")
                fields = []
                while self.peek() != "}":
                    if self.peek() == "#":
                        self.cfg_verif()
                        fn = self.eat().s
                        self.eat(":")
                        self.ty()
                        self.dropped.append(f"field {name}.{fn}")
                    else:
                        fn = self.eat().s
                        self.eat(":")
                        fields.append((fn, self.ty()))
                    if self.peek() == ",":
                        self.eat()
                self.eat("}")
                stmts.append(N("structdef", l2, name=name, fields=fields))
                continue
            if self.ext and s == "break":
                self.eat()
                self.eat(";")
                stmts.append(N("exprstmt", l2, e=N("break", l2)))
                continue
            if self.ext and s == "debug_assert" and self.peek(1) == "!":
                self.eat()
                self.eat("!")
                a = self.args()
                self.eat(";")
                if len(a) != 1:
                    self.err("`debug_assert!` with a message")
                stmts.append(N("exprstmt", l2, e=N("debug_assert", l2, e=a[0])))
                continue
            if s == "let":
                self.eat()
                if self.peek() == "mut":
                    self.eat()
                pat = self.pattern()
                ann = None
                if self.peek() == ":":
                    self.eat()
                    ann = self.ty()
                self.eat("=")
                self.nostruct += 1 if pat[0] != "bind" else 0
                init = self.expr()
                self.nostruct -= 1 if pat[0] != "bind" else 0
                els = None
                if self.peek() == "else":
                    self.eat()
                    els = self.block()
                self.eat(";")
                if pat[0] != "bind" and els is None:
                    self.err("a refutable / destructuring `let` needs an `else` block in this subset")
                stmts.append(N("let", l2, pat=pat, ann=ann, init=init, els=els))
                continue
            if s in ("while", "loop", "unsafe", "break", "const", "static", "fn", "struct", "use"):
                self.err(f"`{s}` is outside the supported subset")
            if self.tok().k == "id" and self.peek(1) == "!" and self.peek(2) in ("(", "[", "{") and s not in ("if", "match", "return", "for"):
                self.err(f"macro `{s}!` is outside the supported subset")
            # Rust: an expression statement that starts with `if` / `match` / `for` ends with its block
            e = self.primary() if s in ("if", "match", "for") else self.expr()
            if e.k in ("if", "iflet", "match", "for") and self.peek() in (".", "?", "as") + tuple(o for lv in BINPREC for o in lv if o not in ("*", "-", "&", "|", "||", "&&", "<")):
                self.err("an operator applied to a statement-position `if` / `match` is outside the supported subset")
            if self.peek() in ASSIGN_OPS:
                op = self.eat().s
                rhs = self.expr()
                self.eat(";")
                stmts.append(N("assign", l2, place=e, op=op, rhs=rhs))
            elif self.peek() == ";":
                self.eat()
                stmts.append(N("exprstmt", l2, e=e))
            elif e.k in ("if", "iflet", "match", "for") and self.peek() != "}":
                stmts.append(N("exprstmt", l2, e=e))
            else:
                tail = e
        self.eat("}")
        self.nostruct = saved
        return N("block", ln, stmts=stmts, tail=tail)

    # ---- expressions
    def expr(self, level=0):
        if level == 0 and self.peek() == "return":
            ln = self.line()
            self.eat()
            e = None if self.peek() in (";", "}", ",") else self.expr()
            return N("return", ln, e=e)
        if level == 0 and self.peek() == "continue":
            ln = self.line()
            self.eat()
            return N("continue", ln)
        if level == 0:
            lo = self.expr(1)
            if self.peek() in ("..=", ".."):
                ln = self.line()
                incl = self.eat().s == "..="
                hi = self.expr(1)
                return N("range", ln, lo=lo, hi=hi, incl=incl)
            return lo
        lv = level - 1
        if lv == len(BINPREC):
            return self.cast()
        lhs = self.expr(level + 1)
        while self.peek() in BINPREC[lv]:
            ln = self.line()
            op = self.eat().s
            rhs = self.expr(level + 1)
            if lv == 2 and self.peek() in BINPREC[2]:
                self.err("chained comparison")
            lhs = N("bin", ln, op=op, l=lhs, r=rhs)
        return lhs

    def cast(self):
        e = self.unary()
        while self.peek() == "as":
            ln = self.line()
            self.eat()
            e = N("cast", ln, e=e, to=self.ty())
        return e

    def unary(self):
        s = self.peek()
        ln = self.line()
        if s in ("!", "-", "*"):
            self.eat()
            return N("un", ln, op=s, e=self.unary())
        if s == "&":
            self.eat()
            if self.peek() == "mut":
                self.eat()
                return N("un", ln, op="&mut", e=self.unary())
            return N("un", ln, op="&", e=self.unary())
        if s == "&&":
            self.err("`&&` reference")
        return self.postfix()

    def args(self):
        self.eat("(")
        saved, self.nostruct = self.nostruct, 0
        out = []
        while self.peek() != ")":
            out.append(self.expr())
            if self.peek() == ",":
                self.eat()
            elif self.peek() != ")":
                self.err(f"expected `,` or `)`, found `{self.peek()}`")
        self.eat(")")
        self.nostruct = saved
        return out

    def postfix(self):
        e = self.primary()
        while True:
            s = self.peek()
            ln = self.line()
            if s == ".":
                self.eat()
                t = self.eat()
                if t.k == "int":
                    e = N("field", ln, e=e, name=t.s)
                elif t.k == "id":
                    if self.peek() == "(":
                        e = N("mcall", ln, recv=e, name=t.s, args=self.args())
                    elif self.peek() == "::" and self.ext:
                        self.eat()
                        self.eat("<")
                        g = self.ty()
                        self.eat(">")
                        e = N("mcall", ln, recv=e, name=t.s, args=self.args(), turbofish=g)
                    elif self.peek() == "::":
                        self.err("turbofish")
                    else:
                        e = N("field", ln, e=e, name=t.s)
                else:
                    self.err(f"unexpected `{t.s}` after `.`")
            elif s == "(":
                if e.k != "path":
                    self.err("call of a non-path expression")
                e = N("call", ln, fn=e.segs, args=self.args())
            elif s == "[":
                self.eat()
                saved, self.nostruct = self.nostruct, 0
                ix = self.expr()
                self.nostruct = saved
                self.eat("]")
                e = N("index", ln, e=e, ix=ix)
            elif s == "?":
                self.eat()
                e = N("try", ln, e=e)
            else:
                return e

    def primary(self):
        t = self.tok()
        ln = t.line
        if t.k == "int":
            self.eat()
            if self.peek() == "." and self.i + 1 < len(self.t) and self.t[self.i + 1].k == "int" and re.fullmatch(r"[\d_]+", t.s):
                self.eat()
                frac = self.eat()
                if not re.fullmatch(r"[\d_]+", frac.s):
                    self.err("float literal with a suffix is outside the supported subset")
                return N("flit", ln, text=f"{t.s}.{frac.s}")
            m = re.match(r"(0x[0-9a-fA-F_]+|0b[01_]+|\d[\d_]*)(\w*)$", t.s)
            return N("lit", ln, v=int(m.group(1).replace("_", ""), 0), text=m.group(1).replace("_", ""), suf=m.group(2) or None)
        if t.s == "(":
            self.eat()
            saved, self.nostruct = self.nostruct, 0
            e = self.expr()
            self.nostruct = saved
            if self.peek() == "," and self.ext:
                es = [e]
                while self.peek() == ",":
                    self.eat()
                    es.append(self.expr())
                self.eat(")")
                return N("tuple", ln, es=es)
            if self.peek() == ",":
                self.err("tuple expressions are outside the supported subset")
            self.eat(")")
            return N("paren", ln, e=e)
        if t.s == "if":
            self.eat()
            if self.peek() == "let":
                self.eat()
                pat = self.pattern()
                self.eat("=")
                self.nostruct += 1
                scrut = self.expr()
                self.nostruct -= 1
                th = self.block()
                el = None
                if self.peek() == "else":
                    self.eat()
                    el = self.block() if self.peek() == "{" else N("block", self.line(), stmts=[], tail=self.primary())
                return N("iflet", ln, pat=pat, scrut=scrut, th=th, el=el)
            self.nostruct += 1
            c = self.expr()
            self.nostruct -= 1
            th = self.block()
            el = None
            if self.peek() == "else":
                self.eat()
                if self.peek() == "if":
                    l3 = self.line()
                    el = N("block", l3, stmts=[], tail=self.primary())
                else:
                    el = self.block()
            return N("if", ln, c=c, th=th, el=el)
        if t.s == "match":
            self.eat()
            self.nostruct += 1
            scrut = self.expr()
            self.nostruct -= 1
            self.eat("{")
            arms = []
            while self.peek() != "}":
                l2 = self.line()
                pat = self.pattern()
                if self.peek() in ("|", "if"):
                    self.err("or-patterns / match guards are outside the supported subset")
                self.eat("=>")
                if self.peek() == "{":
                    body = self.block()
                    if self.peek() == ",":
                        self.eat()
                else:
                    saved, self.nostruct = self.nostruct, 0
                    x = self.expr()
                    self.nostruct = saved
                    body = N("block", l2, stmts=[], tail=x)
                    if self.peek() == ",":
                        self.eat()
                    elif self.peek() != "}":
                        self.err("expected `,` after a match arm")
                arms.append((pat, body))
            self.eat("}")
            return N("match", ln, scrut=scrut, arms=arms)
        if t.s == "for":
            self.eat()
            pat = self.pattern()
            self.eat("in")
            self.nostruct += 1
            it = self.expr()
            self.nostruct -= 1
            body = self.block()
            return N("for", ln, pat=pat, it=it, body=body)
        if t.s in ("|", "||"):
            self.eat()
            ps = []
            if t.s == "|":
                while self.peek() != "|":
                    if self.ext and self.peek() == "(":
                        self.eat()
                        tp = []
                        while self.peek() != ")":
                            q = self.eat()
                            if q.k != "id":
                                self.err("closure tuple pattern")
                            tp.append(q.s)
                            if self.peek() == ",":
                                self.eat()
                        self.eat(")")
                        ps.append(tuple(tp))
                        if self.peek() == ",":
                            self.eat()
                        continue
                    p = self.eat()
                    if p.k != "id" or self.peek() == ":":
                        self.err("closure parameters must be plain identifiers")
                    ps.append(p.s)
                    if self.peek() == ",":
                        self.eat()
                self.eat("|")
            body = self.block() if self.peek() == "{" else self.expr()
            return N("closure", ln, params=ps, body=body)
        if t.s == "{" and self.ext:
            return N("blockexpr", ln, b=self.block())
        if t.s == "{":
            self.err("block expressions are outside the supported subset")
        if self.ext and t.k == "id" and t.s == "format" and self.peek(1) == "!":
            self.eat()
            self.eat("!")
            self.eat("(")
            fmt = self.eat()
            if fmt.k != "str":
                self.err("`format!` without a literal format string")
            a = []
            while self.peek() == ",":
                self.eat()
                a.append(self.expr())
            self.eat(")")
            return N("format", ln, fmt=fmt.s, args=a)
        if t.s in ("true", "false"):
            self.eat()
            return N("boollit", ln, v=(t.s == "true"))
        if t.k == "id":
            if t.s in ("while", "loop", "unsafe", "move", "break", "async", "await"):
                self.err(f"`{t.s}` is outside the supported subset")
            segs = [self.eat().s]
            while self.peek() == "::":
                self.eat()
                if self.peek() == "<":
                    self.err("turbofish / qualified path")
                segs.append(self.eat().s)
            if self.peek() == "{" and not self.nostruct and segs[-1][0].isupper():
                self.eat()
                fields = []
                while self.peek() != "}":
                    if self.ext and self.peek() == "#":
                        self.cfg_verif()
                        f = self.eat()
                        self.eat(":")
                        self.expr()
                        self.dropped.append(f"field initialiser {segs[-1]}.{f.s}")
                        if self.peek() == ",":
                            self.eat()
                        continue
                    f = self.eat()
                    if f.k != "id":
                        self.err("struct literal field")
                    if self.peek() == ":":
                        self.eat()
                        saved, self.nostruct = self.nostruct, 0
                        v = self.expr()
                        self.nostruct = saved
                    else:
                        v = N("path", f.line, segs=[f.s])      # field shorthand
                    fields.append((f.s, v))
                    if self.peek() == ",":
                        self.eat()
                    elif self.peek() != "}":
                        self.err("struct literal (`..base` is outside the supported subset)")
                self.eat("}")
                return N("structlit", ln, name=segs[-1], fields=fields, segs=segs)
            return N("path", ln, segs=segs)
        self.err(f"unexpected token `{t.s}`")


def walk(e):
    """all AST nodes below `e` (patterns are tuples and are not walked)"""
    if isinstance(e, N):
        yield e
        for k, v in e.__dict__.items():
            if k in ("k", "line", "ty"):
                continue
            yield from walk(v)
    elif isinstance(e, (list, tuple)):
        for x in e:
            if isinstance(x, (N, list, tuple)):
                yield from walk(x)


def pat_binders(p, acc):
    if p[0] == "bind":
        acc.append(p[1])
    elif p[0] == "some":
        pat_binders(p[1], acc)
    elif p[0] == "ctor":
        for q in p[2]:
            pat_binders(q, acc)
    return acc


# ----------------------------------------------------------------------------------------------------
# types
# ----------------------------------------------------------------------------------------------------
def norm(t):
    if isinstance(t, tuple):
        if t[0] in ("ref", "refmut"):
            return norm(t[1])
        return (t[0], norm(t[1]))
    return {"PseudoLegalMove": "Move", "Hash": "usize", "RandomNumberGenerator": "ChaCha8Rng"}.get(t, t)


def show(t):
    return f"{t[0]}<{show(t[1])}>" if isinstance(t, tuple) else str(t)


def lty(t, atom=False):
    if isinstance(t, tuple):
        if t[0] == "Option":
            s = f"Option {lty(t[1], True)}"
        elif t[0] == "Vec":
            s = f"Array {lty(t[1], True)}"
        elif t[0] == "tuple":
            return "(" + " × ".join(lty(x, True) for x in t[1]) + ")"
        else:
            fail(f"type {show(t)} has no Lean counterpart in this stage")
        return f"({s})" if atom else s
    if t not in LEAN_TY:
        fail(f"type `{show(t)}` is outside the supported subset")
    return LEAN_TY[t]


def mangle(x):
    return x + "_" if x in LEAN_KEYWORDS or re.fullmatch(r"tmp\d+|loop_state|item|fuel|r", x) else x


def par(s):
    if re.fullmatch(r"[\w.!?']+|\(.*\)|#\[.*\]", s) and R.Translator.balanced(s):
        return s
    return f"({s})"


def tuple_term(vs):
    if not vs:
        return "()"
    return mangle(vs[0]) if len(vs) == 1 else "(" + ", ".join(mangle(v) for v in vs) + ")"


def tuple_proj(base, i, n):
    if n == 1:
        return base
    return base + ".2" * i + (".1" if i < n - 1 else "")


class FnInfo:
    pass


class Ctx:
    def __init__(self, kind, ret_packed, end, pack, cont_ok=False):
        self.kind, self.ret_packed, self.end, self.pack, self.cont_ok = kind, ret_packed, end, pack, cont_ok


# ----------------------------------------------------------------------------------------------------
# emitter
# ----------------------------------------------------------------------------------------------------
class Em:
    def __init__(self, repo):
        self.repo = repo
        self.src, self.toks = {}, {}
        self.fns = {}
        self.notes = []
        self.ntmp = 0

    def load(self, rel):
        if rel not in self.toks:
            p = os.path.join(self.repo, rel)
            if not os.path.exists(p):
                fail(f"{rel}: file not found")
            with open(p) as f:
                self.src[rel] = f.read()
            self.toks[rel] = R.lex(self.src[rel], rel)
        return self.toks[rel]

    def check_decls(self):
        for rel, pat, what in DECLS:
            self.load(rel)
            text = re.sub(r"//[^\n]*", "", self.src[rel])
            if len(re.findall(pat, text)) != 1:
                fail(f"{rel}: declaration `{what}` not found exactly once (a primitive mapping / a call by generated name rests on it)")
        for fname, heads in EXTERN_HEADS.items():
            p = os.path.join(GEN, fname)
            if not os.path.exists(p):
                fail(f"lean/Wee/Gen/{fname} not found (the generated code calls its definitions)")
            with open(p) as f:
                text = f.read()
            for h in heads:
                if text.count("\n" + h) != 1:
                    fail(f"lean/Wee/Gen/{fname}: definition head `{h}` not found exactly once (the generated code calls it by name)")

    def err(self, e, msg):
        fail(f"{SEARCHER}:{e.line}: in fn Searcher::{self.cur.name}: {msg}")

    def fresh(self):
        self.ntmp += 1
        return f"tmp{self.ntmp}"

    # ---- collection -------------------------------------------------------------------------------
    def collect(self):
        toks = self.load(SEARCHER)
        lo, hi = R.find_container(toks, 0, len(toks), ["impl", "Searcher"], SEARCHER)
        raws = {}
        i = lo
        attrs = []
        while i < hi:                                  # own scan: generic fns (`fn f<F>(..) where ..`) are only NAMED here
            t = toks[i]
            if t.s == "#" and toks[i + 1].s == "[":
                c = R.match_close(toks, i + 1, "[", "]")
                attrs.append(" ".join(x.s for x in toks[i + 2:c]))
                i = c + 1
                continue
            if t.s == "fn":
                name = toks[i + 1].s
                j = i + 2
                while toks[j].s != "(":
                    j += 1
                generic = j != i + 2
                pc = R.match_close(toks, j, "(", ")")
                k = pc + 1
                while toks[k].s != "{":
                    k += 1
                bc = R.match_close(toks, k, "{", "}")
                raws[name] = (toks[j:k], toks[k:bc + 1], t.line, generic, attrs)
                attrs = []
                i = bc + 1
                continue
            if t.s == "{":
                i = R.match_close(toks, i, "{", "}") + 1
                continue
            i += 1
        for name in raws:
            if name not in FUNCTIONS and name not in NOT_TRANSLATED:
                die(raws[name][2], f"fn `{name}` of `impl Searcher` is in neither table of this stage (translate it or name it in NOT_TRANSLATED)")
        for name in list(FUNCTIONS) + list(NOT_TRANSLATED):
            if name not in raws:
                fail(f"{SEARCHER}: `impl Searcher`: fn `{name}` of the tables not found")
        for name in FUNCTIONS:
            sig, body, line, generic, attrs = raws[name]
            if generic or attrs:
                die(line, f"fn {name}: generic / attributed function is outside the supported subset")
            for x in body:
                if x.s == "#":
                    die(x.line, f"fn {name}: attribute inside the body (cfg-gated statement) is outside the supported subset")
            params, ret = P([x for x in sig if x.k != "life"]).signature()
            bp = P(list(body))
            blk = bp.block()
            if bp.i != len(bp.t):
                die(line, f"fn {name}: trailing tokens")
            fi = FnInfo()
            fi.name, fi.line, fi.body = name, line, blk
            fi.params = [(p, norm(t), m) for p, t, m in params]
            fi.ret = norm(ret)
            fi.result = isinstance(fi.ret, tuple) and fi.ret[0] == "Result"
            fi.val = fi.ret[1] if fi.result else fi.ret
            fi.cells = [p for p, t, m in fi.params if p in CELLS]
            for p, t, m in fi.params:
                if p in CELLS and (m, t) != CELLS[p]:
                    die(line, f"fn {name}: parameter `{p}` is a cell of the search monad but its type is not `{CELLS[p]}`")
            if fi.cells and sorted(fi.cells) != sorted(CELLS):
                die(line, f"fn {name}: has some but not all of the cells {sorted(CELLS)}")
            fi.muts = [p for p, t, m in fi.params if m == "refmut" and p not in CELLS]
            fi.mon = "S" if fi.cells else ("Q" if fi.result else "P")
            fi.rec = any(x.k == "call" and x.fn == ["Self", name] for x in walk(blk))
            fi.lean = f"Searcher.{name}"
            self.fns[name] = fi

    # ---- helpers ----------------------------------------------------------------------------------
    def lift(self, term, m):
        c = self.mon
        if m == c:
            return term
        if (m, c) == ("P", "Q"):
            return f"QM.liftP ({term})"
        if (m, c) == ("P", "S"):
            return f"SM.liftP ({term})"
        if (m, c) == ("Q", "S"):
            return f"SM.liftQ ({term})"
        fail(f"internal: a computation of monad {m} inside monad {c}")

    def packed_ty(self, fi):
        ts = [fi.val] + [dict((p, t) for p, t, m in fi.params)[x] for x in fi.muts]
        return ts[0] if len(ts) == 1 else ("tuple", tuple(ts))

    def root_var(self, p):
        while p.k in ("field", "paren") or (p.k == "un" and p.op in ("*", "&", "&mut")):
            p = p.e
        if p.k == "path" and len(p.segs) == 1:
            return p.segs[0]
        return None

    def write_place(self, p, v, env, out, ind):
        if p.k == "paren" or (p.k == "un" and p.op in ("*", "&mut")):
            return self.write_place(p.e, v, env, out, ind)
        if p.k == "path" and len(p.segs) == 1:
            x = p.segs[0]
            if x in self.cur.cells:
                if x != "nodes_searched":
                    self.err(p, f"assignment to the cell `{x}`")
                out.append(f"{ind}SM.write_nodes_searched {par(v)}")
                return
            if x not in env:
                self.err(p, f"assignment to `{x}` which is not a local")
            out.append(f"{ind}let {mangle(x)} : {lty(env[x])} := {v}")
            return
        if p.k == "field":
            cur, ct = self.ex(p.e, env, out, None, ind)
            if ct not in STRUCT_FIELDS or p.name not in dict(STRUCT_FIELDS[ct]):
                self.err(p, f"assignment to field `.{p.name}` of {show(ct)}")
            return self.write_place(p.e, f"{{ {cur} with f_{p.name} := {v} }}", env, out, ind)
        self.err(p, "unsupported place")

    def type_of(self, e, env):
        saved = self.ntmp
        _, t = self.ex(e, env, [], None, "")
        self.ntmp = saved
        return t

    def expect(self, e, got, want):
        if got != want:
            self.err(e, f"type mismatch: {show(got)} where {show(want)} is expected")

    # ---- expressions ------------------------------------------------------------------------------
    def ex(self, e, env, out, exp, ind):
        """(Lean term, Rust type); effects / panics are bound in `out` in Rust's evaluation order"""
        k = e.k

        def bind(rhs, m, ty):
            if m == "-":
                return rhs, ty
            t = self.fresh()
            out.append(f"{ind}let {t} : {lty(ty)} ← {self.lift(rhs, m)}")
            return t, ty

        if k == "paren":
            return self.ex(e.e, env, out, exp, ind)
        if k == "lit":
            t = {"usize": "usize", "u64": "u64", "i32": "i32"}.get(e.suf or exp if isinstance(e.suf or exp, str) else None)
            if t is None:
                self.err(e, f"integer literal `{e.text}` of undetermined / unsupported type")
            return f"({e.text} : {LEAN_TY[t]})", t
        if k == "flit":
            if exp not in (None, "f32"):
                self.err(e, f"float literal where {show(exp)} is expected")
            return f"(f32.ofBits {RE.f32_bits(e.text):#010x} /- {e.text} -/)", "f32"
        if k == "boollit":
            return ("true" if e.v else "false"), "bool"
        if k == "path":
            segs = e.segs
            if len(segs) == 1:
                x = segs[0]
                if x in self.cur.cells and x not in env:
                    if x == "nodes_searched":
                        return bind("SM.read_nodes_searched", "S", "usize")
                    if x == "token":
                        return "token", "CancellationToken"
                    self.err(e, f"the cell `{x}` can only be used through its methods")
                if x in env:
                    return mangle(x), env[x]
                if x == "None":
                    if not (isinstance(exp, tuple) and exp[0] == "Option"):
                        self.err(e, "`None` of undetermined type")
                    return "none", exp
                self.err(e, f"unknown identifier `{x}`")
            key = tuple(segs[-2:])
            if segs[:-2] in ([], ["eval"]) and key in CONSTS:
                return CONSTS[key]
            if len(segs) == 2 and segs[0] in ENUMS and segs[1] in ENUMS[segs[0]]:
                return f"{segs[0]}.{segs[1]}", segs[0]
            self.err(e, f"unknown path `{'::'.join(segs)}`")
        if k == "un":
            if e.op in ("&", "*", "&mut"):
                return self.ex(e.e, env, out, exp, ind)
            if e.op == "!":
                x, t = self.ex(e.e, env, out, "bool", ind)
                self.expect(e, t, "bool")
                return f"(!{par(x)})", "bool"
            if e.op == "-":
                if e.e.k == "lit":
                    x, t = self.ex(e.e, env, out, exp, ind)
                    if t != "i32":
                        self.err(e, "negative literal of a non-i32 type")
                    return f"(-{e.e.text} : Int32)", "i32"
                x, t = self.ex(e.e, env, out, exp, ind)
                if t == "Evaluation":
                    return bind(f"Evaluation.neg {par(x)}", "P", "Evaluation")
                if t == "f32":
                    return f"(-{par(x)})", "f32"
                self.err(e, f"unary `-` on {show(t)}")
        if k == "cast":
            x, t = self.ex(e.e, env, out, None, ind)
            to = norm(e.to)
            if (t, to) == ("f32", "i32"):
                return f"f32.to_i32 {par(x)}", "i32"
            self.err(e, f"cast {show(t)} as {show(to)} not supported")
        if k == "bin":
            return self.binop(e, env, out, exp, ind, bind)
        if k == "field":
            x, t = self.ex(e.e, env, out, None, ind)
            if t == "MoveResult" and e.name in ("0", "1"):
                return f"{par(x)}.{int(e.name) + 1}", ("Move", "State")[int(e.name)]
            if t in STRUCT_FIELDS and e.name in dict(STRUCT_FIELDS[t]):
                return f"{par(x)}.f_{e.name}", dict(STRUCT_FIELDS[t])[e.name]
            self.err(e, f"field `.{e.name}` of {show(t)} not supported")
        if k == "index":
            if e.e.k == "path" and e.e.segs == ["eval", "PIECE_PAWN_WORTHS"]:
                i, it = self.ex(e.ix, env, out, "Piece", ind)
                self.expect(e.ix, it, "Piece")
                return bind(f"ArrayMap.index evaluate_piece_worths.PIECE_PAWN_WORTHS (Index.from_Piece {par(i)})", "P", "f32")
            self.err(e, "indexing is supported only for `eval::PIECE_PAWN_WORTHS[piece]`")
        if k == "structlit":
            if e.name not in STRUCT_FIELDS or e.name != "TranspositionEntry":
                self.err(e, f"struct literal of `{e.name}`")
            decl = STRUCT_FIELDS[e.name]
            if sorted(f for f, _ in e.fields) != sorted(f for f, _ in decl):
                self.err(e, f"struct literal of {e.name}: fields do not match the declaration")
            vals = {}
            for f, x in e.fields:                      # Rust evaluates the field initialisers in SOURCE order
                vals[f], vt = self.ex(x, env, out, dict(decl)[f], ind)
                self.expect(x, vt, dict(decl)[f])
            return "{ " + ", ".join(f"f_{f} := {vals[f]}" for f, _ in decl) + " }", e.name
        if k == "call":
            return self.call(e, env, out, exp, ind, bind)
        if k == "mcall":
            return self.mcall(e, env, out, exp, ind, bind)
        if k == "try":
            if not (e.e.k == "call" and len(e.e.fn) == 2 and e.e.fn[0] == "Self" and e.e.fn[1] in self.fns and self.fns[e.e.fn[1]].result):
                self.err(e, "`?` is supported only on a call of a translated `Result` function")
            if not self.cur.result:
                self.err(e, "`?` in a function that does not return `Result`")
            return self.self_call(e.e, env, out, ind)
        if k == "if":
            if e.el is None:
                self.err(e, "value `if` without `else`")
            c, ct = self.ex(e.c, env, out, "bool", ind)
            self.expect(e.c, ct, "bool")
            res = []

            def vctx(want):
                def endf(env2):
                    self.err(e, "a branch of a value `if` has no value")
                cx = Ctx("value", None, endf, None)
                cx.want = want
                cx.res = res
                return cx
            l1 = self.seq(list(e.th.stmts), e.th.tail, dict(env), vctx(exp), ind + "  ")
            t1 = res[0]
            l2 = self.seq(list(e.el.stmts), e.el.tail, dict(env), vctx(t1), ind + "  ")
            self.expect(e, res[1], t1)
            t = self.fresh()
            out.append(f"{ind}let {t} : {lty(t1)} ← (")
            out.append(f"{ind}  if {c} then do")
            out.extend("  " + x for x in l1)
            out.append(f"{ind}  else do")
            out.extend("  " + x for x in l2)
            out[-1] += ")"
            return t, t1
        self.err(e, f"expression kind `{k}` is outside the supported subset")

    def binop(self, e, env, out, exp, ind, bind):
        op = e.op
        if op in ("&&", "||"):
            a, ta = self.ex(e.l, env, out, "bool", ind)
            self.expect(e.l, ta, "bool")
            sub = []
            b, tb = self.ex(e.r, env, sub, "bool", ind + "  ")
            self.expect(e.r, tb, "bool")
            if not sub:
                return f"({par(a)} {op} {par(b)})", "bool"
            t = self.fresh()
            out.append(f"{ind}let {t} : Bool ← (")
            if op == "&&":
                out.append(f"{ind}  if {a} then do")
                out.extend("  " + x for x in sub)
                out.append(f"{ind}    pure {par(b)}")
                out.append(f"{ind}  else pure false)")
            else:
                out.append(f"{ind}  if {a} then pure true else do")
                out.extend("  " + x for x in sub)
                out.append(f"{ind}    pure {par(b)})")
            return t, "bool"
        cmp_ops = ("==", "!=", "<", "<=", ">", ">=")
        hint = exp if op not in cmp_ops else None
        if e.l.k == "lit" and not e.l.suf and e.r.k != "lit":
            hint = self.type_of(e.r, env)
        a, t = self.ex(e.l, env, out, hint, ind)
        b, t2 = self.ex(e.r, env, out, t, ind)
        if t != t2:
            self.err(e, f"operator `{op}` on {show(t)} and {show(t2)}")
        if op in cmp_ops:
            if op in ("==", "!="):
                if t not in ("usize", "u64", "i32", "bool", "Evaluation", "EvaluationKind"):
                    self.err(e, f"`{op}` on {show(t)}")
                return f"({par(a)} {op} {par(b)})", "bool"
            if t not in ("usize", "u64", "i32", "Evaluation"):
                self.err(e, f"`{op}` on {show(t)}")
            return f"decide ({par(a)} {op} {par(b)})", "bool"
        if t in ("usize", "u64"):
            if op in ("+", "-", "*"):
                nm = {"+": "checked_add", "-": "checked_sub", "*": "checked_mul"}[op]
                return bind(f"UInt64.{nm} {par(a)} {par(b)}", "P", t)
            if op == "%" and e.r.k == "lit" and e.r.v != 0:
                return f"({par(a)} % {par(b)})", t
        if t == "f32" and op in ("-", "*"):
            return f"(Wee.F32.{'sub' if op == '-' else 'mul'} {par(a)} {par(b)})", "f32"
        self.err(e, f"operator `{op}` on {show(t)} not supported")

    def closure(self, cl, ptys, env, mon, want, what):
        """Lean lambda for a closure argument: (text lines joined, result type)"""
        if cl.k != "closure" or len(cl.params) != len(ptys):
            self.err(cl, f"{what}: a closure with {len(ptys)} parameter(s) is expected")
        for x in walk(cl.body):
            if x.k in ("return", "continue", "try", "for", "closure") and x is not cl.body:
                if x.k == "closure" and mon == "P":
                    continue
                self.err(x, f"`{x.k}` inside a closure is outside the supported subset")
        env2 = dict(env)
        for p, t in zip(cl.params, ptys):
            env2[p] = t
        saved_mon, self.mon = self.mon, mon
        res = []

        def endf(env3):
            self.err(cl, "closure without a value")
        cx = Ctx("value", None, endf, None)
        cx.want, cx.res = want, res
        body = cl.body if cl.body.k == "block" else N("block", cl.line, stmts=[], tail=cl.body)
        lines = self.seq(list(body.stmts), body.tail, env2, cx, self.cind + "    ")
        self.mon = saved_mon
        ps = " ".join(f"({mangle(p)} : {lty(t)})" for p, t in zip(cl.params, ptys))
        return f"(fun {ps} => do\n" + "\n".join(lines) + ")", res[0]

    def uses_cells(self, e):
        return any(x.k == "path" and len(x.segs) == 1 and x.segs[0] in self.cur.cells for x in walk(e))

    def call(self, e, env, out, exp, ind, bind):
        segs, args = e.fn, e.args
        if segs == ["Some"] and len(args) == 1:
            want = exp[1] if isinstance(exp, tuple) and exp[0] == "Option" else None
            x, t = self.ex(args[0], env, out, want, ind)
            return f"some {par(x)}", ("Option", t)
        if segs in (["Evaluation", "from"], ["eval", "Evaluation", "from"]) and len(args) == 1:
            x, t = self.ex(args[0], env, out, "i32", ind)
            self.expect(args[0], t, "i32")
            return x, "Evaluation"
        if segs == ["Vec", "new"] and not args:
            if not (isinstance(exp, tuple) and exp[0] == "Vec"):
                self.err(e, "`Vec::new()` of undetermined type")
            return "#[]", exp
        if len(segs) == 2 and segs[0] == "Self" and segs[1] in self.fns:
            fi = self.fns[segs[1]]
            if fi.result:
                self.err(e, f"call of the `Result` function {fi.lean} without `?` (only `return f(..)` / `f(..)?` are supported)")
            return self.self_call(e, env, out, ind)
        key = tuple(segs[-2:])
        if len(segs) == 2 and key in ASSOC:
            lean, ptys, ret, m, mutix = ASSOC[key]
            if len(args) != len(ptys):
                self.err(e, f"call of {lean}: arity")
            ts = []
            for a, pt in zip(args, ptys):
                x, t = self.ex(a, env, out, pt, ind)
                self.expect(a, t, pt)
                ts.append(par(x))
            term = " ".join([lean] + ts)
            if mutix is None:
                return bind(term, m, ret)
            r, _ = bind(term, m, ptys[mutix])
            self.write_place(args[mutix], r, env, out, ind)
            return "()", "unit"
        self.err(e, f"call of `{'::'.join(segs)}` is outside the supported subset (unknown callee)")

    def self_call(self, e, env, out, ind):
        """call of a translated function of `impl Searcher`; returns (value term, value type) after binding"""
        fi = self.fns[e.fn[1]]
        if fi.name not in self.done and fi is not self.cur:
            self.err(e, f"call of {fi.lean} before its translation (order of the table)")
        if len(e.args) != len(fi.params):
            self.err(e, f"call of {fi.lean}: arity")
        ts, muts = [], []
        for a, (pn, pt, pm) in zip(e.args, fi.params):
            if pn in CELLS:
                base = a.e if (a.k == "un" and a.op in ("&", "&mut")) else a
                if not (base.k == "path" and base.segs == [pn] and pn in self.cur.cells and pn not in env):
                    self.err(a, f"the cell parameter `{pn}` of {fi.lean} must be passed the caller's own `{pn}` (the recursion works on one object)")
                if pn == "token":
                    ts.append("token")
                continue
            if pm == "refmut":
                rv = self.root_var(a)
                if rv is None or rv not in env or not (a.k == "path" or (a.k == "un" and a.op == "&mut" and a.e.k == "path")):
                    self.err(a, f"the `&mut` parameter `{pn}` of {fi.lean} must be passed a local")
                muts.append(a)
            x, t = self.ex(a, env, out, pt, ind)
            self.expect(a, t, pt)
            ts.append(par(x))
        if fi.rec:
            if fi is self.cur:
                fuel = "fuel"
            elif fi.name in FUEL_MEASURE:
                prim, pname = FUEL_MEASURE[fi.name]
                ix = [i for i, (pn, _, _) in enumerate(fi.params) if pn == pname][0]
                sx, _ = self.ex(e.args[ix], env, [], None, ind)
                fuel = f"({prim} {par(sx)})"
            else:
                self.err(e, f"call of the recursive function {fi.lean} from outside: no fuel measure in the table")
            ts.insert(0, fuel)
        term = " ".join([fi.lean] + ts)
        pty = self.packed_ty(fi)
        t = self.fresh()
        out.append(f"{ind}let {t} : {lty(pty)} ← {self.lift(term, fi.mon)}")
        if not fi.muts:
            return t, fi.val
        n = 1 + len(fi.muts)
        for i, a in enumerate(muts):
            self.write_place(a, tuple_proj(t, i + 1, n), env, out, ind)
        return tuple_proj(t, 0, n), fi.val

    def mcall(self, e, env, out, exp, ind, bind):
        n, args, recv = e.name, e.args, e.recv
        self.cind = ind
        # ---- cells
        if recv.k == "path" and len(recv.segs) == 1 and recv.segs[0] in self.cur.cells and recv.segs[0] not in env:
            cell = recv.segs[0]
            if cell == "token" and n == "is_cancelled" and not args:
                return bind("SPrim.is_cancelled token", "S", "bool")
            if cell == "rng" and n == "gen_range" and len(args) == 1 and args[0].k == "range" and args[0].incl:
                if exp != "i32":
                    self.err(e, f"`gen_range` whose result type is {show(exp)} (only i32)")
                lo, lt = self.ex(args[0].lo, env, out, "i32", ind)
                hi, ht = self.ex(args[0].hi, env, out, "i32", ind)
                return bind(f"SPrim.gen_range_i32 {par(lo)} {par(hi)}", "S", "i32")
            if cell == "transpositions" and n == "find" and len(args) == 1:
                h, ht = self.ex(args[0], env, out, "usize", ind)
                self.expect(args[0], ht, "usize")
                t, _ = bind("SM.read_transpositions", "S", "TranspositionTableAccess")
                return bind(f"TranspositionTableAccess.find {t} {par(h)}", "P", ("Option", "TranspositionEntry"))
            if cell == "transpositions" and n == "insert" and len(args) == 2:
                h, ht = self.ex(args[0], env, out, "usize", ind)
                self.expect(args[0], ht, "usize")
                x, xt = self.ex(args[1], env, out, "TranspositionEntry", ind)
                self.expect(args[1], xt, "TranspositionEntry")
                t, _ = bind("SM.read_transpositions", "S", "TranspositionTableAccess")
                t2, _ = bind(f"TranspositionTableAccess.insert {t} {par(h)} {par(x)}", "P", "TranspositionTableAccess")
                out.append(f"{ind}SM.write_transpositions {t2}")
                return "()", "unit"
            self.err(e, f"method `.{n}()` on the cell `{cell}` is outside the supported subset")
        # ---- iterator chains
        if n == "all" and len(args) == 1 and recv.k == "mcall" and recv.name == "iter" and not recv.args:
            xs, t = self.ex(recv.recv, env, out, None, ind)
            if not (isinstance(t, tuple) and t[0] == "Vec"):
                self.err(e, f"`.iter()` on {show(t)}")
            lam, rt = self.closure(args[0], [t[1]], env, "P", "bool", "`.all(..)`")
            self.expect(e, rt, "bool")
            return bind(f"SPrim.iter_all {lam} (Array.toList {par(xs)})", "P", "bool")
        if n in ("iter", "rev"):
            self.err(e, f"`.{n}()` is supported only as the iterator of a `for` or before `.all(..)`")
        # ---- Option
        rx, rt = self.ex(recv, env, out, None, ind)
        self.cind = ind
        if isinstance(rt, tuple) and rt[0] == "Option":
            if n == "is_some" and not args:
                return f"Option.isSome {par(rx)}", "bool"
            if n == "map" and len(args) == 1:
                lam, bt = self.closure(args[0], [rt[1]], env, "P", None, "`Option::map(..)`")
                return bind(f"SPrim.option_map {lam} {par(rx)}", "P", ("Option", bt))
            if n == "unwrap_or" and len(args) == 1:
                d, dt = self.ex(args[0], env, out, rt[1], ind)
                self.expect(args[0], dt, rt[1])
                return f"Option.getD {par(rx)} {par(d)}", rt[1]
            self.err(e, f"method `.{n}()` on an Option is outside the supported subset")
        # ---- Vec
        if isinstance(rt, tuple) and rt[0] == "Vec":
            if n == "is_empty" and not args:
                return f"Array.isEmpty {par(rx)}", "bool"
            if n == "push" and len(args) == 1:
                x, xt = self.ex(args[0], env, out, rt[1], ind)
                self.expect(args[0], xt, rt[1])
                self.write_place(recv, f"Vec.push {par(rx)} {par(x)}", env, out, ind)
                return "()", "unit"
            if n == "sort_by_cached_key" and len(args) == 1:
                mon = "S" if self.uses_cells(args[0]) else "P"
                if mon == "S" and self.mon != "S":
                    self.err(e, "a closure that uses cells in a function without cells")
                lam, kt = self.closure(args[0], [rt[1]], env, mon, None, "`sort_by_cached_key(..)`")
                if kt not in ("i32", "Evaluation"):
                    self.err(e, f"`sort_by_cached_key` with keys of type {show(kt)} (only i32 / Evaluation)")
                r, _ = bind(f"SPrim.sort_by_cached_key {par(rx)} {lam}", mon, rt)
                self.write_place(recv, r, env, out, ind)
                return "()", "unit"
            self.err(e, f"method `.{n}()` on a Vec is outside the supported subset")
        if rt == "Evaluation" and n in ("min", "max") and len(args) == 1:
            x, xt = self.ex(args[0], env, out, "Evaluation", ind)
            self.expect(args[0], xt, "Evaluation")
            return f"Evaluation.ord_{n} {par(rx)} {par(x)}", "Evaluation"
        if isinstance(rt, str) and (rt, n) in METHODS:
            lean, ptys, ret, m, _ = METHODS[(rt, n)]
            if len(args) != len(ptys):
                self.err(e, f"call of {lean}: arity")
            ts = [par(rx)]
            for a, pt in zip(args, ptys):
                x, t = self.ex(a, env, out, pt, ind)
                self.expect(a, t, pt)
                ts.append(par(x))
            return bind(" ".join([lean] + ts), m, ret)
        self.err(e, f"method `.{n}()` on {show(rt)} is outside the supported subset (unknown callee)")

    # ---- statements -------------------------------------------------------------------------------
    def has_exit(self, node):
        return any(x.k in ("return", "continue") for x in walk(node))

    def diverges(self, b):
        last = b.tail if b.tail is not None else (b.stmts[-1].e if b.stmts and b.stmts[-1].k == "exprstmt" else None)
        return last is not None and last.k in ("return", "continue")

    def assigned(self, node, env):
        """outer locals assigned inside `node`, in order of first assignment"""
        acc, decl = [], []
        for x in walk(node):
            r = None
            if x.k == "let":
                pat_binders(x.pat, decl)
            elif x.k in ("iflet",):
                pat_binders(x.pat, decl)
            elif x.k == "match":
                for p, _ in x.arms:
                    pat_binders(p, decl)
            elif x.k == "for":
                pat_binders(x.pat, decl)
            elif x.k == "closure":
                decl.extend(x.params)
            elif x.k == "assign":
                r = self.root_var(x.place)
            elif x.k == "mcall" and x.name in ("push", "sort_by_cached_key"):
                r = self.root_var(x.recv)
            elif x.k == "un" and x.op == "&mut":
                r = self.root_var(x.e)
            if r is not None and r in env and r not in acc:
                acc.append(r)
        bad = [v for v in acc if v in decl]
        if bad:
            self.err(node, f"{bad} is assigned and re-declared inside one branch / loop body (scoping not supported)")
        return acc

    def rebind(self, vs, base, env, ind):
        return [f"{ind}let {mangle(v)} : {lty(env[v])} := {tuple_proj(base, i, len(vs))}" for i, v in enumerate(vs)]

    def result_expr(self, e, env, ctx, ind):
        """lines for `e` in result position (tail of the function / operand of `return`)"""
        out = []
        fi = self.cur
        if fi.result:
            if e.k == "call" and e.fn == ["Ok"] and len(e.args) == 1:
                v, t = self.ex(e.args[0], env, out, fi.val, ind)
                self.expect(e, t, fi.val)
                out.append(ind + ctx.ret_packed(ctx.pack(v, env)))
                return out
            if e.k == "call" and e.fn == ["Err"] and len(e.args) == 1 and e.args[0].k == "path" and e.args[0].segs == ["SearchInterrupt"]:
                out.append(f"{ind}{'SM' if self.mon == 'S' else 'QM'}.interrupt")
                return out
            if e.k == "call" and len(e.fn) == 2 and e.fn[0] == "Self" and e.fn[1] in self.fns and self.fns[e.fn[1]].result:
                v, t = self.self_call(e, env, out, ind)
                self.expect(e, t, fi.val)
                out.append(ind + ctx.ret_packed(ctx.pack(v, env)))
                return out
            self.err(e, "a `Result` value must be `Ok(..)`, `Err(SearchInterrupt)` or a call of a translated `Result` function")
        v, t = self.ex(e, env, out, fi.val, ind)
        self.expect(e, t, fi.val)
        out.append(ind + ctx.ret_packed(ctx.pack(v, env)))
        return out

    def seq(self, stmts, tail, env, ctx, ind):
        out = []
        if not stmts:
            if tail is None:
                out.append(ind + ctx.end(env))
                return out
            if tail.k in ("if", "iflet", "match") and ctx.kind != "value":
                return self.branchy(tail, [], None, env, ctx, ind)
            if tail.k == "return":
                return self.seq([N("exprstmt", tail.line, e=tail)], None, env, ctx, ind)
            if tail.k == "continue":
                return self.seq([N("exprstmt", tail.line, e=tail)], None, env, ctx, ind)
            if ctx.kind == "value":
                v, t = self.ex(tail, env, out, ctx.want, ind)
                ctx.res.append(t)
                out.append(f"{ind}pure {par(v)}")
                return out
            if ctx.kind == "fn":
                return self.result_expr(tail, env, ctx, ind)
            if tail.k in ("mcall", "call"):
                x, t = self.ex(tail, env, out, None, ind)
                if t == "unit":
                    out.append(ind + ctx.end(env))
                    return out
            self.err(tail, "value of a statement block is discarded")
        s, rest = stmts[0], stmts[1:]
        k = s.k
        if k == "let":
            if s.pat[0] == "bind":
                ann = norm(s.ann) if s.ann is not None else None
                x, t = self.ex(s.init, env, out, ann, ind)
                if ann is not None:
                    self.expect(s.init, t, ann)
                env[s.pat[1]] = t
                out.append(f"{ind}let {mangle(s.pat[1])} : {lty(t)} := {x}")
                return out + self.seq(rest, tail, env, ctx, ind)
            x, t = self.ex(s.init, env, out, None, ind)
            if not (isinstance(t, tuple) and t[0] == "Option" and s.pat[0] == "some"):
                self.err(s, "`let .. else` is supported only as `let Some(..) = <Option> else { .. }`")
            if not self.diverges(s.els):
                self.err(s, "the `else` block of `let .. else` must end with `return` / `continue`")
            pv = self.fresh()
            out.append(f"{ind}match {x} with")
            out.append(f"{ind}| none => do")
            out.extend(self.seq(list(s.els.stmts), s.els.tail, dict(env), ctx, ind + "  "))
            out.append(f"{ind}| some {pv} => do")
            env2 = dict(env)
            self.bind_pat(s.pat[1], pv, t[1], env2, out, ind + "  ", s)
            out.extend(self.seq(rest, tail, env2, ctx, ind + "  "))
            return out
        if k == "assign":
            p = s.place
            if s.op == "=":
                pt = self.type_of(p, env)
                v, t = self.ex(s.rhs, env, out, pt, ind)
                self.expect(s.rhs, t, pt)
                self.write_place(p, v, env, out, ind)
            elif s.op == "+=":
                cur, pt = self.ex(p, env, out, None, ind)
                v, t = self.ex(s.rhs, env, out, pt, ind)
                self.expect(s.rhs, t, pt)
                r = self.fresh()
                if pt in ("usize", "u64"):
                    out.append(f"{ind}let {r} : UInt64 ← {self.lift(f'UInt64.checked_add {par(cur)} {par(v)}', 'P')}")
                elif pt == "Evaluation":
                    out.append(f"{ind}let {r} : Evaluation ← {self.lift(f'Evaluation.add_assign_Evaluation {par(cur)} {par(v)}', 'P')}")
                else:
                    self.err(s, f"`+=` on {show(pt)}")
                self.write_place(p, r, env, out, ind)
            else:
                self.err(s, f"`{s.op}` not supported")
            return out + self.seq(rest, tail, env, ctx, ind)
        if k == "exprstmt":
            e = s.e
            if e.k == "return":
                if ctx.kind in ("value",) or ctx.ret_packed is None:
                    self.err(e, "`return` here is outside the supported subset")
                if e.e is None:
                    self.err(e, "`return;` without a value")
                return self.result_expr(e.e, env, ctx, ind)
            if e.k == "continue":
                if not ctx.cont_ok:
                    self.err(e, "`continue` outside a loop body (or inside a nested early-exit block)")
                out.append(ind + ctx.end(env))
                return out
            if e.k in ("if", "iflet", "match"):
                return self.branchy(e, rest, tail, env, ctx, ind)
            if e.k == "for":
                return self.for_loop(e, rest, tail, env, ctx, ind)
            if e.k in ("mcall", "call"):
                x, t = self.ex(e, env, out, None, ind)
                if t != "unit":
                    self.err(s, "expression statement with a discarded value")
                return out + self.seq(rest, tail, env, ctx, ind)
            self.err(s, "expression statement without a supported effect")
        self.err(s, f"statement kind `{k}` is outside the supported subset")

    def bind_pat(self, p, term, ty, env, out, ind, e):
        if p[0] == "wild":
            return
        if p[0] == "bind":
            env[p[1]] = ty
            out.append(f"{ind}let {mangle(p[1])} : {lty(ty)} := {term}")
            return
        if p[0] == "ctor" and p[1] == ["MoveResult"] and ty == "MoveResult" and len(p[2]) == 2:
            self.bind_pat(p[2][0], f"{term}.1", "Move", env, out, ind, e)
            self.bind_pat(p[2][1], f"{term}.2", "State", env, out, ind, e)
            return
        self.err(e, "unsupported pattern")

    def branches(self, e, env, out, ind):
        """[(header line, binder lines producer, body block)] of a statement `if` / `if let` / `match`; scrutinee bound in `out`"""
        empty = N("block", e.line, stmts=[], tail=None)
        if e.k == "if":
            c, ct = self.ex(e.c, env, out, "bool", ind)
            self.expect(e.c, ct, "bool")
            return [(f"{ind}if {c} then do", None, e.th, dict(env)), (f"{ind}else do", None, e.el if e.el is not None else empty, dict(env))]
        if e.k == "iflet":
            arms = [(e.pat, e.th), (("wild",), e.el if e.el is not None else empty)]
        else:
            arms = e.arms
        x, t = self.ex(e.scrut, env, out, None, ind)
        res = []
        out.append(f"{ind}match {x} with")
        if isinstance(t, tuple) and t[0] == "Option":
            done = set()
            for pat, body in arms:
                cases = {"some": ["some"], "none": ["none"], "wild": ["none", "some"]}.get(pat[0])
                if cases is None:
                    self.err(e, "unsupported pattern in a `match` on an Option")
                for c in cases:
                    if c in done:
                        continue
                    done.add(c)
                    env2 = dict(env)
                    if c == "none":
                        res.append((f"{ind}| none => do", [], body, env2))
                    else:
                        pv = self.fresh()
                        pre = []
                        if pat[0] == "some":
                            self.bind_pat(pat[1], pv, t[1], env2, pre, ind + "  ", e)
                        res.append((f"{ind}| some {pv} => do", pre, body, env2))
            if done != {"none", "some"}:
                self.err(e, "non-exhaustive `match`")
            return res
        if t in ENUMS:
            seen = []
            for pat, body in arms:
                if not (pat[0] == "path" and len(pat[1]) == 2 and pat[1][0] == t and pat[1][1] in ENUMS[t] and pat[1][1] not in seen):
                    self.err(e, f"a `match` on {t} must list each variant once (`{t}::V => ..`)")
                seen.append(pat[1][1])
                res.append((f"{ind}| {t}.{pat[1][1]} => do", [], body, dict(env)))
            if sorted(seen) != sorted(ENUMS[t]):
                self.err(e, "non-exhaustive `match`")
            return res
        self.err(e, f"`match` / `if let` on {show(t)} is outside the supported subset")

    def branchy(self, e, rest, tail, env, ctx, ind):
        out = []
        has_rest = bool(rest) or tail is not None
        exits = self.has_exit(e)
        if any(x.k == "for" for x in walk(e)):
            self.err(e, "a loop nested in a branch is outside the supported subset")
        if not has_rest:
            # last statement of the block: every branch simply completes the context
            for hdr, pre, body, env2 in self.branches(e, env, out, ind):
                out.append(hdr)
                out.extend(pre or [])
                out.extend(self.seq(list(body.stmts), body.tail, env2, ctx, ind + "  "))
            return out
        if ctx.kind == "value" and exits:
            self.err(e, "early exit inside a closure / value block")
        vs = self.assigned(e, env)
        sty = lty(("tuple", tuple(env[v] for v in vs))) if len(vs) > 1 else (lty(env[vs[0]]) if vs else "Unit")
        if not exits:
            t = self.fresh()
            out.append(f"{ind}let {t} : {sty} ← (do")
            bctx = Ctx("stmt", None, lambda env2: f"pure {tuple_term(vs)}", None)
            for hdr, pre, body, env2 in self.branches(e, env, out, ind + "  "):
                out.append(hdr)
                out.extend(pre or [])
                out.extend(self.seq(list(body.stmts), body.tail, env2, bctx, ind + "    "))
            out[-1] += ")"
            out.extend(self.rebind(vs, t, env, ind))
            return out + self.seq(rest, tail, env, ctx, ind)
        # `if c { ..; return / continue }` without else: the rest is the else branch
        if e.k == "if" and e.el is None and self.diverges(e.th):
            c, ct = self.ex(e.c, env, out, "bool", ind)
            self.expect(e.c, ct, "bool")
            out.append(f"{ind}if {c} then do")
            out.extend(self.seq(list(e.th.stmts), e.th.tail, dict(env), ctx, ind + "  "))
            out.append(f"{ind}else do")
            out.extend(self.seq(rest, tail, env, ctx, ind + "  "))
            return out
        # general early exit: Early.ret / Early.cont
        if ctx.ret_packed is None:
            self.err(e, "early exit here is outside the supported subset")
        if any(x.k == "continue" for x in walk(e)):
            self.err(e, "`continue` inside a branch that also falls through is outside the supported subset")
        rty = lty(self.packed_ty(self.cur), True)
        t = self.fresh()
        out.append(f"{ind}let {t} : Early {rty} {par(sty)} ← (do")
        ectx = Ctx("early", lambda r: f"pure (Early.ret {par(r)})", lambda env2: f"pure (Early.cont {tuple_term(vs)})", ctx.pack)
        for hdr, pre, body, env2 in self.branches(e, env, out, ind + "  "):
            out.append(hdr)
            out.extend(pre or [])
            out.extend(self.seq(list(body.stmts), body.tail, env2, ectx, ind + "    "))
        out[-1] += ")"
        out.append(f"{ind}match {t} with")
        out.append(f"{ind}| Early.ret r => {ctx.ret_packed('r')}")
        out.append(f"{ind}| Early.cont loop_state => do")
        out.extend(self.rebind(vs, "loop_state", env, ind + "  "))
        out.extend(self.seq(rest, tail, env, ctx, ind + "  "))
        return out

    def for_loop(self, e, rest, tail, env, ctx, ind):
        out = []
        if ctx.kind != "fn":
            self.err(e, "a loop inside a branch / closure / loop is outside the supported subset")
        if any(x.k == "for" for x in walk(e.body)):
            self.err(e, "nested loops are outside the supported subset")
        it = e.it
        rev = False
        if it.k == "mcall" and it.name == "rev" and not it.args:
            rev, it = True, it.recv
        if not (it.k == "mcall" and it.name == "iter" and not it.args):
            self.err(e, "`for` is supported only over `<vec>.iter()` / `<vec>.iter().rev()`")
        xs, xt = self.ex(it.recv, env, out, None, ind)
        if not (isinstance(xt, tuple) and xt[0] == "Vec"):
            self.err(e, f"`.iter()` on {show(xt)}")
        src = self.root_var(it.recv)
        vs = self.assigned(e.body, env)
        if src in vs:
            self.err(e, f"the loop body assigns `{src}`, the vector it iterates over")
        sty = lty(("tuple", tuple(env[v] for v in vs))) if len(vs) > 1 else (lty(env[vs[0]]) if vs else "Unit")
        rty = lty(self.packed_ty(self.cur), True)
        items = f"(Array.toList {par(xs)})" + (".reverse" if rev else "")
        t = self.fresh()
        mname = {"P": "Panics", "Q": "QM", "S": "SM"}[self.mon]
        out.append(f"{ind}let {t} : Early {rty} {par(sty)} ← SPrim.for_early (m := {mname}) (fun (loop_state : {sty}) (item : {lty(xt[1])}) => do")
        ind2 = ind + "    "
        env2 = dict(env)
        out.extend(self.rebind(vs, "loop_state", env2, ind2))
        self.bind_pat(e.pat, "item", xt[1], env2, out, ind2, e)
        lctx = Ctx("loop", lambda r: f"pure (Early.ret {par(r)})", lambda env3: f"pure (Early.cont {tuple_term(vs)})", ctx.pack, cont_ok=True)
        out.extend(self.seq(list(e.body.stmts), e.body.tail, env2, lctx, ind2))
        out[-1] += f") {items} {tuple_term(vs)}"
        out.append(f"{ind}match {t} with")
        out.append(f"{ind}| Early.ret r => {ctx.ret_packed('r')}")
        out.append(f"{ind}| Early.cont loop_state => do")
        out.extend(self.rebind(vs, "loop_state", env, ind + "  "))
        out.extend(self.seq(rest, tail, env, ctx, ind + "  "))
        return out

    # ---- items ------------------------------------------------------------------------------------
    def emit_fn(self, fi):
        self.cur = fi
        self.mon = fi.mon
        self.ntmp = 0
        for x in walk(fi.body):
            if x.k == "let":
                for b in pat_binders(x.pat, []):
                    if re.fullmatch(r"tmp\d+|loop_state|item|fuel|r", b):
                        fail(f"{SEARCHER}: identifier {b} clashes with generated names")
        env = {}
        ps = []
        for p, t, mode in fi.params:
            if p in CELLS:
                if p == "token":
                    ps.append("(token : CancellationToken)")
                continue
            if p == "_":
                ps.append(f"(_ : {lty(t)})")
                continue
            env[p] = t
            ps.append(f"({mangle(p)} : {lty(t)})")
        muts = list(fi.muts)

        def pack(v, env2):
            return v if not muts else "(" + ", ".join([v] + [mangle(m) for m in muts]) + ")"

        def endf(env2):
            fail(f"{SEARCHER}:{fi.line}: fn {fi.name}: falls off the end without a value")
        ctx = Ctx("fn", lambda r: f"pure {par(r)}", endf, pack)
        mname = {"P": "Panics", "Q": "QM", "S": "SM"}[fi.mon]
        rt = lty(self.packed_ty(fi), True)
        sig_txt = ", ".join(f"{p}: {'&mut ' if m == 'refmut' else '&' if m == 'ref' else ''}{show(t)}" for p, t, m in fi.params)
        hdr = [f"/-- `{SEARCHER}` `Searcher::{fi.name}({sig_txt}) -> {show(fi.ret)}` (line {fi.line})" +
               (f"; cells: {', '.join(fi.cells)}" if fi.cells else "") + (f"; returns also the new value of {', '.join(muts)}" if muts else "") +
               ("; structural recursion on `fuel`" if fi.rec else "") + " -/"]
        if fi.rec:
            lines = self.seq(list(fi.body.stmts), fi.body.tail, env, ctx, "    ")
            hdr.append(f"def {fi.lean} (fuel : Nat) {' '.join(ps)} : {mname} {rt} :=")
            hdr.append("  match fuel with")
            hdr.append(f"  | 0 => {'SM' if fi.mon == 'S' else 'QM'}.out_of_fuel")
            hdr.append("  | fuel + 1 => do")
            if fi.mon == "P":
                fail(f"fn {fi.name}: a recursive function without `Result` is outside the supported subset")
        else:
            lines = self.seq(list(fi.body.stmts), fi.body.tail, env, ctx, "  ")
            hdr.append(f"def {fi.lean} {' '.join(ps)} : {mname} {rt} := do")
        return "\n".join(hdr + lines)

    def run(self):
        self.check_decls()
        self.collect()
        self.done = []
        out = [f"-- GENERATED by tools/rs2lean_search.py from {SEARCHER}; do not edit.",
               "import Wee.Gen.EvalFns",
               "import Wee.Gen.TTFns",
               "import Wee.Model.Rng",
               "/-!",
               "# Lean definitions translated from the Rust source text, stage 4a (the search recursion)",
               "",
               "Every `def` below the prelude is produced from the text of one Rust function; the prelude is the fixed, trusted vocabulary.",
               "`Wee/Proofs/SearchFnsBridge.lean` proves that these functions refine the hand-written model (`quiesce`, `searchNode` of",
               "`Wee/Model/Search.lean`).  Functions of stages 1-3 are called by their generated name.",
               "-/",
               "set_option linter.unusedVariables false",
               "namespace Wee.GenFns",
               "open Wee",
               PRELUDE.strip("\n"),
               "",
               "/-! ## Translated items -/",
               ""]
        for name in FUNCTIONS:
            out.append(self.emit_fn(self.fns[name]))
            out.append("")
            self.done.append(name)
        it = IterEm(self)
        it_text = it.run()
        out.append(PRELUDE_ITER.strip("\n"))
        out.append("")
        out.append("/-! ## Translated items, stage 4e -/")
        out.append("")
        out.append(it_text)
        out.append("")
        self.notes.extend(it.notes)
        out.append("/-! ## Side conditions checked by the translator")
        out.append(f"* cells of the search monad: {', '.join(f'{k}: {m} {t}' for k, (m, t) in CELLS.items())}; every recursive call passes them unchanged")
        out.append(f"* functions of `impl Searcher` not translated: {', '.join(f'{k} ({v})' for k, v in NOT_TRANSLATED.items())}")
        for n in self.notes:
            out.append(f"* {n}")
        out.append("-/")
        out.append("end Wee.GenFns")
        return "\n".join(out) + "\n"


# ====================================================================================================
# STAGE 4e -- the iterative-deepening loop of `Searcher::analyze_iterative` (a FRAGMENT: the statement `for depth in 0..max_depth { .. }`)
# ====================================================================================================
# TRUSTED PART 3 (additions for this fragment)
#  fragment                             only the `for` statement of `analyze_iterative` is translated; the variables it uses that are declared
#                                       before it are PARAMETERS of the generated functions (table ITER_ENV, each checked against the text in
#                                       front of the loop).  `hasher`, `state_history`, `game_state`, `evaluator`, `token`, `max_thread_count`,
#                                       `game_state_hash`, `max_depth` are read only; `nodes_searched`, `best_eval`, `best_mv` are the loop state.
#  cells of the loop (monad `IM`)       `rng` (the loop's own generator), `transpositions` (shared table), the polls of `token`, and the CALLS OF
#                                       THE CALLBACK `f` as a list of `StatusEvent`s in call order.  A panic / exhausted fuel is the monad's error;
#                                       `Err(SearchInterrupt)` of a worker is a VALUE (`SResult.Err`) because the loop matches on it.
#  rayon                                `v.into_par_iter().map(closure).collect::<Result<Vec<_>, _>>()` is read as ONE ADMISSIBLE SCHEDULE: the
#                                       closures run one after the other in index order, each to its end, and no closure starts after the first
#                                       `Err` (`SPrim.par_map_collect_result`).  This is the model's `runWorkers`.  For one worker it is the real
#                                       execution.  `rayon::max_num_threads()` is a parameter (`max_num_threads`).
#  #[cfg(weechess_verif)]               fields / field initialisers / `let` statements under exactly this attribute are the instrumentation of the
#                                       verification build (`verif::enter_worker`: a thread-local tag for the log) and are DROPPED (listed in the notes).
#  a worker's call of analyze_recursive `IM.call_worker`: the generated `Searcher.analyze_recursive` runs on cells made of the worker's own `rng` and
#                                       `nodes_searched` and the loop's table and poll counter; the table and the counter are written back (also
#                                       when the run stops), the worker's `rng`, buffer and node count are returned.  Fuel: `search_depth + 1`.
#  for depth in lo..hi                  `SPrim.for_range_early` (structural recursion on `hi - lo`); `break` = `Early.ret state`, `continue` / end
#                                       of body = `Early.cont state`; after the loop both yield the state.
#  (lo..hi).map(closure).collect()      `SPrim.range_map_collect`: the closure is called for `lo, lo+1, ..` in this order (it draws from `rng`).
#  rng.gen() as argument of seed_from_u64   `IM.rng_gen_u64` = the model's `Rng.nextU64`; `ChaCha8Rng::seed_from_u64` = the model's `Rng.seedFromU64`.
#  it.map(|(_, n)| n).sum::<usize>()    `TTPrim.usize_sum` (checked);  `*it.map(|(e, _)| e).max().unwrap()` = `SPrim.iter_max` (`none` = the `unwrap` panic).
#  T.iter_moves(..).map(|r| r.0).collect()   stage 3c's reading: `iter_collect TranspositionTableMoveIterator.next (depth + 2) ..`, first components.
#  debug_assert!({ .. })                the block is run in `Panics`; `.expect(..)` = `unwrap` (the message is dropped); a `false` value panics.
#  f(StatusEvent::X { .. })             `IM.emit (StatusEvent.X ..)`, the fields evaluated in source order.
#  x.saturating_sub(y), usize::min      `SPrim.usize_saturating_sub`, `SPrim.usize_min`;  `e as u32` = `UInt64.toUInt32` (truncation).
ITER_FN = "analyze_iterative"
ITER_ENV = {"game_state": "State", "evaluator": "Evaluator", "token": "CancellationToken", "hasher": "ZobristHasher",
            "state_history": "StateHistory", "game_state_hash": "usize", "max_thread_count": ("Option", "usize"), "max_depth": "usize",
            "nodes_searched": "usize", "best_eval": "Evaluation", "best_mv": ("Option", "Move")}
ITER_CELLS = ("rng", "transpositions", "f")
# what the text in front of the loop must say about these variables
ITER_DECLS = [
    (r"fn analyze_iterative<F>\(\s*game_state: State,\s*evaluator: &eval::Evaluator,\s*rng: RandomNumberGenerator,\s*max_depth: Option<usize>,\s*"
     r"token: CancellationToken,\s*previous_artifact: Option<SearchArtifact>,\s*max_thread_count: Option<usize>,\s*f: &mut F,\s*\) -> SearchArtifact\s*"
     r"where\s*F: FnMut\(StatusEvent\),", "signature of analyze_iterative"),
    (r"type RandomNumberGenerator = ChaCha8Rng;", "RandomNumberGenerator = ChaCha8Rng"),
    (r"let max_depth = max_depth\.unwrap_or\(usize::MAX\);\s*let mut rng = rng;", "max_depth: usize, rng: the loop's generator"),
    (r"let \(hasher, transpositions, mut state_history\) = previous_artifact", "hasher, transpositions, state_history"),
    (r"let game_state_hash = hasher\.hash\(&game_state\);\s*let mut nodes_searched = 0;\s*let mut best_eval = eval::Evaluation::NEG_INF;\s*"
     r"let mut best_mv = None;", "game_state_hash, nodes_searched, best_eval, best_mv"),
    (r"pub enum StatusEvent \{\s*BestMove \{\s*line: Vec<Move>,\s*evaluation: eval::Evaluation,\s*\},\s*Progress \{\s*depth: u32,\s*"
     r"nodes_searched: usize,\s*transposition_saturation: f32,\s*\},\s*Warning \{", "enum StatusEvent"),
    (r"fn saturation\(&self\) -> f32 \{", "TranspositionTableAccess::saturation"),
    (r"fn iter_moves<'a>\(\s*&'a self,\s*hasher: &'a ZobristHasher,\s*state: &State,\s*max_depth: usize,\s*\) -> impl Iterator<Item = MoveResult> \+ 'a \{",
     "TranspositionTableAccess::iter_moves"),
]
ITER_EXTERN_HEADS = {
    "MoveFns.lean": ["def Evaluation.mate_in_ply (ply : UInt64) : Panics Evaluation := do", "def Evaluation.POS_INF : Evaluation :=",
                     "@[reducible, inline] def unwrap {α : Type} (x : Option α) : Panics α := x"],
    "CoreFns.lean": ["def State.by_performing_move (state : State) (mv : Move) : Panics (Option State) := do",
                     "def iter_collect {σ α : Type} (next : σ → Panics (Option α × σ)) : Nat → σ → Panics (List α)"],
    "TTFns.lean": ["def TranspositionTableAccess.saturation (self : TranspositionTableAccess) : Panics Rat := do",
                   "def TranspositionTableAccess.iter_moves (self : TranspositionTableAccess) (hasher : ZobristHasher) (state : State) (max_depth : UInt64) : TranspositionTableMoveIterator :=",
                   "def TranspositionTableMoveIterator.next (self : TranspositionTableMoveIterator) : Panics ((Option (Move × State)) × TranspositionTableMoveIterator) := do",
                   "def TTPrim.usize_sum (xs : List UInt64) : Panics UInt64 := xs.foldlM (fun acc x => UInt64.checked_add acc x) 0",
                   "def TTPrim.assert (c : Bool) : Panics Unit := if c then some () else none"],
}
STATUS_EVENT = {"BestMove": [("evaluation", "Evaluation"), ("line", ("Vec", "Move"))],
                "Progress": [("depth", "u32"), ("nodes_searched", "usize"), ("transposition_saturation", "f32")]}

PRELUDE_ITER = r"""
/-! ## Prelude of stage 4e: the iterative-deepening loop of `analyze_iterative` (fixed vocabulary; TRUSTED PART 3 of the tool) -/

/-- `Result<T, SearchInterrupt>` as a VALUE (the loop matches on `Ok(..)` / `Err(SearchInterrupt)`) -/
inductive SResult (α : Type) where
  | Ok (v : α)
  | Err
def SResult.map {α β : Type} (f : α → β) : SResult α → SResult β
  | .Ok v => .Ok (f v)
  | .Err => .Err

/-- `StatusEvent` as far as the loop emits it: the calls of the callback `f`, in call order -/
inductive StatusEvent where
  | BestMove (evaluation : Evaluation) (line : Array Move)
  | Progress (depth : UInt32) (nodes_searched : UInt64) (transposition_saturation : f32)

/-- the objects the loop works on: its own generator, the shared table, the polls of the token so far, the calls of `f` -/
structure IterCells where
  rng : Wee.Rng.ChaCha8
  transpositions : TranspositionTableAccess
  polls : Nat
  events : List StatusEvent

/-- the monad of the loop: the cells survive an error -/
def IM (α : Type) : Type := IterCells → Except SearchStop α × IterCells
instance : Monad IM where
  pure a := fun c => (.ok a, c)
  bind x f := fun c => match x c with
    | (.ok a, c') => f a c'
    | (.error e, c') => (.error e, c')
def IM.liftP {α : Type} (p : Panics α) : IM α := fun c =>
  match p with
  | none => (.error .panic, c)
  | some a => (.ok a, c)
def IM.read_transpositions : IM TranspositionTableAccess := fun c => (.ok c.transpositions, c)
/-- `f(event)` -/
def IM.emit (e : StatusEvent) : IM Unit := fun c => (.ok (), { c with events := c.events ++ [e] })
/-- `token.is_cancelled()` through the verification hook: the poll is counted (as `SPrim.is_cancelled`) -/
def IM.is_cancelled (token : CancellationToken) : IM Bool := fun c =>
  (.ok (match token.cancel_at with | some k => decide (c.polls ≥ k) | none => false), { c with polls := c.polls + 1 })
/-- `rng.gen()` at type `u64`: the model's `Rng.nextU64` -/
def IM.rng_gen_u64 : IM UInt64 := fun c => (.ok (Wee.Rng.nextU64 c.rng).1, { c with rng := (Wee.Rng.nextU64 c.rng).2 })
/-- `ChaCha8Rng::seed_from_u64` -/
def SPrim.seed_from_u64 (s : UInt64) : Wee.Rng.ChaCha8 := Wee.Rng.seedFromU64 s
def SPrim.usize_saturating_sub (a b : UInt64) : UInt64 := if b ≤ a then a - b else 0
def SPrim.usize_min (a b : UInt64) : UInt64 := if a ≤ b then a else b
/-- `iter.max()` on `Evaluation`s: `none` for the empty iterator -/
def SPrim.iter_max : List Evaluation → Option Evaluation
  | [] => none
  | e :: es => some (es.foldl Evaluation.ord_max e)
/-- `(lo..hi).map(f).collect()`: `f` is called for `lo, lo+1, ..` in this order -/
def SPrim.range_mapM {m : Type → Type} [Monad m] {β : Type} (f : UInt64 → m β) : Nat → UInt64 → m (List β)
  | 0, _ => pure []
  | n + 1, i => do
    let b ← f i
    let bs ← SPrim.range_mapM f n (i + 1)
    pure (b :: bs)
def SPrim.range_map_collect {m : Type → Type} [Monad m] {β : Type} (lo hi : UInt64) (f : UInt64 → m β) : m (Array β) := do
  let l ← SPrim.range_mapM f (hi.toNat - lo.toNat) lo
  pure l.toArray
/-- TRUSTED READING of `v.into_par_iter().map(f).collect::<Result<Vec<_>, _>>()`: ONE admissible schedule — the closures run one
after the other in index order, and no closure runs after the first `Err` -/
def SPrim.par_map_collect_result {α β : Type} (f : α → IM (SResult β)) : List α → IM (SResult (List β))
  | [] => pure (.Ok [])
  | x :: xs => do
    match ← f x with
    | .Err => pure .Err
    | .Ok b => do
      match ← SPrim.par_map_collect_result f xs with
      | .Err => pure .Err
      | .Ok bs => pure (.Ok (b :: bs))
/-- a worker's call of `analyze_recursive`: its own `rng`, `move_buffer` and `nodes_searched` (returned), the loop's table and poll
counter (written back, also when the run stops); `Err(SearchInterrupt)` becomes a value -/
def IM.call_worker (run : SM (Evaluation × Array Move)) (rng : Wee.Rng.ChaCha8) (move_buffer : Array Move) (nodes_searched : UInt64) :
    IM (SResult Evaluation × Wee.Rng.ChaCha8 × Array Move × UInt64) := fun ic =>
  match run { nodes_searched := nodes_searched, rng := rng, transpositions := ic.transpositions, polls := ic.polls } with
  | (.ok r, c) => (.ok (.Ok r.1, c.rng, r.2, c.nodes_searched), { ic with transpositions := c.transpositions, polls := c.polls })
  | (.error .interrupt, c) => (.ok (.Err, c.rng, move_buffer, c.nodes_searched), { ic with transpositions := c.transpositions, polls := c.polls })
  | (.error e, c) => (.error e, { ic with transpositions := c.transpositions, polls := c.polls })
/-- fuel of a worker's call: `max_depth - current_depth` drops by one per call (the extension is added to both) -/
def SPrim.analyze_fuel (search_depth : UInt64) : Nat := search_depth.toNat + 1
/-- `for i in lo..hi { body }` with `break` / `continue`: structural recursion on the number of iterations left -/
def SPrim.for_range_early {m : Type → Type} [Monad m] {ρ σ : Type} (f : σ → UInt64 → m (Early ρ σ)) : Nat → UInt64 → σ → m (Early ρ σ)
  | 0, _, s => pure (Early.cont s)
  | n + 1, i, s => do
    match ← f s i with
    | Early.ret r => pure (Early.ret r)
    | Early.cont s' => SPrim.for_range_early f n (i + 1) s'
"""


class IterEm:
    """translator of the `for` statement of `analyze_iterative` (shape-directed; everything it does not know fails closed)"""

    def __init__(self, em):
        self.em = em
        self.ntmp = 0
        self.notes = []
        self.structs = {}

    def err(self, e, msg):
        fail(f"{SEARCHER}:{e.line}: in fn Searcher::{ITER_FN} (loop fragment): {msg}")

    def fresh(self):
        self.ntmp += 1
        return f"tmp{self.ntmp}"

    # ---- locating the fragment ------------------------------------------------------------------
    def locate(self):
        toks = self.em.load(SEARCHER)
        text = re.sub(r"//[^\n]*", "", self.em.src[SEARCHER])
        for pat, what in ITER_DECLS:
            if len(re.findall(pat, text)) != 1:
                fail(f"{SEARCHER}: `{what}` not found exactly once (the loop fragment of analyze_iterative rests on it)")
        m = re.findall(r"const DEFAULT_MAX_THREAD_COUNT: usize = (\d+);", text)
        if len(m) != 1:
            fail(f"{SEARCHER}: const DEFAULT_MAX_THREAD_COUNT not found exactly once")
        self.consts = {"DEFAULT_MAX_THREAD_COUNT": (f"({m[0]} : UInt64)", "usize")}
        for fname, heads in ITER_EXTERN_HEADS.items():
            with open(os.path.join(GEN, fname)) as f:
                gtext = f.read()
            for h in heads:
                if gtext.count("\n" + h) != 1:
                    fail(f"lean/Wee/Gen/{fname}: definition head `{h}` not found exactly once (the generated loop calls it by name)")
        lo, hi = R.find_container(toks, 0, len(toks), ["impl", "Searcher"], SEARCHER)
        i = lo
        while i < hi and not (toks[i].s == "fn" and toks[i + 1].s == ITER_FN):
            i += 1
        if i >= hi:
            fail(f"{SEARCHER}: fn {ITER_FN} not found")
        k = i
        while toks[k].s != "(":
            k += 1
        b = R.match_close(toks, k, "(", ")")
        while toks[b].s != "{":
            b += 1
        bc = R.match_close(toks, b, "{", "}")
        body = toks[b + 1:bc]
        d, fors = 0, []
        for n, t in enumerate(body):
            if t.s == "{":
                d += 1
            elif t.s == "}":
                d -= 1
            elif t.s == "for" and d == 0:
                fors.append(n)
        if len(fors) != 1:
            fail(f"{SEARCHER}: fn {ITER_FN}: expected exactly one top-level `for` statement, found {len(fors)}")
        st = fors[0]
        m2 = st
        while body[m2].s != "{":
            m2 += 1
        en = R.match_close(body, m2, "{", "}")
        self.line = body[st].line
        # what follows the loop must not read the loop state (it is returned to nobody): only `transpositions` is used afterwards
        after = " ".join(t.s for t in body[en + 1:])
        for v in ("nodes_searched", "best_eval", "best_mv"):
            if re.search(rf"\b{v}\b", after):
                fail(f"{SEARCHER}: fn {ITER_FN}: `{v}` is used after the loop (the fragment returns it, the rest is not translated)")
        p = P([x for x in body[st:en + 1] if x.k != "life"], ext=True)
        f = p.primary()
        if p.i != len(p.t) or f.k != "for":
            fail(f"{SEARCHER}: fn {ITER_FN}: cannot isolate the `for` statement")
        for dmsg in p.dropped:
            self.notes.append(f"dropped (`#[cfg(weechess_verif)]` instrumentation): `{dmsg}`")
        return f

    # ---- types ------------------------------------------------------------------------------------
    def lt(self, t, atom=False):
        if isinstance(t, tuple):
            if t[0] == "SResult":
                s2 = f"SResult {self.lt(t[1], True)}"
            elif t[0] == "List":
                s2 = f"List {self.lt(t[1], True)}"
            elif t[0] == "tuple":
                return "(" + " × ".join(self.lt(x, True) for x in t[1]) + ")"
            elif t[0] == "Vec":
                s2 = f"Array {self.lt(t[1], True)}"
            elif t[0] == "Option":
                s2 = f"Option {self.lt(t[1], True)}"
            else:
                return lty(t, atom)
            return f"({s2})" if atom else s2
        if t == "u32":
            return "UInt32"
        if t in self.structs:
            return f"Searcher.{ITER_FN}.{t}"
        return lty(t, atom)

    # ---- expressions ------------------------------------------------------------------------------
    def has_effect(self, e):
        return any(x.k == "mcall" and x.name in ("is_cancelled", "gen") for x in walk(e))

    def xe(self, e, env, out, ind):
        k = e.k

        def bindP(term, ty):
            t = self.fresh()
            out.append(f"{ind}let {t} : {self.lt(ty)} ← IM.liftP ({term})")
            return t, ty

        def bindM(term, ty):
            t = self.fresh()
            out.append(f"{ind}let {t} : {self.lt(ty)} ← {term}")
            return t, ty

        if k == "paren":
            a, t = self.xe(e.e, env, out, ind)
            return a, t
        if k == "lit":
            if e.suf not in (None, "usize"):
                self.err(e, "integer literal with a suffix other than usize")
            return f"({e.v} : UInt64)", "usize"
        if k == "boollit":
            return ("true" if e.v else "false"), "bool"
        if k == "path":
            if len(e.segs) == 1:
                x = e.segs[0]
                if x in env:
                    return mangle(x), env[x]
                if x == "None":
                    return "none", ("Option", "?")
                if x in self.consts:
                    return self.consts[x]
                self.err(e, f"unknown identifier `{x}`")
            if e.segs in (["eval", "Evaluation", "POS_INF"], ["Evaluation", "POS_INF"]):
                return "Evaluation.POS_INF", "Evaluation"
            self.err(e, f"path `{'::'.join(e.segs)}` is outside the supported subset")
        if k == "un":
            if e.op in ("&", "&mut", "*"):
                return self.xe(e.e, env, out, ind)
            a, t = self.xe(e.e, env, out, ind)
            if e.op == "!" and t == "bool":
                return f"(!{par(a)})", "bool"
            if e.op == "-" and t == "Evaluation":
                return bindP(f"Evaluation.neg {par(a)}", "Evaluation")
            self.err(e, f"unary `{e.op}` on {show(t)}")
        if k == "cast":
            a, t = self.xe(e.e, env, out, ind)
            if t == "usize" and e.to == "u32":
                return f"(UInt64.toUInt32 {par(a)})", "u32"
            self.err(e, f"cast {show(t)} as {show(e.to)}")
        if k == "bin":
            if e.op == "&&":
                a, ta = self.xe(e.l, env, out, ind)
                if ta != "bool":
                    self.err(e, "`&&` on non-bool")
                if self.has_effect(e.r):
                    o2 = []
                    b, tb = self.xe(e.r, env, o2, ind + "  ")
                    t = self.fresh()
                    out.append(f"{ind}let {t} : Bool ← (")
                    out.append(f"{ind}  if {a} then do")
                    out.extend("  " + x for x in o2)
                    out.append(f"{ind}    pure {par(b)}")
                    out.append(f"{ind}  else pure false)")
                    return t, "bool"
                b, tb = self.xe(e.r, env, out, ind)
                return f"({a} && {b})", "bool"
            a, ta = self.xe(e.l, env, out, ind)
            b, tb = self.xe(e.r, env, out, ind)
            if ta != tb:
                self.err(e, f"`{e.op}` on {show(ta)} and {show(tb)}")
            if e.op in ("<", ">", "<=", ">=") and ta in ("usize", "Evaluation"):
                return f"decide ({par(a)} {e.op} {par(b)})", "bool"
            if e.op == "==" and ta == "usize":
                return f"({par(a)} == {par(b)})", "bool"
            if e.op == "%" and ta == "usize" and e.r.k == "lit" and e.r.v != 0:
                return f"({par(a)} % {par(b)})", "usize"
            if e.op == "+" and ta == "usize":
                return bindP(f"UInt64.checked_add {par(a)} {par(b)}", "usize")
            self.err(e, f"operator `{e.op}` on {show(ta)}")
        if k == "field":
            a, t = self.xe(e.e, env, out, ind)
            if t in self.structs and e.name in dict(self.structs[t]):
                return f"{par(a)}.f_{e.name}", dict(self.structs[t])[e.name]
            if t == "TranspositionEntry" and e.name in dict(STRUCT_FIELDS[t]):
                return f"{par(a)}.f_{e.name}", dict(STRUCT_FIELDS[t])[e.name]
            if isinstance(t, tuple) and t[0] == "tuple" and e.name.isdigit() and int(e.name) < len(t[1]):
                return tuple_proj(par(a), int(e.name), len(t[1])), t[1][int(e.name)]
            self.err(e, f"field `.{e.name}` of {show(t)}")
        if k == "tuple":
            parts = [self.xe(x, env, out, ind) for x in e.es]
            return "(" + ", ".join(a for a, _ in parts) + ")", ("tuple", tuple(t for _, t in parts))
        if k == "if":
            c, tc = self.xe(e.c, env, out, ind)
            if tc != "bool" or e.el is None:
                self.err(e, "`if` expression without `else` / with a non-bool condition")
            vals = []
            for b in (e.th, e.el):
                if b.stmts or b.tail is None:
                    self.err(e, "`if` expression whose branches are not plain expressions")
                o2 = []
                vals.append(self.xe(b.tail, env, o2, ind))
                if o2:
                    self.err(e, "`if` expression with an effect / possible panic in a branch")
            (a, ta), (b, tb) = vals
            if ta != tb and not (isinstance(ta, tuple) and isinstance(tb, tuple) and ta[0] == tb[0] == "Option" and "?" in (ta[1], tb[1])):
                self.err(e, f"`if` branches of types {show(ta)} and {show(tb)}")
            return f"(if {c} then {a} else {b})", (tb if isinstance(ta, tuple) and ta[1] == "?" else ta)
        if k == "blockexpr":
            env2 = dict(env)
            for st in e.b.stmts:
                if st.k != "let" or st.pat[0] != "bind" or st.els is not None:
                    self.err(st, "statement of a block expression other than a plain `let`")
                if st.pat[1] in env:
                    self.err(st, f"`let {st.pat[1]}` in a block expression shadows an outer variable")
                v, t = self.xe(st.init, env2, out, ind)
                out.append(f"{ind}let {mangle(st.pat[1])} : {self.lt(t)} := {v}")
                env2[st.pat[1]] = t
            if e.b.tail is None:
                self.err(e, "block expression without a value")
            return self.xe(e.b.tail, env2, out, ind)
        if k == "structlit":
            if e.name not in self.structs:
                self.err(e, f"struct literal `{e.name}`")
            decl = dict(self.structs[e.name])
            if sorted(f for f, _ in e.fields) != sorted(decl):
                self.err(e, f"struct literal `{e.name}`: fields differ from the declaration")
            parts = []
            for f, v in e.fields:
                a, t = self.xe(v, env, out, ind)
                if t != decl[f] and not (isinstance(t, tuple) and t[0] == "Option" and isinstance(decl[f], tuple) and decl[f][0] == "Option"):
                    self.err(v, f"field `{f}`: {show(t)} where {show(decl[f])} is expected")
                parts.append(f"f_{f} := {a}")
            return "{ " + ", ".join(parts) + " }", e.name
        if k == "call":
            fn = e.fn
            if fn == ["ChaCha8Rng", "seed_from_u64"] and len(e.args) == 1:
                a, t = self.xe(e.args[0], env, out, ind)
                if t != "u64":
                    self.err(e, "seed_from_u64 of a non-u64")
                return f"(SPrim.seed_from_u64 {par(a)})", "ChaCha8Rng"
            if fn == ["usize", "min"] and len(e.args) == 2:
                (a, ta), (b, tb) = [self.xe(x, env, out, ind) for x in e.args]
                if (ta, tb) != ("usize", "usize"):
                    self.err(e, "usize::min on non-usize")
                return f"(SPrim.usize_min {par(a)} {par(b)})", "usize"
            if fn == ["rayon", "max_num_threads"] and not e.args:
                return "max_num_threads", "usize"
            if fn in (["eval", "Evaluation", "mate_in_ply"], ["Evaluation", "mate_in_ply"]) and len(e.args) == 1:
                a, t = self.xe(e.args[0], env, out, ind)
                if t != "usize":
                    self.err(e, "mate_in_ply of a non-usize")
                return bindP(f"Evaluation.mate_in_ply {par(a)}", "Evaluation")
            self.err(e, f"call of `{'::'.join(fn)}` is outside the supported subset")
        if k == "mcall":
            return self.mcall(e, env, out, ind, bindP, bindM)
        self.err(e, f"expression `{k}` is outside the supported subset")

    def chain(self, e):
        """method chain as a list [(name, args, node)], innermost first, and the receiver"""
        ms = []
        while e.k == "mcall":
            ms.append((e.name, e.args, e))
            e = e.recv
        return e, ms[::-1]

    def mcall(self, e, env, out, ind, bindP, bindM):
        recv, ms = self.chain(e)
        names = [m[0] for m in ms]
        # evaluations.iter().map(|(_, n)| n).sum::<usize>()  /  evaluations.iter().map(|(e, _)| e).max().unwrap()
        if names[:2] == ["iter", "map"] and names[2:] in (["sum"], ["max", "unwrap"]):
            a, t = self.xe(recv, env, out, ind)
            cl = ms[1][1][0] if len(ms[1][1]) == 1 else None
            if not (isinstance(t, tuple) and t[0] == "Vec" and isinstance(t[1], tuple) and t[1][0] == "tuple" and len(t[1][1]) == 2) \
                    or cl is None or cl.k != "closure" or len(cl.params) != 1 or not isinstance(cl.params[0], tuple) or len(cl.params[0]) != 2 \
                    or cl.body.k != "path" or len(cl.body.segs) != 1 or any(a2 for _, a2, _ in [ms[0]] + ms[2:]):
                self.err(e, "iterator chain outside the supported subset")
            pr = cl.params[0]
            if cl.body.segs[0] not in pr or pr[1 - pr.index(cl.body.segs[0])] != "_":
                self.err(e, "closure of the iterator chain must project one component of the pair")
            ix = pr.index(cl.body.segs[0])
            comp = t[1][1][ix]
            lst = f"((Array.toList {par(a)}).map (fun p => p.{ix + 1}))"
            if names[2:] == ["sum"]:
                if comp != "usize" or getattr(ms[2][2], "turbofish", None) != "usize":
                    self.err(e, "`.sum::<usize>()` over non-usize")
                return bindP(f"TTPrim.usize_sum {lst}", "usize")
            if comp != "Evaluation":
                self.err(e, "`.max()` over non-Evaluation")
            return bindP(f"SPrim.iter_max {lst}", "Evaluation")
        # transpositions.iter_moves(&hasher, &game_state, depth).map(|r| r.0).collect()
        if names == ["iter_moves", "map", "collect"] and recv.k == "path" and recv.segs == ["transpositions"]:
            args = [self.xe(x, env, out, ind) for x in ms[0][1]]
            cl = ms[1][1][0] if len(ms[1][1]) == 1 else None
            if [t for _, t in args] != ["ZobristHasher", "State", "usize"] or cl is None or cl.k != "closure" or cl.params != ["r"] \
                    or cl.body.k != "field" or cl.body.name != "0" or cl.body.e.k != "path" or cl.body.e.segs != ["r"] or ms[2][1]:
                self.err(e, "`iter_moves(..).map(|r| r.0).collect()` expected")
            tt, _ = bindM("IM.read_transpositions", "TranspositionTableAccess")
            d = args[2][0]
            items, _ = bindP(f"iter_collect TranspositionTableMoveIterator.next ({par(d)}.toNat + 2) (TranspositionTableAccess.iter_moves {tt} {args[0][0]} {args[1][0]} {d})",
                             ("List", "MoveResult"))
            return f"(List.toArray ({items}.map (fun r => r.1)))", ("Vec", "Move")
        if len(ms) == 2 and names == ["first", "copied"] and not ms[0][1] and not ms[1][1]:
            a, t = self.xe(recv, env, out, ind)
            if not (isinstance(t, tuple) and t[0] == "Vec"):
                self.err(e, "`.first()` of a non-Vec")
            return f"{par(a)}[0]?", ("Option", t[1])
        if len(ms) != 1:
            self.err(e, f"method chain `.{'.'.join(names)}` is outside the supported subset")
        name, args, node = ms[0]
        if recv.k == "path" and recv.segs == ["token"] and name == "is_cancelled" and not args:
            return bindM("IM.is_cancelled token", "bool")
        if recv.k == "path" and recv.segs == ["rng"] and name == "gen" and not args and "rng" not in env:
            return bindM("IM.rng_gen_u64", "u64")
        if recv.k == "path" and recv.segs == ["transpositions"] and name == "saturation" and not args:
            tt, _ = bindM("IM.read_transpositions", "TranspositionTableAccess")
            return bindP(f"TranspositionTableAccess.saturation {tt}", "f32")
        if recv.k == "path" and recv.segs == ["transpositions"] and name == "find" and len(args) == 1:
            h, th = self.xe(args[0], env, out, ind)
            if th != "usize":
                self.err(e, "find of a non-Hash")
            tt, _ = bindM("IM.read_transpositions", "TranspositionTableAccess")
            return bindP(f"TranspositionTableAccess.find {tt} {par(h)}", ("Option", "TranspositionEntry"))
        a, t = self.xe(recv, env, out, ind)
        if name == "saturating_sub" and t == "usize" and len(args) == 1:
            b, tb = self.xe(args[0], env, out, ind)
            if tb != "usize":
                self.err(e, "saturating_sub of a non-usize")
            return f"(SPrim.usize_saturating_sub {par(a)} {par(b)})", "usize"
        if name == "clone" and not args and t == "State":
            return a, t
        if name == "is_empty" and not args and isinstance(t, tuple) and t[0] == "Vec":
            return f"(Array.isEmpty {par(a)})", "bool"
        if name == "map" and isinstance(t, tuple) and t[0] == "SResult" and len(args) == 1 and args[0].k == "closure" \
                and len(args[0].params) == 1 and isinstance(args[0].params[0], str):
            env2 = dict(env)
            env2[args[0].params[0]] = t[1]
            o2 = []
            b, tb = self.xe(args[0].body, env2, o2, ind)
            if o2:
                self.err(e, "`Result::map` with an effect in the closure")
            return f"(SResult.map (fun {mangle(args[0].params[0])} => {b}) {par(a)})", ("SResult", tb)
        self.err(e, f"method `.{name}` on {show(t)} is outside the supported subset")

    # ---- statements -------------------------------------------------------------------------------
    def exits(self, node):
        return any(x.k in ("break", "continue", "return") for x in walk(node))

    def state_term(self, env):
        return tuple_term(self.state)

    def seq(self, stmts, tail, env, ind, inloop):
        """lines of a `do` block; every path ends in `pure (Early.ret/cont state)` (inloop) or returns the tail value (closure)"""
        out = []
        env = dict(env)
        stmts = list(stmts)
        if tail is not None and tail.k in ("if", "iflet", "match"):
            stmts.append(N("exprstmt", tail.line, e=tail))
            tail = None
        for n, st in enumerate(stmts):
            rest = stmts[n + 1:]
            if st.k == "structdef":
                self.structs[st.name] = [(f, norm(t)) for f, t in st.fields]
                continue
            if st.k == "let":
                if st.pat[0] != "bind" or st.els is not None:
                    self.err(st, "destructuring `let`")
                x = st.pat[1]
                if re.fullmatch(r"tmp\d+|loop_state|item|fuel|r|ic|c", x):
                    self.err(st, f"identifier {x} clashes with generated names")
                v, t = self.let_init(st, env, out, ind)
                out.append(f"{ind}let {mangle(x)} : {self.lt(t)} := {v}")
                env[x] = t
                continue
            if st.k == "assign":
                if st.place.k != "path" or len(st.place.segs) != 1 or st.place.segs[0] not in env:
                    self.err(st, "assignment to something other than a local variable")
                x = st.place.segs[0]
                v, t = self.xe(st.rhs, env, out, ind)
                if st.op == "+=" and env[x] == "usize" and t == "usize":
                    tmp = self.fresh()
                    out.append(f"{ind}let {tmp} : UInt64 ← IM.liftP (UInt64.checked_add {mangle(x)} {par(v)})")
                    v = tmp
                elif st.op != "=":
                    self.err(st, f"assignment operator `{st.op}`")
                elif t != env[x] and not (isinstance(t, tuple) and isinstance(env[x], tuple) and t[0] == env[x][0] == "Option"):
                    self.err(st, f"assignment of {show(t)} to `{x}` : {show(env[x])}")
                out.append(f"{ind}let {mangle(x)} : {self.lt(env[x])} := {v}")
                continue
            if st.k != "exprstmt":
                self.err(st, f"statement `{st.k}`")
            e = st.e
            if e.k == "break":
                if not inloop or rest:
                    self.err(e, "`break` outside the loop / not at the end of a block")
                out.append(f"{ind}pure (Early.ret {self.state_term(env)})")
                return out
            if e.k == "continue":
                if not inloop or rest:
                    self.err(e, "`continue` outside the loop / not at the end of a block")
                out.append(f"{ind}pure (Early.cont {self.state_term(env)})")
                return out
            if e.k == "debug_assert":
                self.debug_assert(e, env, out, ind)
                continue
            if e.k == "call" and e.fn == ["f"] and len(e.args) == 1 and e.args[0].k == "structlit" and e.args[0].segs[:-1] == ["StatusEvent"] \
                    and e.args[0].name in STATUS_EVENT:
                lit = e.args[0]
                decl = STATUS_EVENT[lit.name]
                if sorted(f for f, _ in lit.fields) != sorted(f for f, _ in decl):
                    self.err(e, f"StatusEvent::{lit.name}: fields differ from the declaration")
                vals = {}
                for f, v in lit.fields:
                    a, t = self.xe(v, env, out, ind)
                    if t != dict(decl)[f]:
                        self.err(v, f"StatusEvent::{lit.name}.{f}: {show(t)} where {show(dict(decl)[f])} is expected")
                    vals[f] = a
                out.append(f"{ind}IM.emit (StatusEvent.{lit.name} " + " ".join(par(vals[f]) for f, _ in decl) + ")")
                continue
            if e.k == "if":
                c, tc = self.xe(e.c, env, out, ind)
                if tc != "bool":
                    self.err(e, "non-bool condition")
                if self.exits(e):
                    if e.el is not None or not inloop:
                        self.err(e, "`if` with an exit and an `else` / outside the loop")
                    th = self.seq(e.th.stmts, e.th.tail, env, ind + "  ", inloop)
                    if not th or not re.match(r"\s*pure \(Early\.", th[-1]):
                        self.err(e, "`if` block with an exit that does not end in `break` / `continue`")
                    out.append(f"{ind}if {c} then do")
                    out.extend(th)
                    out.append(f"{ind}else do")
                    out.extend(self.seq(rest, tail, env, ind + "  ", inloop))
                    return out
                self.unit_branch(e, [(f"if {c} then do", e.th, env)], e.el, env, out, ind)
                continue
            if e.k == "iflet":
                if self.exits(e) or e.pat[0] != "some" or e.pat[1][0] != "bind" or e.el is not None:
                    self.err(e, "`if let` outside the supported subset")
                v, t = self.xe(e.scrut, env, out, ind)
                if not (isinstance(t, tuple) and t[0] == "Option"):
                    self.err(e, "`if let Some(..)` on a non-Option")
                env2 = dict(env)
                env2[e.pat[1][1]] = t[1]
                out.append(f"{ind}match {v} with")
                out.append(f"{ind}| some {mangle(e.pat[1][1])} => do")
                self.no_assign(e.th, env)
                out.extend(self.unit_block(e.th, env2, ind + "  "))
                out.append(f"{ind}| none => do")
                out.append(f"{ind}  pure ()")
                continue
            if e.k == "match":
                if rest or tail is not None or not inloop:
                    self.err(e, "`match` statement that is not the last statement of the loop body")
                v, t = self.xe(e.scrut, env, out, ind)
                if not (isinstance(t, tuple) and t[0] == "SResult") or len(e.arms) != 2:
                    self.err(e, "`match` on something other than a `Result<_, SearchInterrupt>` with two arms")
                (p1, b1), (p2, b2) = e.arms
                if not (p1[0] == "ctor" and p1[1] == ["Ok"] and len(p1[2]) == 1 and p1[2][0][0] == "bind"
                        and p2 == ("ctor", ["Err"], [("path", ["SearchInterrupt"])])):
                    self.err(e, "arms `Ok(x) => .., Err(SearchInterrupt) => ..` expected")
                env2 = dict(env)
                env2[p1[2][0][1]] = t[1]
                out.append(f"{ind}match {v} with")
                out.append(f"{ind}| SResult.Ok {mangle(p1[2][0][1])} => do")
                out.extend(self.seq(b1.stmts, b1.tail, env2, ind + "  ", inloop))
                out.append(f"{ind}| SResult.Err => do")
                out.extend(self.seq(b2.stmts, b2.tail, env, ind + "  ", inloop))
                return out
            self.err(e, f"expression statement `{e.k}` is outside the supported subset")
        if inloop:
            if tail is not None:
                self.err(tail, "loop body with a value")
            out.append(f"{ind}pure (Early.cont {self.state_term(env)})")
            return out
        if tail is None:
            self.err(stmts[-1] if stmts else N("x", self.line), "closure body without a value")
        v, t = self.xe(tail, env, out, ind)
        out.append(f"{ind}pure {par(v)}")
        self.tail_ty = t
        return out

    def no_assign(self, blk, env):
        for x in walk(blk):
            if x.k == "assign":
                self.err(x, "assignment inside a nested `if` / `if let` that does not exit is outside the supported subset")

    def unit_block(self, blk, env, ind):
        """a block run for its effects only (events); value `()`"""
        if blk.tail is not None and blk.tail.k not in ("if", "iflet"):
            self.err(blk, "nested block with a value")
        stmts = list(blk.stmts) + ([N("exprstmt", blk.tail.line, e=blk.tail)] if blk.tail is not None else [])
        saved, self.state = self.state, []
        out = []
        env = dict(env)
        for st in stmts:
            if st.k == "let" and st.pat[0] == "bind" and st.els is None:
                v, t = self.let_init(st, env, out, ind)
                out.append(f"{ind}let {mangle(st.pat[1])} : {self.lt(t)} := {v}")
                env[st.pat[1]] = t
                continue
            if st.k == "exprstmt" and st.e.k == "if" and not self.exits(st.e):
                c, tc = self.xe(st.e.c, env, out, ind)
                self.unit_branch(st.e, [(f"if {c} then do", st.e.th, env)], st.e.el, env, out, ind)
                continue
            if st.k == "exprstmt" and st.e.k == "call" and st.e.fn == ["f"]:
                o2 = self.seq([st], None, env, ind, False) if False else None
                sub = IterEm.seq(self, [st, N("exprstmt", st.line, e=N("continue", st.line))], None, env, ind, True)
                out.extend(sub[:-1])
                continue
            self.err(st, f"statement `{st.k}` in a nested effect-only block")
        out.append(f"{ind}pure ()")
        self.state = saved
        return out

    def unit_branch(self, e, heads, el, env, out, ind):
        if el is not None:
            self.err(e, "`if .. else ..` statement without an exit is outside the supported subset")
        self.no_assign(e.th, env)
        for head, blk, env2 in heads:
            out.append(f"{ind}{head}")
            out.extend(self.unit_block(blk, env2, ind + "  "))
        out.append(f"{ind}else do")
        out.append(f"{ind}  pure ()")

    def debug_assert(self, e, env, out, ind):
        b = e.e
        ok = b.k == "blockexpr" and len(b.b.stmts) == 2 and b.b.tail is not None and b.b.tail.k == "boollit" and b.b.tail.v is True
        if ok:
            s1, s2 = b.b.stmts
            ok = s1.k == "let" and s1.pat[0] == "bind" and s1.init.k == "mcall" and s1.init.name == "clone" and s1.init.recv.k == "path" \
                and s2.k == "exprstmt" and s2.e.k == "for" and s2.e.pat[0] == "bind" and s2.e.it.k == "mcall" and s2.e.it.name == "iter" \
                and s2.e.it.recv.k == "path" and len(s2.e.body.stmts) == 1 and s2.e.body.tail is None
        if ok:
            g, mv, a = s1.pat[1], s2.e.pat[1], s2.e.body.stmts[0]
            src, vec = s1.init.recv.segs[0], s2.e.it.recv.segs[0]
            ok = a.k == "assign" and a.op == "=" and a.place.k == "path" and a.place.segs == [g] and a.rhs.k == "mcall" and a.rhs.name == "expect" \
                and len(a.rhs.args) == 1 and a.rhs.recv.k == "call" and a.rhs.recv.fn == ["State", "by_performing_move"] and len(a.rhs.recv.args) == 2 \
                and env.get(src) == "State" and env.get(vec) == ("Vec", "Move")
        if ok:
            a1, a2 = a.rhs.recv.args
            ok = a1.k == "un" and a1.op == "&" and a1.e.k == "path" and a1.e.segs == [g] and a2.k == "path" and a2.segs == [mv]
        if not ok:
            self.err(e, "`debug_assert!({ let mut g = s.clone(); for mv in line.iter() { g = State::by_performing_move(&g, mv).expect(..); } true })` expected")
        t = self.fresh()
        out.append(f"{ind}let {t} : Bool ← IM.liftP (do")
        out.append(f"{ind}    let {mangle(g)} : State ← List.foldlM (fun ({mangle(g)} : State) ({mangle(mv)} : Move) => do")
        out.append(f"{ind}        let r ← State.by_performing_move {mangle(g)} {mangle(mv)}")
        out.append(f"{ind}        unwrap r) {mangle(src)} (Array.toList {mangle(vec)})")
        out.append(f"{ind}    pure true)")
        out.append(f"{ind}IM.liftP (TTPrim.assert {t})")

    def let_init(self, st, env, out, ind):
        e = st.init
        # max_thread_count.unwrap_or_else(|| { .. })
        if e.k == "mcall" and e.name == "unwrap_or_else" and len(e.args) == 1 and e.args[0].k == "closure" and not e.args[0].params:
            a, t = self.xe(e.recv, env, out, ind)
            if not (isinstance(t, tuple) and t[0] == "Option"):
                self.err(e, "`unwrap_or_else` on a non-Option")
            body = e.args[0].body
            body = N("blockexpr", body.line, b=body) if body.k == "block" else body
            o2 = []
            d, td = self.xe(body, env, o2, ind)
            if o2 or td != t[1]:
                self.err(e, "`unwrap_or_else` closure with an effect / of another type")
            return f"(match {a} with | some v => v | none => {d})", t[1]
        # (lo..hi).map(|i| ..).collect()
        if e.k == "mcall" and e.name == "collect" and not e.args and e.recv.k == "mcall" and e.recv.name == "map" and e.recv.recv.k == "paren" \
                and e.recv.recv.e.k == "range" and not e.recv.recv.e.incl:
            rg, cl = e.recv.recv.e, e.recv.args[0] if len(e.recv.args) == 1 else None
            if cl is None or cl.k != "closure" or len(cl.params) != 1 or not isinstance(cl.params[0], str):
                self.err(e, "`(lo..hi).map(|i| ..).collect()` expected")
            lo, tlo = self.xe(rg.lo, env, out, ind)
            hi, thi = self.xe(rg.hi, env, out, ind)
            if (tlo, thi) != ("usize", "usize") or st.ann != ("Vec", "_"):
                self.err(e, "range of non-usize / missing `Vec<_>` annotation")
            env2 = dict(env)
            env2[cl.params[0]] = "usize"
            o2 = []
            v, t = self.xe(cl.body, env2, o2, ind + "    ")
            tmp = self.fresh()
            out.append(f"{ind}let {tmp} : {self.lt(('Vec', t))} ← SPrim.range_map_collect (m := IM) {lo} {hi} (fun ({mangle(cl.params[0])} : UInt64) => do")
            out.extend(o2)
            out.append(f"{ind}    pure {v})")
            return tmp, ("Vec", t)
        # { v.into_par_iter().map(|data| { .. }).collect() }
        if e.k == "blockexpr" and not e.b.stmts and e.b.tail is not None and e.b.tail.k == "mcall" and e.b.tail.name == "collect" and not e.b.tail.args:
            m = e.b.tail.recv
            if not (m.k == "mcall" and m.name == "map" and len(m.args) == 1 and m.args[0].k == "closure" and len(m.args[0].params) == 1
                    and isinstance(m.args[0].params[0], str) and m.recv.k == "mcall" and m.recv.name == "into_par_iter" and not m.recv.args
                    and m.args[0].body.k == "block"):
                self.err(e, "`{ v.into_par_iter().map(|x| { .. }).collect() }` expected")
            if st.ann != ("Result", ("Vec", "_")):
                self.err(e, "the result of the parallel map must be annotated `Result<Vec<_>, SearchInterrupt>`")
            a, t = self.xe(m.recv.recv, env, out, ind)
            if not (isinstance(t, tuple) and t[0] == "Vec"):
                self.err(e, "`into_par_iter` of a non-Vec")
            cl = m.args[0]
            env2 = {k2: v2 for k2, v2 in env.items()}
            env2[cl.params[0]] = t[1]
            saved = self.state
            self.state = []
            body = self.seq(cl.body.stmts, cl.body.tail, env2, ind + "    ", False)
            self.state = saved
            rt = self.tail_ty
            if not (isinstance(rt, tuple) and rt[0] == "SResult"):
                self.err(e, "the worker closure must return a `Result<_, SearchInterrupt>`")
            tmp = self.fresh()
            out.append(f"{ind}let {tmp} : {self.lt(('SResult', ('List', rt[1])))} ← SPrim.par_map_collect_result (fun ({mangle(cl.params[0])} : {self.lt(t[1])}) => do")
            out.extend(body)
            out.append(f"{ind}    ) (Array.toList {par(a)})")
            return f"(SResult.map List.toArray {tmp})", ("SResult", ("Vec", rt[1]))
        # Self::analyze_recursive(..)
        if e.k == "call" and e.fn == ["Self", "analyze_recursive"]:
            fi = self.em.fns["analyze_recursive"]
            if len(e.args) != len(fi.params) or st.ann != ("Result", "Evaluation"):
                self.err(e, "call of analyze_recursive: number of arguments / missing `Result<Evaluation, SearchInterrupt>` annotation")
            args, own = [], {}
            for (p, pt, mode), a in zip(fi.params, e.args):
                pre = {"ref": "&", "refmut": "&mut", "val": None}[mode]
                if pre is not None:
                    if a.k != "un" or a.op != pre:
                        self.err(a, f"argument for `{p}` must be passed as `{pre}..`")
                    a = a.e
                if p in ("token", "transpositions"):
                    if a.k != "path" or a.segs != [p] or p in env and p != "token":
                        self.err(a, f"argument for `{p}` must be the loop's own `{p}`")
                    continue
                if mode == "refmut":
                    if a.k != "path" or len(a.segs) != 1 or a.segs[0] not in env or env[a.segs[0]] != pt:
                        self.err(a, f"argument for `&mut {p}` must be a local of type {show(pt)}")
                    own[p] = a.segs[0]
                    if p == "move_buffer":
                        args.append(mangle(a.segs[0]))
                    continue
                v, t = self.xe(a, env, out, ind)
                if t != pt and not (isinstance(t, tuple) and isinstance(pt, tuple) and t[0] == pt[0] == "Option"):
                    self.err(a, f"argument for `{p}`: {show(t)} where {show(pt)} is expected")
                args.append(par(v))
            if sorted(own) != ["move_buffer", "nodes_searched", "rng"]:
                self.err(e, "call of analyze_recursive: `&mut` arguments")
            md = args[[p for p, _, _ in fi.params if p not in ("token", "transpositions", "rng", "nodes_searched")].index("max_depth")]
            tmp = self.fresh()
            out.append(f"{ind}let {tmp} : (SResult Evaluation × Wee.Rng.ChaCha8 × Array Move × UInt64) ← IM.call_worker (Searcher.analyze_recursive (SPrim.analyze_fuel {md}) "
                       + " ".join(a2 if a2 != "token_placeholder" else "token" for a2 in self.with_token(fi, args)) + f") {mangle(own['rng'])} {mangle(own['move_buffer'])} {mangle(own['nodes_searched'])}")
            out.append(f"{ind}let {mangle(own['rng'])} : Wee.Rng.ChaCha8 := {tmp}.2.1")
            out.append(f"{ind}let {mangle(own['move_buffer'])} : Array Move := {tmp}.2.2.1")
            out.append(f"{ind}let {mangle(own['nodes_searched'])} : UInt64 := {tmp}.2.2.2")
            return f"{tmp}.1", ("SResult", "Evaluation")
        if e.k == "call" and e.fn == ["Vec", "new"] and not e.args:
            return "#[]", ("Vec", "Move")
        v, t = self.xe(e, env, out, ind)
        if st.ann is not None:
            want = norm(st.ann)
            if want != t:
                self.err(st, f"`let` annotated {show(want)} but the value is {show(t)}")
        return v, t

    def with_token(self, fi, args):
        """the Lean argument list of the generated analyze_recursive: its non-cell parameters in order, `token` included"""
        it = iter(args)
        res = []
        for p, t, m in fi.params:
            if p == "token":
                res.append("token")
            elif p in CELLS:
                continue
            else:
                res.append(next(it))
        return res

    # ---- driver -----------------------------------------------------------------------------------
    def run(self):
        f = self.locate()
        if f.pat[0] != "bind" or f.it.k != "range" or f.it.incl:
            self.err(f, "`for <var> in lo..hi` expected")
        var = f.pat[1]
        env = dict(ITER_ENV)
        # loop state: the outer variables the body assigns
        assigned = []

        def scan(node, bound):
            """assignments to variables that are not declared (by `let` / a closure / a `for` pattern) in an enclosing scope of the body"""
            if isinstance(node, N):
                if node.k == "block":
                    b2 = set(bound)
                    for st in node.stmts:
                        scan(st, b2)
                        if st.k == "let":
                            b2.update(pat_binders(st.pat, []))
                    if node.tail is not None:
                        scan(node.tail, b2)
                    return
                if node.k == "closure":
                    b2 = set(bound)
                    for q in node.params:
                        b2.update(q if isinstance(q, tuple) else [q])
                    scan(node.body, b2)
                    return
                if node.k == "for":
                    scan(node.it, bound)
                    scan(node.body, set(bound) | set(pat_binders(node.pat, [])))
                    return
                if node.k == "assign" and node.place.k == "path" and len(node.place.segs) == 1:
                    v = node.place.segs[0]
                    if v not in bound and v not in assigned:
                        assigned.append(v)
                for k2, v2 in node.__dict__.items():
                    if k2 not in ("k", "line", "ty"):
                        scan(v2, bound)
            elif isinstance(node, (list, tuple)):
                for x in node:
                    if isinstance(x, (N, list, tuple)):
                        scan(x, bound)
        scan(f.body, set())
        for v in assigned:
            if v not in ITER_ENV:
                self.err(f, f"the loop assigns `{v}`, which is not a variable of the fragment")
        # a body-local that shadows a loop-state variable (the worker's own `nodes_searched`) is fine: Rust scoping = Lean scoping
        self.state = [v for v in ITER_ENV if v in assigned]
        for v in self.state:
            if v in ("game_state", "evaluator", "token", "hasher", "state_history", "game_state_hash", "max_thread_count", "max_depth"):
                self.err(f, f"the loop assigns `{v}`")
        lo, tlo = self.xe(f.it.lo, env, [], "")
        hi, thi = self.xe(f.it.hi, env, [], "")
        if (tlo, thi) != ("usize", "usize"):
            self.err(f, "range of non-usize")
        env[var] = "usize"
        self.ntmp = 0
        body = self.seq(f.body.stmts, f.body.tail, env, "  ", True)
        sty = self.lt(("tuple", tuple(ITER_ENV[v] for v in self.state)), True)
        ro = [v for v in ITER_ENV if v not in self.state and v != "max_depth"]
        params = " ".join(f"({mangle(v)} : {self.lt(ITER_ENV[v])})" for v in ro) + " (max_num_threads : UInt64)"
        out = []
        for sname, fields in self.structs.items():
            out.append(f"/-- `{SEARCHER}` local `struct {sname}` of `Searcher::{ITER_FN}` -/")
            out.append(f"structure Searcher.{ITER_FN}.{sname} where")
            for fn, ft in fields:
                out.append(f"  f_{fn} : {self.lt(ft)}")
            out.append("")
        out.append(f"/-- `{SEARCHER}` `Searcher::{ITER_FN}`: the BODY of `for {var} in {lo}..max_depth` (line {self.line}); loop state "
                   f"({', '.join(self.state)}); cells: rng, transpositions, token (polls), the calls of `f` -/")
        out.append(f"def Searcher.{ITER_FN}.iteration {params} (loop_state : {sty}) ({mangle(var)} : UInt64) : IM (Early {sty} {sty}) := do")
        for n, v in enumerate(self.state):
            out.append(f"  let {mangle(v)} : {self.lt(ITER_ENV[v])} := {tuple_proj('loop_state', n, len(self.state))}")
        out.extend(body)
        out.append("")
        out.append(f"/-- `{SEARCHER}` `Searcher::{ITER_FN}`: the statement `for {var} in {lo}..max_depth {{ .. }}`; returns the loop state -/")
        args = " ".join(mangle(v) for v in ro) + " max_num_threads"
        out.append(f"def Searcher.{ITER_FN}.loop {params} (max_depth : UInt64) (loop_state : {sty}) : IM {sty} := do")
        out.append(f"  let tmp1 : Early {sty} {sty} ← SPrim.for_range_early (m := IM) (Searcher.{ITER_FN}.iteration {args}) ({hi}.toNat - {lo}.toNat) {lo} loop_state")
        out.append("  match tmp1 with")
        out.append("  | Early.ret r => pure r")
        out.append("  | Early.cont r => pure r")
        return "\n".join(out)


FUEL_MEASURE = {"quiescence_search": ("SPrim.quiescence_fuel", "game_state")}


def main():
    ap = argparse.ArgumentParser()
    ap.add_argument("--repo", default=os.environ.get("WEE_REPO", "/repo"))
    ap.add_argument("--out", default=DEFAULT_OUT)
    ap.add_argument("--check", action="store_true", help="do not write; exit 1 if the file would change")
    a = ap.parse_args()
    try:
        t1 = R.Translator(a.repo)
        t1.run()                                   # stage 1 (its output is not written here)
        R2.install()
        e2 = R2.Emitter2(a.repo, t1)
        e2.run2()                                  # stage 2
        RT.TT(a.repo, e2).run()                    # stage 3c (table, history): a broken search memory breaks the search
        text = Em(a.repo).run()
    except TieBroken as ex:
        print(f"TIE-BROKEN {TAG}: {ex}")
        sys.exit(2)
    old = None
    if os.path.exists(a.out):
        with open(a.out) as f:
            old = f.read()
    changed = old != text
    if a.check:
        print('{"changed": %s}' % ("true" if changed else "false"))
        sys.exit(1 if changed else 0)
    if changed:
        os.makedirs(os.path.dirname(a.out), exist_ok=True)
        with open(a.out, "w") as f:
            f.write(text)
    print('{"changed": [%s]}' % ('"SearchFns.lean"' if changed else ""))


if __name__ == "__main__":
    main()
