#!/usr/bin/env python3
"""Tie (a) for FUNCTIONS, stage 3b: the static evaluator (`weechess-engine/src/eval/*.rs`).

    python3 tools/rs2lean_eval.py [--repo DIR] [--out FILE] [--check]

Imports `tools/rs2lean.py` and `tools/rs2lean2.py` as modules (neither is modified), runs stage 1 and stage 2 unchanged
in this process (their registries of translated functions are the vocabulary the evaluator code may call; their output
files are NOT written here) and translates the items of `CONTAINERS3` into `lean/Wee/Gen/EvalFns.lean`
(namespace `Wee.GenFns`, `import Wee.Gen.CoreFns`).  `Wee/Proofs/EvalFnsBridge.lean` proves the generated functions equal
to the hand-written model `Wee/Model/Eval.lean`.  Anything outside the supported subset fails CLOSED:
`TIE-BROKEN rs2lean_eval: <reason>`, exit status 2.

======================================================================================================
TRUSTED PART 1 (additions to the tables of rs2lean.py / rs2lean2.py) -- semantics given to the extended subset
------------------------------------------------------------------------------------------------------
 f32                                  `f32` = `Rat`: a FINITE binary32 value is the rational it denotes (`Wee/Model/F32.lean`)
 a + b, a - b, a * b   (f32)          `F32.add a b`, `F32.sub a b`, `F32.mul a b`: exact result rounded to nearest-even at 24 bits.
                                      Evaluation order and association are Rust's (the parse tree; `+`/`*` are left-associative).
                                      NOT modelled: overflow to infinity, NaN, the sign of zero (no translated function divides by
                                      a computed zero or tests a sign bit; values are far below 2^128).
 a / b   (f32)                        `F32.div a b` when `b` is a NON-ZERO literal; otherwise `f32.checked_div a b` which is `none`
                                      (outside the modelled domain: Rust gives inf/NaN) when `b = 0`
 a < b, a <= b, ..   (f32)            the order of `Rat` (no NaN can arise, see above)
 x as f32  (x an integer)             `F32.ofInt x` (round to nearest-even)
 x as i32  (x : f32)                  `Int32.ofInt (F32.toI32 x)`: truncation toward zero, saturating (Rust's `as`)
 x as f32  (x : f32), f64 anywhere    rejected
 1.5, 0.4, 100.0 (float literals)     `f32.ofBits 0x..`: the literal is converted to the nearest binary32 EXACTLY (big rationals,
                                      ties to even; cross-checked against `struct.pack('>f', ..)`) and emitted as its bit pattern;
                                      `f32.ofBits` decodes sign/exponent/mantissa into the rational.  A float literal whose type is
                                      not forced to `f32` by a declaration is rejected (Rust would default it to f64).  Suffixed
                                      literals and exponents do not lex.
 `T * 0.4`, `T * 10` (T a newtype)    the unique translated `impl Mul<F> for T` with F a float (resp. integer) type
 -x, a - b, x += y, x -= y on newtypes   the translated `impl Neg / Sub / AddAssign / SubAssign`
 lifetimes (`<'a>`, `&'a T`, `<'_>`)  erased before parsing (they do not influence evaluation)
 struct StateVariation { state: &State, .. }   Lean structure generated from the declaration; the reference is the value
 v.method(..) where `impl Deref for StateVariation` (checked textually: `Target = State`, body `self.state`)
                                      method lookup falls back to `v.state.method(..)`
 T::from(x) with x : T                identity (`impl<T> From<T> for T`)
 recv.pop() on a temporary            `&mut self` method called on an rvalue: the first component of the returned pair
 let (a, b) = e;                      `match e with | (a, b) => ..` (irrefutable tuple pattern)
 let f = |p: T| e;  f(x)              a local Lean function (`fun (p : T) => ..`, monadic when `e` can panic); the closure must not
                                      assign, and the variables it captures are immutable bindings in Lean, as borrowed in Rust
 ArrayMap::default()                  `Array.replicate COUNT default`, COUNT from `impl ArrayKey for K`, default of `u8` = 0
 m.index(i)  (m : ArrayMap, i : u8)   the inherent `ArrayMap::index<J: Into<usize>>` (declaration checked textually):
                                      `ArrayMap.index m (UInt8.toUInt64 i)`
 x.unwrap_or_default() (Option<BitBoard>)   `Option.getD x 0` (`derive(Default)` on `BitBoard(u64)` checked textually)
 u8::min(a, b)                        `if a ≤ b then a else b`
 x.clamp(lo, hi)  (derive(Ord) newtype over i32)   `Ord::clamp`: panics when `lo > hi`, else `if x < lo then lo else if x > hi then hi else x`
 fn-pointer type `EvaluationFunction` (declaration checked textually)
                                      `StateVariation → Color → Evaluation → Bool → Panics (Evaluation × Bool)`: the two `&mut`
                                      arguments are returned.  A translated `fn(v, perspective, eval: &mut Evaluation, _: &mut bool)`
                                      used as a value of this type is wrapped: its unnamed `&mut bool` cannot be written.
 f(&a, &b, &mut x, &mut y);  (f : EvaluationFunction)   `let (x, y) ← f a b x y`
 for (w, f) in LIST { body; if c { break; } }   fold with an extra Bool `loop_break`: once it is set the remaining items leave
                                      the state unchanged.  `break` is supported in exactly this position.
 EXTERNS (callees translated by STAGE 3a, `tools/rs2lean3.py` -> `Wee/Gen/GenMoves.lean`, which the generated file imports):
   Board::is_check(&self, Color) -> bool, Board::colored_attacks(&self, Color) -> BitBoard,
   Board::colored_pawn_attacks(&self, Color) -> BitBoard, MoveGenerator::compute_legal_moves(&State) -> MoveSet
                                      a DIRECT call of the stage-3a definition of the same (mangled) name, all `Panics ..`.
                                      The Rust declarations are checked textually (`EXTERN_DECLS`), and the heads of the Lean
                                      definitions are checked textually in the committed `Wee/Gen/GenMoves.lean` (`EXTERN_HEADS`);
                                      Lean type-checks the calls.  (`State::is_check` itself is translated here.)
 m.is_empty()  (m : MoveSet)          `Array.isEmpty m`: `MoveSet(Vec<MoveResult>)` is `Array MoveResult` in stage 3a; the declarations
                                      `pub struct MoveSet(Vec<MoveResult>);` and `pub fn is_empty(&self) -> bool { self.0.is_empty() }`
                                      are checked textually

TRUSTED PART 2 (additions) -- primitive mappings
------------------------------------------------------------------------------------------------------
 ZERO_MAP, PAWN_MAP, .. KING_END_GAME_MAP (`const X: ArrayMap<Square, i32> = ArrayMap::new([..])`)
                                      `(Gen.X).map Int32.ofInt` -- the 64 literals are regenerated by tools/extract.py
                                      (`Wee/Gen/EvalTables.lean`); the NAMES are read from the Rust text, `PIECE_SQUARE_MAP` and
                                      `PIECE_PAWN_WORTHS` themselves ARE translated (which table for which piece and phase)
======================================================================================================
"""
import argparse
import os
import re
import struct
import sys
from fractions import Fraction

sys.dont_write_bytecode = True
sys.path.insert(0, os.path.dirname(os.path.abspath(__file__)))
import rs2lean as R  # noqa: E402
import rs2lean2 as R2  # noqa: E402
from rs2lean import N, Tok, TVar, TieBroken, fail, mangle  # noqa: E402
from rs2lean2 import C, H, prune2 as prune, show_ty2, lean_ty2, pat_vars  # noqa: E402

VERIF = R.VERIF
DEFAULT_OUT = os.path.join(VERIF, "lean", "Wee", "Gen", "EvalFns.lean")

EVAL = R.EVAL
BOARD, STATE, UTILS = R.BOARD, R2.STATE, R2.UTILS
E_WORTHS = "weechess-engine/src/eval/evaluate_piece_worths.rs"
E_SQUARES = "weechess-engine/src/eval/evaluate_piece_squares.rs"
E_PAWNS = "weechess-engine/src/eval/evaluate_bad_pawns.rs"
E_KING = "weechess-engine/src/eval/evaluate_force_king_to_edge.rs"

# ----------------------------------------------------------------------------------------------------
# TABLES
# ----------------------------------------------------------------------------------------------------
TERM_SIG = (r"pub fn evaluate\(v: &StateVariation<'_>, perspective: &Color, eval: &mut Evaluation, _: &mut bool\) \{")
DECLS3 = [
    (EVAL, r"type EvaluationFunction =\s*fn\(v: &StateVariation<'_>, perspective: &Color, eval: &mut Evaluation, stop: &mut bool\);",
     "type EvaluationFunction = fn(&StateVariation, &Color, &mut Evaluation, &mut bool)"),
    (EVAL, r"impl Deref for StateVariation<'_> \{\s*type Target = State;\s*fn deref\(&self\) -> &Self::Target \{\s*self\.state\s*\}\s*\}",
     "impl Deref for StateVariation (Target = State, self.state)"),
    (EVAL, r"mod evaluate_bad_pawns;\s*mod evaluate_force_king_to_edge;\s*mod evaluate_piece_squares;\s*mod evaluate_piece_worths;",
     "the four evaluator modules"),
    (EVAL, r"pub use evaluate_piece_worths::PIECE_PAWN_WORTHS;", "re-export of PIECE_PAWN_WORTHS"),
    (EVAL, r"impl Default for Evaluator \{\s*fn default\(\) -> Self \{\s*Self \{ fns: &EVALUATORS \}\s*\}\s*\}",
     "Evaluator::default() = { fns: &EVALUATORS }"),
    (BOARD, r"#\[derive\(Clone, Copy, PartialEq, Eq, Default\)\]\s*pub struct BitBoard\(u64\);", "derive(Default) on BitBoard(u64)"),
    (UTILS, r"pub fn index<J: Into<usize>>\(&self, index: J\) -> &T \{\s*&self\.array\[index\.into\(\)\]\s*\}",
     "inherent ArrayMap::index<J: Into<usize>> = array[index.into()]"),
    (UTILS, r"impl<I, T> Default for ArrayMap<I, T>\s*where[^{]*\{\s*fn default\(\) -> Self \{\s*Self \{\s*array: \[T::default\(\); I::COUNT\],"
            r"\s*_marker: PhantomData,\s*\}\s*\}\s*\}", "ArrayMap::default() = [T::default(); I::COUNT]"),
    (E_WORTHS, TERM_SIG, "signature of evaluate_piece_worths::evaluate"),
    (E_SQUARES, TERM_SIG, "signature of evaluate_piece_squares::evaluate"),
    (E_PAWNS, TERM_SIG, "signature of evaluate_bad_pawns::evaluate"),
    (E_KING, TERM_SIG, "signature of evaluate_force_king_to_edge::evaluate"),
]

STRUCT_DECLS3 = [
    (EVAL, "StateVariation", {}, []),
    (EVAL, "Evaluator", {}, []),
]

# callees translated by stage 3a (tools/rs2lean3.py -> Wee/Gen/GenMoves.lean): called directly by their generated name
#   key -> (lean name, [argument types], result type, panics)
SEAMS = {
    ("method", "Board", "is_check"): ("Board.is_check", ["Color"], "bool", True),
    ("method", "Board", "colored_attacks"): ("Board.colored_attacks", ["Color"], "BitBoard", True),
    ("method", "Board", "colored_pawn_attacks"): ("Board.colored_pawn_attacks", ["Color"], "BitBoard", True),
    ("assoc", "MoveGenerator", "compute_legal_moves"): ("MoveGenerator.compute_legal_moves", ["State"], "MoveSet", True),
}
MOVES = "weechess-core/src/moves.rs"
SEAM_DECLS = [
    (BOARD, r"pub fn is_check\(&self, color: Color\) -> bool \{", "Board::is_check(&self, Color) -> bool"),
    (BOARD, r"pub fn colored_attacks\(&self, color: Color\) -> BitBoard \{", "Board::colored_attacks(&self, Color) -> BitBoard"),
    (BOARD, r"pub fn colored_pawn_attacks\(&self, color: Color\) -> BitBoard \{", "Board::colored_pawn_attacks(&self, Color) -> BitBoard"),
    ("weechess-core/src/movegen.rs", r"pub fn compute_legal_moves\(state: &State\) -> MoveSet \{",
     "MoveGenerator::compute_legal_moves(&State) -> MoveSet"),
    (MOVES, r"pub struct MoveSet\(Vec<MoveResult>\);", "struct MoveSet(Vec<MoveResult>)"),
    (MOVES, r"pub fn is_empty\(&self\) -> bool \{\s*self\.0\.is_empty\(\)\s*\}", "MoveSet::is_empty = self.0.is_empty()"),
]
# heads of the stage-3a definitions the generated code calls (checked in the committed Wee/Gen/GenMoves.lean)
GENMOVES = os.path.join(VERIF, "lean", "Wee", "Gen", "GenMoves.lean")
EXTERN_HEADS = [
    "def Board.is_check (self : Board) (color : Color) : Panics Bool := do",
    "def Board.colored_attacks (self : Board) (color : Color) : Panics BitBoard := do",
    "def Board.colored_pawn_attacks (self : Board) (color : Color) : Panics BitBoard := do",
    "def MoveGenerator.compute_legal_moves (state : State) : Panics MoveSet := do",
    "abbrev MoveSet := Array MoveResult",
]

# `pub use evaluate_piece_worths::PIECE_PAWN_WORTHS;` in eval/mod.rs (checked textually, DECLS3)
REEXPORTS = {(EVAL, "PIECE_PAWN_WORTHS"): ("evaluate_piece_worths", "PIECE_PAWN_WORTHS")}
TERM_MODS = ["evaluate_piece_worths", "evaluate_piece_squares", "evaluate_force_king_to_edge", "evaluate_bad_pawns"]

CONTAINERS3 = [
    C(BOARD, [H("impl File")], "File", "File", ["left", "right"]),
    C(EVAL, [H("impl Sub<Evaluation> for Evaluation")], "Evaluation", "Evaluation", ["sub"], complete=True, trait=("sub", "Evaluation")),
    C(EVAL, [H("impl AddAssign<Evaluation> for Evaluation")], "Evaluation", "Evaluation", ["add_assign"], complete=True,
      trait=("add_assign", "Evaluation")),
    C(EVAL, [H("impl SubAssign<Evaluation> for Evaluation")], "Evaluation", "Evaluation", ["sub_assign"], complete=True,
      trait=("sub_assign", "Evaluation")),
    C(EVAL, [H("impl Neg for Evaluation")], "Evaluation", "Evaluation", ["neg"], complete=True),
    C(EVAL, [H("impl Mul<f32> for Evaluation")], "Evaluation", "Evaluation", ["mul"], complete=True, trait=("mul", "f32")),
    C(E_WORTHS, [], None, "evaluate_piece_worths", ["evaluate"], mod="evaluate_piece_worths", complete=True, consts=True,
      only_consts=["PIECE_PAWN_WORTHS"]),
    C(E_SQUARES, [], None, "evaluate_piece_squares", ["evaluate", "evaluate_piece_square"], mod="evaluate_piece_squares",
      complete=True, consts=True, only_consts=["PIECE_SQUARE_MAP"]),
    C(E_PAWNS, [], None, "evaluate_bad_pawns", ["evaluate"], mod="evaluate_bad_pawns", complete=True),
    C(E_KING, [], None, "evaluate_force_king_to_edge", ["evaluate"], mod="evaluate_force_king_to_edge", complete=True),
    C(EVAL, [H("impl From<&State> for StateVariation")], "StateVariation", "StateVariation", ["from"], complete=True,
      trait=("from", "State")),
    C(STATE, [H("impl State")], "State", "State", ["is_check"]),
    C(EVAL, [], None, "eval", [], mod="eval", consts=True, only_consts=["EVALUATORS"]),
    C(EVAL, [H("impl Evaluator")], "Evaluator", "Evaluator", ["estimate", "evaluate"], complete=True,
      skip={"just": "cfg(test) constructor `Self { fns }`"}),
]

# which of the above are attempted (a later target that does not translate is reported, the earlier ones are still written)
FLOAT_TYPES = {"f32"}

PRELUDE3 = r'''
/-! ## Prelude of stage 3b (fixed vocabulary; see the tables at the top of `tools/rs2lean_eval.py`) -/

/-- a FINITE binary32 value is the rational it denotes; the operations are those of `Wee/Model/F32.lean` -/
abbrev f32 := Rat
/-- the finite binary32 value with the bit pattern `b` (sign, 8 exponent bits, 23 mantissa bits) -/
def f32.ofBits (b : UInt32) : f32 :=
  let e : Nat := (b.toNat >>> 23) % 256
  let m : Nat := b.toNat % 2 ^ 23
  let mag : Rat := if e = 0 then (m : Rat) * F32.pow2 (-149) else ((2 ^ 23 + m : Nat) : Rat) * F32.pow2 ((e : Int) - 150)
  if b.toNat >>> 31 = 1 then -mag else mag
/-- `a / b` on f32 with a computed divisor: outside the modelled domain (inf / NaN) when `b = 0` -/
def f32.checked_div (a b : f32) : Panics f32 := if b = 0 then none else some (F32.div a b)
/-- `x as i32` for `x : f32` -/
def f32.to_i32 (x : f32) : Int32 := Int32.ofInt (F32.toI32 x)
/-- `u8::min(a, b)` -/
def u8_min (a b : UInt8) : UInt8 := if a ≤ b then a else b
/-- `Ord::clamp` on `i32`: panics when `lo > hi` -/
def i32_clamp (x lo hi : Int32) : Panics Int32 :=
  if lo ≤ hi then some (if x < lo then lo else if x > hi then hi else x) else none
'''


# ----------------------------------------------------------------------------------------------------
# float literals: exact decimal -> binary32
# ----------------------------------------------------------------------------------------------------
def f32_bits(text):
    """nearest binary32 (ties to even) of the decimal literal `text`, computed exactly; finite values only"""
    q = Fraction(text.replace("_", ""))
    if q < 0:
        fail(f"negative float literal {text}")
    if q == 0:
        bits = 0
    else:
        e = q.numerator.bit_length() - q.denominator.bit_length()
        if Fraction(2) ** e > q:
            e -= 1
        if Fraction(2) ** (e + 1) <= q:
            e += 1
        assert Fraction(2) ** e <= q < Fraction(2) ** (e + 1)
        ee = max(e, -126)
        ulp = Fraction(2) ** (ee - 23)
        n = q / ulp
        f = n.numerator // n.denominator
        r = n - f
        if r > Fraction(1, 2) or (r == Fraction(1, 2) and f % 2 == 1):
            f += 1
        if f >= 2 ** 24:
            f //= 2
            ee += 1
        if ee > 127:
            fail(f"float literal {text} overflows binary32")
        if f < 2 ** 23:
            bits = f                      # subnormal (ee = -126)
        else:
            bits = ((ee + 127) << 23) | (f - 2 ** 23)
    chk = struct.unpack(">I", struct.pack(">f", float(text.replace("_", ""))))[0]
    if chk != bits:
        fail(f"float literal {text}: exact rounding {bits:#x} and struct.pack {chk:#x} disagree (double rounding?)")
    return bits


# ----------------------------------------------------------------------------------------------------
# type helpers (wrap the stage-2 versions)
# ----------------------------------------------------------------------------------------------------
class FTVar(TVar):
    """type of an unsuffixed float literal"""
    def __init__(self):
        super().__init__(False)
        self.floatonly = True

    def __repr__(self):
        return f"?f{self.id}"


EVALFN_TY = "EvaluationFunction"


def lean_ty3(t, atom=False):
    t = prune(t)
    if t == "f32":
        return "f32"
    if t == EVALFN_TY:
        return EVALFN_TY
    if t == "MoveSet":
        return "MoveSet"
    if isinstance(t, tuple) and t[0] == "closure":
        fail("a closure used as a value")
    return _lean_ty2(t, atom)


_lean_ty2 = R2.lean_ty2


def install3():
    """extend the module-level tables of rs2lean / rs2lean2 IN THIS PROCESS (after stages 1 and 2 have run)"""
    global lean_ty2
    R.lean_ty = lean_ty3
    R2.lean_ty2 = lean_ty3
    lean_ty2 = lean_ty3
    R.PRIMS[("u8", "min")] = ("u8_min {0} {1}", ["u8", "u8"], "u8")
    R2.STRUCT_NAMES.update({"StateVariation", "Evaluator"})



def strip_lifetimes(toks):
    """erase `<'a>` / `<'_>` generic argument lists that consist of lifetimes only, and lifetimes after `&`"""
    out = []
    i = 0
    n = len(toks)
    while i < n:
        t = toks[i]
        if t.s == "<" and i + 1 < n and toks[i + 1].k == "life":
            j = i + 1
            ok = True
            while True:
                if toks[j].k != "life":
                    ok = False
                    break
                j += 1
                if toks[j].s == ",":
                    j += 1
                    continue
                break
            if ok and toks[j].s == ">":
                i = j + 1
                continue
        if t.k == "life" and out and out[-1].s == "&":
            i += 1
            continue
        out.append(t)
        i += 1
    return out


def strip_fn_aliases(toks):
    """drop `type X = fn(..);` items (the item scanner of stage 2 would take the `fn` for a function; the alias
    `EvaluationFunction` is checked textually, see DECLS3)"""
    out = []
    i = 0
    while i < len(toks):
        if toks[i].s == "type" and i + 3 < len(toks) and toks[i + 2].s == "=" and toks[i + 3].s == "fn":
            if toks[i + 1].s != EVALFN_TY:
                fail(f"line {toks[i].line}: fn-pointer type alias `{toks[i + 1].s}` is not known")
            j = i
            while toks[j].s != ";":
                j += 1
            i = j + 1
            continue
        out.append(toks[i])
        i += 1
    return out


# ----------------------------------------------------------------------------------------------------
# parser
# ----------------------------------------------------------------------------------------------------
class Parser3(R2.Parser2):
    def pattern(self):
        return super().pattern()

    def let_stmt(self, l2, stmts):
        """`let` statement (the keyword is already eaten)"""
        if self.peek() in ("Some", "Ok") and self.peek(1) == "(":
            pat = self.pattern()
            self.eat("=")
            self.nostruct += 1
            init = self.expr()
            self.nostruct -= 1
            self.eat("else")
            els = self.block()
            self.eat(";")
            stmts.append(N("letelse", l2, pat=pat, init=init, els=els))
            return
        if self.peek() == "(":
            pat = self.pattern()
            if pat[0] != "tuple" or not all(p[0] in ("bind", "wild") for p in pat[1]):
                self.err("`let (..)`: only a flat tuple of identifiers is supported")
            self.eat("=")
            init = self.expr()
            self.eat(";")
            stmts.append(N("lettuple", l2, pat=pat, init=init))
            return
        mut = False
        if self.peek() == "mut":
            self.eat()
            mut = True
        if self.tok().k != "id":
            self.err("unsupported `let` pattern")
        name = self.eat().s
        ann = None
        if self.peek() == ":":
            self.eat()
            ann = self.ty()
        self.eat("=")
        init = self.expr()
        self.eat(";")
        stmts.append(N("let", l2, name=name, mut=mut, ann=ann, init=init))

    def block(self):
        ln = self.line()
        self.eat("{")
        saved, self.nostruct = self.nostruct, 0
        stmts, tail = [], None
        while self.peek() != "}":
            s = self.peek()
            l2 = self.line()
            if s == ";":
                self.eat()
                continue
            if s == "let":
                self.eat()
                self.let_stmt(l2, stmts)
                continue
            if s == "return":
                self.eat()
                e = None
                if self.peek() != ";":
                    e = self.expr()
                self.eat(";")
                stmts.append(N("return", l2, e=e))
                continue
            if s == "break":
                self.eat()
                self.eat(";")
                stmts.append(N("break", l2))
                continue
            if s == "for":
                self.eat()
                pat = self.pattern()
                if not (pat[0] in ("bind", "wild") or (pat[0] == "tuple" and all(p[0] in ("bind", "wild") for p in pat[1]))):
                    self.err("`for` pattern must be an identifier, `_` or a flat tuple of identifiers")
                self.eat("in")
                self.nostruct += 1
                it = self.expr()
                if self.peek() == "..":
                    self.eat()
                    hi = self.expr()
                    it = N("range", l2, lo=it, hi=hi)
                self.nostruct -= 1
                body = self.block()
                stmts.append(N("exprstmt", l2, e=N("for", l2, pat=pat, it=it, body=body)))
                continue
            if s in ("while", "loop", "continue", "unsafe", "const", "static", "fn", "struct", "impl", "use"):
                self.err(f"`{s}` is outside the supported subset")
            if s == "debug_assert" and self.peek(1) == "!":
                self.eat()
                self.eat("!")
                self.eat("(")
                c = self.expr()
                self.eat(")")
                self.eat(";")
                stmts.append(N("dassert", l2, cond=c))
                continue
            if self.tok().k == "id" and self.peek(1) == "!" and self.peek(2) in ("(", "[", "{"):
                self.err(f"macro `{s}!` is outside the supported subset")
            e = self.expr(stmt=True)
            if self.peek() in R.ASSIGN_OPS:
                op = self.eat().s
                rhs = self.expr()
                if self.peek() != "}":          # `{ self.0 += rhs.0 }`: an assignment has type `()`
                    self.eat(";")
                stmts.append(N("assign", l2, place=e, op=op, rhs=rhs))
            elif self.peek() == ";":
                self.eat()
                stmts.append(N("exprstmt", l2, e=e))
            elif e.k in ("if", "iflet", "match", "block") and self.peek() != "}":
                stmts.append(N("exprstmt", l2, e=e))
            else:
                tail = e
                if self.peek() != "}":
                    self.err(f"expected `;` or `}}`, found `{self.peek()}`")
        self.eat("}")
        self.nostruct = saved
        return N("block", ln, stmts=stmts, tail=tail)

    def postfix(self):
        e = self.primary()
        while True:
            s = self.peek()
            ln = self.line()
            if s == "." and e.k == "lit" and self.i + 1 < len(self.t) and self.t[self.i + 1].k == "int":
                # `12.5`: the lexer of stage 1 has no float tokens; `<int> . <int>` can only be a float literal
                if e.suf or not re.fullmatch(r"\d+", e.text):
                    self.err("malformed float literal")
                self.eat()
                frac = self.eat().s
                if not re.fullmatch(r"[\d_]+", frac):
                    self.err(f"float literal with a suffix / exponent (`{e.text}.{frac}`) is outside the supported subset")
                text = f"{e.text}.{frac}"
                e = N("flit", ln, text=text, bits=f32_bits(text))
                continue
            if s == ".":
                self.eat()
                t = self.eat()
                if t.k == "int":
                    e = N("field", ln, e=e, name=t.s)
                elif t.k == "id":
                    if self.peek() == "(":
                        saved, self.nostruct = self.nostruct, 0
                        args = self.args()
                        self.nostruct = saved
                        e = N("mcall", ln, recv=e, name=t.s, args=args)
                    elif self.peek() == "::":
                        self.err("turbofish")
                    else:
                        e = N("field", ln, e=e, name=t.s)
                else:
                    self.err(f"unexpected `{t.s}` after `.`")
            elif s == "(":
                if e.k != "path":
                    self.err("call of a non-path expression")
                saved, self.nostruct = self.nostruct, 0
                args = self.args()
                self.nostruct = saved
                e = N("call", ln, fn=e.segs, args=args)
            elif s == "[":
                self.eat()
                saved, self.nostruct = self.nostruct, 0
                ix = self.expr()
                self.nostruct = saved
                self.eat("]")
                e = N("index", ln, e=e, ix=ix)
            elif s == "?":
                self.eat()
                e = N("try", ln, e=e)
            else:
                return e

    def primary(self):
        t = self.tok()
        ln = t.line
        if t.s == "|":
            self.eat()
            ps = []
            while self.peek() != "|":
                name = self.eat().s
                ty = None
                if self.peek() == ":":
                    self.eat()
                    ty = self.ty()
                ps.append((name, ty))
                if self.peek() == ",":
                    self.eat()
            self.eat("|")
            body = self.expr()
            cl = N("closure", ln, params=[p[0] for p in ps], ptys=[p[1] for p in ps], body=body)
            return cl
        if t.s == "||":
            self.err("closure without parameters")
        return super().primary()


def children3(e):
    k = e.k
    if k == "lettuple":
        return [e.init]
    if k in ("flit", "break"):
        return []
    return _children2(e)


_children2 = R2.children2


class Fn3(R2.Fn2):
    def __init__(self, raw, cont, params, ret, body, lean):
        # a `&mut` parameter named `_` cannot be referred to by the body: it is passed through unchanged
        ps = []
        self.unnamed_mut = []
        for (n, t, m) in params:
            if n == "_" and m == "refmut":
                self.unnamed_mut.append(len(ps))
                m = "ref"
            ps.append((n, t, m))
        super().__init__(raw, cont, ps, ret, body, lean)
        self.stage3 = True
        self.uses_seams = False


class _Shim:
    pass


def is_place(p):
    if p.k == "path" and len(p.segs) == 1:
        return True
    if p.k == "paren" or (p.k == "un" and p.op in ("*", "&")):
        return is_place(p.e)
    if p.k in ("field", "index"):
        return is_place(p.e)
    return False


OPNAME = {"+": "add", "-": "sub", "*": "mul"}
ASSIGN_TRAIT = {"|=": "bitor_assign", "&=": "bitand_assign", "^=": "bitxor_assign", "+=": "add_assign", "-=": "sub_assign"}


# ----------------------------------------------------------------------------------------------------
# translator
# ----------------------------------------------------------------------------------------------------
class Emitter3(R2.Emitter2):
    def __init__(self, repo, t1, t2):
        R.Translator.__init__(self, repo)
        shim = _Shim()
        shim.fns = list(t1.fns) + list(t2.fns)
        shim.const_list = list(t1.const_list) + [(c, None) for c in t2.items if isinstance(c, R2.Const2)]
        self.t1 = shim
        self.src = dict(t2.src)
        self.toks = {}
        self.methods, self.assoc, self.free = dict(t2.methods), dict(t2.assoc), dict(t2.free)
        self.consts = dict(t2.consts)
        for f in shim.fns:
            f.stage2 = False
        for c, _ in shim.const_list:
            c.stage2 = False
        self.items = []
        self.structs = []
        self.key_count = dict(t2.key_count)
        self.square_maps = []
        self.seams_used = []

    # ---- input: lifetimes erased
    def load(self, rel):
        if rel not in self.toks:
            if rel not in self.src:
                p = os.path.join(self.repo, rel)
                try:
                    with open(p) as f:
                        self.src[rel] = f.read()
                except OSError as ex:
                    fail(f"cannot read {rel}: {ex}")
            self.toks[rel] = strip_fn_aliases(strip_lifetimes(R.lex(self.src[rel], rel)))
        return self.toks[rel]

    def check_decls3(self):
        for rel, pat, what in DECLS3 + SEAM_DECLS:
            self.load(rel)
            text = re.sub(r"//[^\n]*", "", self.src[rel])
            if len(re.findall(pat, text)) != 1:
                fail(f"{rel}: declaration `{what}` not found exactly once (a primitive mapping / seam rests on it)")
        for rel in (E_WORTHS, E_SQUARES, E_PAWNS, E_KING, EVAL):
            text = re.sub(r"//[^\n]*", "", self.src[rel])
            if re.search(r"\bf64\b", text):
                fail(f"{rel}: `f64` appears in the file (only f32 arithmetic is modelled)")

    def check_extern_heads(self):
        """the stage-3a definitions called by name exist with the expected heads in the committed GenMoves.lean"""
        try:
            with open(GENMOVES) as f:
                text = f.read()
        except OSError as ex:
            fail(f"cannot read {GENMOVES}: {ex}")
        for head in EXTERN_HEADS:
            if text.count("\n" + head + "\n") != 1:
                fail(f"Wee/Gen/GenMoves.lean: `{head}` not found exactly once (the evaluator calls this stage-3a definition by name)")

    def collect_square_maps(self):
        text = re.sub(r"//[^\n]*", "", self.src[E_SQUARES])
        names = re.findall(r"const (\w+): ArrayMap<Square, i32> = ArrayMap::new\(\[", text)
        if len(set(names)) != len(names) or not names:
            fail(f"{E_SQUARES}: piece-square tables not found / duplicated")
        for m in re.finditer(r"const (\w+): ArrayMap<Square, i32> = ArrayMap::new\(\[(.*?)\]\);", text, re.S):
            body = m.group(2)
            if re.fullmatch(r"\s*0\s*;\s*64\s*", body):
                continue
            n = len([x for x in body.split(",") if x.strip()])
            if n != 64:
                fail(f"{E_SQUARES}: table {m.group(1)} has {n} entries, expected 64")
        self.square_maps = names
        for nm in names:
            R2.PRIM_STATICS[("evaluate_piece_squares", nm)] = (f"evaluate_piece_squares.{nm}",
                                                               ("ArrayMap", ("tuple", ("Square", "i32"))))

    # ---- unification with float literals
    def unify(self, a, b, e):
        a, b = prune(a), prune(b)
        if a is b or a == b:
            return
        fa, fb = isinstance(a, FTVar), isinstance(b, FTVar)
        if fa or fb:
            x, y = (a, b) if fa else (b, a)        # x is the float variable
            if isinstance(y, FTVar):
                x.ref = y
                return
            if isinstance(y, TVar):
                if y.intonly:
                    fail(f"{self.cur.file}:{e.line}: float literal used where an integer is expected")
                y.ref = x
                return
            if y not in FLOAT_TYPES:
                fail(f"{self.cur.file}:{e.line}: float literal used at type {show_ty2(y)}")
            x.ref = y
            return
        return super().unify(a, b, e)

    # ---- calls
    def call_fn(self, e, fn, args, env, recv=None, typed=()):
        if fn.mutparam == "self" and recv is not None and not is_place(recv):
            # `&mut self` method on a temporary: the new value of the temporary is dropped
            params = list(fn.params)
            actual = [recv] + list(args)
            if len(actual) != len(params):
                self.err(e, f"call of {fn.lean}: {len(actual)} arguments for {len(params)} parameters")
            for a, (pn, pt, pm) in zip(actual, params):
                if a is recv or any(a is t for t in typed):
                    self.unify(a.ty, pt, e)
                else:
                    self.infer(a, env, pt)
            if prune(fn.ret) == "unit":
                self.err(e, f"call of {fn.lean} on a temporary has no effect")
            e.target, e.actual, e.mut_var, e.mut_place, e.tempmut = fn, actual, None, None, True
            self.cur.callees.append(fn)
            self.callsites.append((self.cur, fn, e))
            return fn.ret
        return super().call_fn(e, fn, args, env, recv=recv, typed=typed)

    def seam(self, e, key, recv, args, env):
        field, ptys, rty, panics = SEAMS[key]
        if len(args) != len(ptys):
            self.err(e, f"extern {field}: arity")
        for a, pt in zip(args, ptys):
            self.infer(a, env, pt)
        e.kind2 = "seam"
        e.seam = (field, ([recv] if recv is not None else []) + list(args), panics)
        if key not in self.seams_used:
            self.seams_used.append(key)
        return rty

    def method_call(self, e, rt, env):
        n = e.name
        if isinstance(rt, TVar):
            self.err(e, f"method `{n}` on a value of undetermined type")
        if ("method", rt, n) in SEAMS and (rt, n) not in self.methods:
            return self.seam(e, ("method", rt, n), e.recv, e.args, env)
        if isinstance(rt, tuple) and rt[0] == "ArrayMap" and n == "index" and len(e.args) == 1:
            self.infer(e.args[0], env, "u8")
            e.kind2 = "amindex_raw"
            return rt[1][1][1]
        if isinstance(rt, tuple) and rt[0] == "Option" and n == "unwrap_or_default" and not e.args:
            if prune(rt[1]) != "BitBoard":
                self.err(e, f"`unwrap_or_default` on Option<{show_ty2(rt[1])}>: only BitBoard (derive(Default) checked) is supported")
            e.kind2 = "prim"
            e.prim = ("Option.getD {0} (0 : UInt64)", [e.recv])
            return "BitBoard"
        if rt in R.ORD_NEWTYPES and R.under(rt) == "i32" and n == "clamp" and len(e.args) == 2:
            self.infer(e.args[0], env, rt)
            self.infer(e.args[1], env, rt)
            e.kind2 = "clamp"
            return rt
        if rt == "MoveSet" and n == "is_empty" and not e.args:
            e.kind2 = "prim"                             # `self.0.is_empty()` on `MoveSet(Vec<MoveResult>)` (checked textually)
            e.prim = ("Array.isEmpty {0}", [e.recv])
            return "bool"
        if rt == "StateVariation" and (rt, n) not in self.methods:
            # `impl Deref for StateVariation { Target = State; self.state }` (checked textually)
            inner = N("field", e.line, e=e.recv, name="state")
            e.recv = inner
            rt2 = prune(self.infer(inner, env))
            return self.method_call(e, rt2, env)
        return super().method_call(e, rt, env)

    def newtype_op(self, e, lt, op, env):
        """`l op r` with `l` of a newtype: the unique translated trait impl"""
        rt = prune(self.infer(e.r, env))
        nm = OPNAME[op]
        if isinstance(rt, TVar):
            want_float = isinstance(rt, FTVar)
            cands = sorted({key[2] for key in self.methods if len(key) == 3 and key[0] == lt and key[1] == nm
                            and isinstance(key[2], str) and
                            ((key[2] in FLOAT_TYPES) if want_float else (key[2] in R.INT_TYPES and rt.intonly))})
            if len(cands) != 1:
                self.err(e, f"operator `{op}` on ({show_ty2(lt)}, literal): no unique translated trait impl ({cands})")
            self.unify(rt, cands[0], e)
            rt = cands[0]
        fn = self.methods.get((lt, nm, rt))
        if not fn:
            self.err(e, f"operator `{op}` on ({show_ty2(lt)}, {show_ty2(rt)}): no translated trait impl")
        e.kind2 = "fn"
        e.recv = e.l
        return self.call_fn(e, fn, [e.r], env, recv=e.l, typed=(e.r,))

    def _infer(self, e, env, exp):
        k = e.k
        if k == "flit":
            return FTVar()
        if k == "path" and len(e.segs) == 1 and e.segs[0] not in env and (self.cur.file, e.segs[0]) in REEXPORTS:
            c = self.consts.get(REEXPORTS[(self.cur.file, e.segs[0])])
            if c is None:
                self.err(e, f"re-exported constant `{e.segs[0]}` is not translated")
            return self.ref_const(e, c)
        if k == "closure":
            self.err(e, "a closure is supported only as the initialiser of a `let` or as the argument of `Option::map`")
        if k == "path" and len(e.segs) == 2 and (e.segs[0], e.segs[1]) in self.free and e.segs[0] in TERM_MODS:
            fn = self.free[(e.segs[0], e.segs[1])]
            shape = [(prune(t), m) for (_, t, m) in fn.params]
            if shape != [("StateVariation", "ref"), ("Color", "ref"), ("Evaluation", "refmut"), ("bool", "ref")] \
                    or fn.unnamed_mut != [3] or prune(fn.ret) != "unit":
                self.err(e, f"{fn.lean} used as a function value: its signature is not that of `EvaluationFunction`")
            e.ref = ("fnval", fn)
            self.cur.callees.append(fn)
            return EVALFN_TY
        if k == "call":
            segs = [self.resolve_self(s) if i == 0 else s for i, s in enumerate(e.fn)]
            if len(segs) == 1 and segs[0] in env:
                vt = prune(env[segs[0]])
                if isinstance(vt, tuple) and vt[0] == "closure":
                    cl = vt[1]
                    if len(e.args) != len(cl.params):
                        self.err(e, "closure call: arity")
                    for a, pt in zip(e.args, cl.ptys):
                        self.infer(a, env, pt)
                    e.kind2 = "closurecall"
                    e.closure = cl
                    e.cname = segs[0]
                    return cl.body.ty
                if vt == EVALFN_TY:
                    if len(e.args) != 4:
                        self.err(e, "call of an EvaluationFunction: arity")
                    self.infer(e.args[0], env, "StateVariation")
                    self.infer(e.args[1], env, "Color")
                    mv = []
                    for a, want in ((e.args[2], "Evaluation"), (e.args[3], "bool")):
                        if not (a.k == "un" and a.op == "&" and a.e.k == "path" and len(a.e.segs) == 1 and a.e.segs[0] in env):
                            self.err(e, "call of an EvaluationFunction: the `&mut` arguments must be local variables")
                        self.infer(a, env, want)
                        mv.append(a.e.segs[0])
                    if mv[0] == mv[1]:
                        self.err(e, "aliasing `&mut` arguments")
                    e.kind2 = "fnptr"
                    e.fvar = segs[0]
                    e.mut_vars = mv
                    e.mut_tys = ["Evaluation", "bool"]
                    return "unit"
            if segs == ["ArrayMap", "default"] and not e.args:
                pe = prune(exp) if exp is not None else None
                if isinstance(pe, tuple) and pe[0] == "ArrayMap":
                    kt, vt = pe[1][1]
                else:
                    kt, vt = TVar(), TVar()
                e.kind2 = "amdefault"
                e.keyty, e.valty = kt, vt
                return ("ArrayMap", ("tuple", (kt, vt)))
            if len(segs) == 2 and ("assoc", segs[0], segs[1]) in SEAMS:
                return self.seam(e, ("assoc", segs[0], segs[1]), None, e.args, env)
            if len(segs) == 2 and (segs[0], segs[1]) in self.free:
                fn = self.free[(segs[0], segs[1])]
                e.kind2 = "fn"
                return self.call_fn(e, fn, e.args, env)
            if len(segs) == 2 and segs[1] == "from" and len(e.args) == 1 and (segs[0] in R.NEWTYPES or segs[0] in R.ENUMS):
                at = prune(self.infer(e.args[0], env))
                if at == prune(segs[0]) or at == segs[0]:
                    e.kind2 = "prim"                     # impl<T> From<T> for T
                    e.prim = ("{0}", [e.args[0]])
                    return segs[0]
            return super()._infer(e, env, exp)
        if k == "un" and e.op == "-":
            t = prune(self.infer(e.e, env, exp))
            if isinstance(t, str) and t in R.NEWTYPES:
                fn = self.methods.get((t, "neg"))
                if not fn:
                    self.err(e, f"unary `-` on {show_ty2(t)}: no translated `impl Neg`")
                e.kind2 = "fn"
                self.call_fn(e, fn, [], env, recv=e.e)
                return fn.ret
            if t in FLOAT_TYPES or isinstance(t, FTVar):
                self.err(e, "unary `-` on a float is outside the supported subset")
            if (t in R.INT_TYPES and R.INT_TYPES[t][2]) or (isinstance(t, TVar) and t.intonly):
                return t
            self.err(e, "unary `-` on a non-signed value")
        if k == "bin" and e.op in ("+", "-", "*", "/"):
            lt = prune(self.infer(e.l, env))
            if isinstance(lt, str) and lt in R.NEWTYPES and e.op != "/":
                return self.newtype_op(e, lt, e.op, env)
            if lt in FLOAT_TYPES or isinstance(lt, FTVar):
                self.infer(e.r, env, lt)
                if exp is not None:
                    self.unify(lt, exp, e)
                e.floatop = True
                return lt
            if isinstance(lt, TVar) and e.op != "/":
                # e.g. `10 * x`: let the right operand decide
                rt = prune(self.infer(e.r, env))
                self.unify(lt, rt, e)
                if exp is not None:
                    self.unify(lt, exp, e)
                if prune(lt) in FLOAT_TYPES or isinstance(prune(lt), FTVar):
                    e.floatop = True
                return lt
            if e.op == "/":
                self.err(e, "`/` on integers is supported by stage 1 only for literal divisors; not used here")
            if exp is not None:
                self.unify(lt, exp, e)
            self.infer(e.r, env, lt)
            return lt
        if k == "bin" and e.op in ("<", ">", "<=", ">="):
            lt = self.infer(e.l, env)
            self.infer(e.r, env, lt)
            pl = prune(lt)
            if not (pl in R.INT_TYPES or pl in R.ORD_NEWTYPES or isinstance(pl, TVar) or pl in FLOAT_TYPES):
                self.err(e, f"ordering comparison on {show_ty2(pl)} (no derive(PartialOrd) known)")
            return "bool"
        if k == "cast":
            st = prune(self.infer(e.e, env))
            t = prune(e.to)
            if t in FLOAT_TYPES:
                if st in FLOAT_TYPES or isinstance(st, FTVar):
                    self.err(e, "float-to-float cast is outside the supported subset")
                if not (isinstance(st, str) and st in R.INT_TYPES):
                    self.err(e, f"cast from {show_ty2(st)} to {t} not supported")
                e.castk = "i2f"
                return t
            if st in FLOAT_TYPES or isinstance(st, FTVar):
                if t != "i32":
                    self.err(e, f"cast from a float to {show_ty2(t)} not supported (only `as i32`)")
                self.unify(st, "f32", e)
                e.castk = "f2i"
                return t
            if t not in R.INT_TYPES:
                self.err(e, f"cast to {show_ty2(t)} not supported")
            if st in ("Color", "Piece"):
                e.enumcast = st
            elif not (st in R.INT_TYPES or isinstance(st, TVar)):
                self.err(e, f"cast from {show_ty2(st)} not supported")
            return t
        if k == "for":
            r = self.infer_for(e, env)
            return r
        return super()._infer(e, env, exp)

    def infer_for(self, e, env):
        it = e.it
        if it.k == "range":
            self.err(e, "range loops are not used by the evaluator")
        tt = prune(self.infer(it, env))
        if isinstance(tt, tuple) and tt[0] in ("slice", "array"):
            e.itkind, e.item_ty = tt[0], tt[1]
        elif tt in R2.ITERATORS:
            nm, fuel, item = R2.ITERATORS[tt]
            nfn = self.methods.get((tt, nm))
            if not nfn:
                self.err(e, f"iterator {tt}: `{nm}` is not translated")
            e.itkind, e.item_ty, e.iter_next, e.iter_fuel = "iter", item, nfn, fuel
            self.cur.callees.append(nfn)
        else:
            self.err(e, f"`for` over {show_ty2(tt)} is outside the supported subset")
        env2 = dict(env)
        if e.pat[0] == "bind":
            env2[e.pat[1]] = e.item_ty
        elif e.pat[0] == "tuple":
            self.bind_pat(e.pat, e.item_ty, env2, e)
        # `break`: only as `if c { break; }` closing the loop body
        body = e.body
        e.break_cond = None
        breaks = [x for x in R.walk(body) if x.k == "break"]
        if breaks:
            last = body.stmts[-1] if body.stmts and body.tail is None else None
            if body.tail is not None and body.tail.k == "if":
                last = N("exprstmt", body.tail.line, e=body.tail)
                body.stmts.append(last)
                body.tail = None
            ok = (len(breaks) == 1 and last is not None and last.k == "exprstmt" and last.e.k == "if" and last.e.el is None
                  and len(last.e.th.stmts) == 1 and last.e.th.tail is None and last.e.th.stmts[0] is breaks[0])
            if not ok:
                self.err(e, "`break` is supported only as `if c { break; }` closing the body of a `for`")
            body.stmts.pop()
            e.break_cond = last.e.c
            e.break_env = None
        self.infer_block(e.body, env2, "unit")
        if e.break_cond is not None:
            self.infer(e.break_cond, e.body.env_out, "bool")
        return "unit"

    def infer_block(self, b, env, exp):
        env = dict(env)
        for s in b.stmts:
            if s.k == "let" and s.init.k == "closure":
                cl = s.init
                if s.ann is not None or s.mut:
                    self.err(s, "annotated / mutable closure binding")
                if any(t is None for t in cl.ptys):
                    self.err(s, "closure parameters must be typed")
                for x in R.walk(cl.body):
                    if x.k in ("assign", "return", "try", "break", "for", "letelse") or \
                            (x.k in ("call", "mcall") and getattr(x, "mut_var", None)):
                        self.err(s, "closure body with an effect / early exit")
                env2 = dict(env)
                for pn, pt in zip(cl.params, cl.ptys):
                    env2[pn] = pt
                cl.captured_env = dict(env)
                cl.body.env_here = dict(env2)
                self.infer(cl.body, env2)
                for x in R.walk(cl.body):
                    if x.k in ("call", "mcall") and getattr(x, "mut_var", None):
                        self.err(s, "closure body with an effect")
                cl.ty = ("closure", cl)
                env[s.name] = ("closure", cl)
                s.vty = None
                s.is_closure = True
            elif s.k == "let":
                t = self.infer(s.init, env, s.ann)
                if s.ann is not None:
                    t = s.ann
                env[s.name] = t
                s.vty = t
            elif s.k == "lettuple":
                t = self.infer(s.init, env)
                self.bind_pat(s.pat, t, env, s)
                s.tty = t
                s.vtys = {v: env[v] for v in pat_vars(s.pat)}
            elif s.k == "letelse":
                t = self.infer(s.init, env)
                self.infer_block(s.els, env, "unit")
                self.bind_pat(s.pat, t, env, s)
                s.vtys = {v: env[v] for v in pat_vars(s.pat)}
            elif s.k == "assign":
                v = self.place_var(s.place)
                if v not in env:
                    self.err(s, f"assignment to `{v}` which is not a local")
                s.var, s.vty = v, env[v]
                if s.op in ("<<=", ">>=", "/=", "%=", "*="):
                    self.err(s, f"`{s.op}` not supported")
                pt = self.infer(s.place, env)
                s.pty = pt
                ppt = prune(pt)
                if ppt in FLOAT_TYPES or isinstance(ppt, FTVar):
                    self.err(s, "assignment operators on floats are outside the supported subset")
                if s.op != "=" and not (ppt in R.INT_TYPES or ppt == "bool" or isinstance(ppt, TVar)):
                    nm = ASSIGN_TRAIT.get(s.op)
                    fn = None
                    if nm:
                        fn = self.methods.get((ppt, nm))
                        if fn is None:
                            cands = [f for key, f in self.methods.items() if len(key) == 3 and key[0] == ppt and key[1] == nm]
                            if len(cands) == 1:
                                fn = cands[0]
                    if not fn:
                        self.err(s, f"`{s.op}` on {show_ty2(ppt)}: no (unique) translated trait impl")
                    self.infer(s.rhs, env, fn.params[1][1])
                    s.opfn = fn
                    self.cur.callees.append(fn)
                else:
                    self.infer(s.rhs, env, pt)
            elif s.k == "exprstmt":
                s.e.env_here = dict(env)
                t = prune(self.infer(s.e, env))
                ok = (s.e.k in ("call", "mcall") and getattr(s.e, "mut_var", None)) or \
                    s.e.k in ("if", "iflet", "match", "for") or getattr(s.e, "kind2", None) == "fnptr"
                if not ok:
                    self.err(s, "expression statement without a supported effect")
                if s.e.k in ("if", "iflet", "match"):
                    self.unify(t, "unit", s)
            elif s.k == "dassert":
                self.infer(s.cond, env, "bool")
            elif s.k == "return":
                if s.e is not None:
                    self.infer(s.e, env, self.cur.ret)
                elif prune(self.cur.ret) != "unit":
                    self.err(s, "`return;` in a function with a result")
            elif s.k == "break":
                self.err(s, "`break` is supported only as `if c { break; }` closing the body of a `for`")
            else:
                self.err(s, "statement kind")
        diverges = bool(b.stmts) and b.stmts[-1].k == "return"
        if b.tail is not None:
            b.tail.env_here = dict(env)
            t = self.infer(b.tail, env, exp)
            if prune(t) == "unit" and (b.tail.k in ("if", "iflet", "match", "for") or getattr(b.tail, "mut_var", None)
                                       or getattr(b.tail, "kind2", None) == "fnptr"):
                b.stmts.append(N("exprstmt", b.tail.line, e=b.tail))
                b.tail = None
        elif diverges:
            t = exp if exp is not None else TVar()
        else:
            t = "unit"
        b.ty = t
        b.env_out = env
        return t

    def zonk(self, root):
        for e in R.walk(root):
            for attr in ("ty", "vty", "mut_ty", "pty", "item_ty", "keyty", "valty", "tty"):
                if hasattr(e, attr) and getattr(e, attr) is not None:
                    t0 = getattr(e, attr)
                    if isinstance(t0, tuple) and t0[0] == "closure":
                        continue
                    t = prune(t0)
                    if isinstance(t, tuple) and t[0] == "closure":
                        continue
                    if R2.has_tvar2(t):
                        fail(f"{self.cur.file}:{e.line}: in {self.cur.name}: type of an expression is not determined "
                             f"(Rust would default an integer literal to i32 and a float literal to f64: outside the supported subset)")
                    setattr(e, attr, t)
            if hasattr(e, "vtys"):
                e.vtys = {v: prune(t) for v, t in e.vtys.items()}

    # ------------------------------------------------------------------------------------------------
    # effects
    # ------------------------------------------------------------------------------------------------
    def is_float(self, t):
        return prune(t) in FLOAT_TYPES

    def node_panics(self, e):
        k = e.k
        if k == "flit" or k == "break":
            return False
        if k == "lettuple":
            return False
        if k == "bin" and getattr(e, "floatop", False):
            if e.op == "/":
                return not self.nonzero_flit(e.r)
            return False
        if k == "cast" and getattr(e, "castk", None):
            return False
        if k in ("call", "mcall") and getattr(e, "kind2", None) == "seam":
            return e.seam[2]
        if k == "mcall" and getattr(e, "kind2", None) in ("amindex_raw", "clamp"):
            return True
        if k == "call" and getattr(e, "kind2", None) == "closurecall":
            return self.panics(e.closure.body)
        if k == "call" and getattr(e, "kind2", None) == "fnptr":
            return True
        if k == "call" and getattr(e, "kind2", None) == "amdefault":
            return False
        if k == "path" and getattr(e, "ref", (None,))[0] == "fnval":
            return False
        if k == "for":
            if e.itkind == "iter":
                return True
            return False
        if k == "assign" and getattr(e, "opfn", None) is not None and not R2.place_has_index(e.place):
            return e.opfn.may_panic
        return super().node_panics(e)

    @staticmethod
    def nonzero_flit(d):
        while d.k == "paren":
            d = d.e
        return d.k == "flit" and (d.bits & 0x7FFFFFFF) != 0

    # ------------------------------------------------------------------------------------------------
    # expressions
    # ------------------------------------------------------------------------------------------------
    def int_to_f32(self, st, x):
        nm, w, signed = R.INT_TYPES[prune(st)]
        if signed:
            return f"F32.ofInt ({nm}.toInt {self.par(x)})"
        return f"F32.ofInt (Int.ofNat ({nm}.toNat {self.par(x)}))"

    def fnval(self, fn):
        """a translated evaluator term used as an `EvaluationFunction`: its unnamed `&mut bool` is passed through"""
        call = f"{fn.lean} v perspective eval stop"
        if fn.may_panic:
            return f"(fun v perspective eval stop => do let eval ← {call}; pure (eval, stop))"
        return f"(fun v perspective eval stop => pure ({call}, stop))"

    def ex(self, e, out, ind):
        k = e.k
        P = self.par
        self.cur_node = e
        if k == "flit":
            return f"(f32.ofBits 0x{e.bits:08x} /- {e.text} -/)"
        if k == "path" and getattr(e, "ref", (None,))[0] == "fnval":
            return self.fnval(e.ref[1])
        if k == "path" and getattr(e, "ref", (None,))[0] == "local" and isinstance(e.ty, tuple) and e.ty[0] == "closure":
            self.err(e, "a closure used as a value")
        if k == "bin" and getattr(e, "floatop", False):
            a = self.ex(e.l, out, ind)
            b = self.ex(e.r, out, ind)
            if e.op == "/":
                if self.nonzero_flit(e.r):
                    return f"F32.div {P(a)} {P(b)}"
                return self.bind(out, ind, e.ty, f"f32.checked_div {P(a)} {P(b)}")
            nm = {"+": "add", "-": "sub", "*": "mul"}[e.op]
            return f"F32.{nm} {P(a)} {P(b)}"
        if k == "cast" and getattr(e, "castk", None) == "i2f":
            return self.int_to_f32(e.e.ty, self.ex(e.e, out, ind))
        if k == "cast" and getattr(e, "castk", None) == "f2i":
            return f"f32.to_i32 {P(self.ex(e.e, out, ind))}"
        if k in ("call", "mcall") and getattr(e, "kind2", None) == "seam":
            field, args, panics = e.seam
            t = " ".join([field] + [P(self.ex(a, out, ind)) for a in args])
            return self.bind(out, ind, e.ty, t) if panics else t
        if k == "mcall" and getattr(e, "kind2", None) == "amindex_raw":
            a = self.ex(e.recv, out, ind)
            i = self.ex(e.args[0], out, ind)
            return self.bind(out, ind, e.ty, f"ArrayMap.index {P(a)} (UInt8.toUInt64 {P(i)})")
        if k == "mcall" and getattr(e, "kind2", None) == "clamp":
            x = self.ex(e.recv, out, ind)
            lo = self.ex(e.args[0], out, ind)
            hi = self.ex(e.args[1], out, ind)
            return self.bind(out, ind, e.ty, f"i32_clamp {P(x)} {P(lo)} {P(hi)}")
        if k == "call" and getattr(e, "kind2", None) == "closurecall":
            args = [P(self.ex(a, out, ind)) for a in e.args]
            t = " ".join([mangle(e.cname)] + args)
            return self.bind(out, ind, e.ty, t) if self.panics(e.closure.body) else t
        if k == "call" and getattr(e, "kind2", None) == "amdefault":
            kt, vt = prune(e.keyty), prune(e.valty)
            if kt not in self.key_count:
                self.err(e, f"ArrayMap::default(): `impl ArrayKey for {show_ty2(kt)}` (COUNT) not found")
            if vt != "u8":
                self.err(e, f"ArrayMap::default() with values of type {show_ty2(vt)}: only u8 (default 0) is supported")
            return f"Array.replicate {self.key_count[kt]} (0 : UInt8)"
        if k == "call" and getattr(e, "kind2", None) == "fnptr":
            self.err(e, "call of an EvaluationFunction in expression position")
        if k in ("call", "mcall") and getattr(e, "tempmut", False):
            fn = e.target
            args = [P(self.ex(a, out, ind)) for a in e.actual]
            t = " ".join([fn.lean] + args)
            pair = ("tuple", (fn.ret, fn.mut_ty()))
            if fn.may_panic:
                v = self.bind(out, ind, pair, t)
                return f"Prod.fst {v}"
            return f"Prod.fst {P(t)}"
        return super().ex(e, out, ind)

    # ------------------------------------------------------------------------------------------------
    # statements
    # ------------------------------------------------------------------------------------------------
    def assigned_vars(self, b, acc, local):
        local = set(local)
        for s in b.stmts:
            if s.k == "let":
                if s.init.k == "block":          # `let x = { stmts; e };` is inlined: its statements may assign outer variables
                    self.assigned_vars(s.init, acc, local)
                local.add(s.name)
            elif s.k in ("letelse", "lettuple"):
                if s.k == "lettuple" and s.init.k == "block":
                    self.assigned_vars(s.init, acc, local)
                for v in pat_vars(s.pat):
                    local.add(v)
            elif s.k == "assign":
                if s.var not in local and s.var not in acc:
                    acc.append(s.var)
            elif s.k == "exprstmt":
                self.assigned_in_expr(s.e, acc, local)
        if b.tail is not None:
            self.assigned_in_expr(b.tail, acc, local)
        return acc

    def assigned_in_expr(self, e, acc, local):
        if e.k == "call" and getattr(e, "kind2", None) == "fnptr":
            for v in e.mut_vars:
                if v not in local and v not in acc:
                    acc.append(v)
            return
        if e.k == "for":
            l2 = set(local) | set(pat_vars(e.pat))
            self.assigned_vars(e.body, acc, l2)
            return
        return super().assigned_in_expr(e, acc, local)

    def emit_for(self, e, b, out, ind, mon):
        if R2.contains_return(e.body):
            self.err(e, "`return` / `?` inside a loop body is outside the supported subset")
        vs = []
        self.assigned_vars(e.body, vs, pat_vars(e.pat))
        if not vs:
            self.err(e, "loop without an effect on a local variable")
        tys = self.var_types(e, vs)
        m = out if mon else None
        brk = e.break_cond is not None
        if e.itkind == "slice":
            items = self.par(self.ex(e.it, m, ind))
        elif e.itkind == "array":
            items = f"(Array.toList {self.par(self.ex(e.it, m, ind))})"
        else:
            x = self.ex(e.it, m, ind)
            if m is None:
                fail("internal: pure context")
            t = self.fresh()
            out.append(f"{ind}let {t} : List {lean_ty3(e.item_ty, True)} ← iter_collect {e.iter_next.lean} {e.iter_fuel} {self.par(x)}")
            items = t
        bmon = self.panics(e.body) or (brk and self.panics(e.break_cond))
        if bmon and not mon:
            fail("internal: pure context")
        svars = list(vs) + (["loop_break"] if brk else [])
        stys = list(tys) + (["bool"] if brk else [])
        sty = self.tuple_ty(stys)
        single = len(svars) == 1
        sname = mangle(svars[0]) if single else "loop_state"
        tuple_pat = e.pat[0] == "tuple"
        xname = mangle(e.pat[1]) if e.pat[0] == "bind" else ("loop_item" if tuple_pat else "_")
        fold = "List.foldlM" if bmon else "List.foldl"
        arrow = "←" if bmon else ":="
        outname = sname if single else self.fresh()
        out.append(f"{ind}let {outname} : {sty} {arrow} {fold} (fun ({sname} : {sty}) ({xname} : {lean_ty3(e.item_ty)}) =>{' do' if bmon else ''}")
        ind2 = ind + "    "
        if not single:
            for i, (v, ty) in enumerate(zip(svars, stys)):
                out.append(f"{ind2}let {mangle(v)} : {lean_ty3(ty)} := {self.proj('loop_state', i, len(svars))}")
        if tuple_pat:
            its = prune(e.item_ty)[1]
            for i, (q, ty) in enumerate(zip(e.pat[1], its)):
                if q[0] == "bind":
                    out.append(f"{ind2}let {mangle(q[1])} : {lean_ty3(ty)} := {self.proj('loop_item', i, len(its))}")
        if brk:
            if not bmon:
                self.err(e, "`break` in a loop whose body cannot panic (not needed by the evaluator)")
            out.append(f"{ind2}if loop_break then pure {sname} else do")
            ind2 += "  "
            cond = N("let", e.line, name="loop_break", mut=False, ann=None, init=e.break_cond)
            cond.vty = "bool"
            stmts = list(e.body.stmts) + [cond]
            self.emit_seq(e.body, stmts, None, out, ind2, bmon, ("vars", svars))
        else:
            self.emit_block(e.body, out, ind2, bmon, ("vars", vs))
        init = self.tuple_term(vs) if not brk else "(" + ", ".join([mangle(v) for v in vs] + ["false"]) + ")"
        out[-1] = out[-1] + f") {init} {items}"
        if not single:
            for i, (v, ty) in enumerate(zip(vs, tys)):
                out.append(f"{ind}let {mangle(v)} : {lean_ty3(ty)} := {self.proj(outname, i, len(svars))}")

    def emit_closure_let(self, s, out, ind, mon):
        cl = s.init
        bmon = self.panics(cl.body)
        if bmon and not mon:
            fail("internal: pure context")
        ps = " ".join(f"({mangle(n)} : {lean_ty3(t)})" for n, t in zip(cl.params, cl.ptys))
        pts = " → ".join(lean_ty3(t, True) for t in cl.ptys)
        rty = lean_ty3(cl.body.ty, True)
        fty = f"{pts} → {'Panics ' + rty if bmon else rty}"
        out.append(f"{ind}let {mangle(s.name)} : {fty} := fun {ps} =>{' do' if bmon else ''}")
        body = cl.body
        if body.k != "block":
            body = N("block", cl.line, stmts=[], tail=cl.body)
        saved = self.cur
        self.emit_seq(body, list(body.stmts), body.tail, out, ind + "    ", bmon, ("value",))

    def emit_seq(self, b, stmts, tail, out, ind, mon, result):
        m = out if mon else None
        for idx, s in enumerate(stmts):
            rest = stmts[idx + 1:]
            self.cur_node = s
            new_kind = (s.k == "lettuple" or (s.k == "let" and getattr(s, "is_closure", False))
                        or (s.k == "exprstmt" and getattr(s.e, "kind2", None) == "fnptr"))
            if not new_kind:
                continue
            # everything before the first statement of a stage-3 kind is emitted by stage 2 (ending in a marker line)
            marker = "\0MARK"
            pre = []
            if idx:
                mk = N("marker", s.line)
                self.emit_seq2(b, stmts[:idx], mk, pre, ind, mon, result)
                assert pre[-1].endswith(marker), pre[-1]
                pre.pop()
                out.extend(pre)
            if s.k == "let" and s.init.k == "block":
                blk = s.init
                if blk.tail is None:
                    self.err(s, "block expression without a value")
                self.check_scope(blk, rest, tail, "block expression", allow={s.name})
                s2 = N("let", s.line, name=s.name, mut=s.mut, ann=s.ann, init=blk.tail)
                s2.vty = s.vty
                self.emit_seq(b, list(blk.stmts) + [s2] + rest, tail, out, ind, mon, result)
                return
            if s.k == "lettuple":
                vsn = pat_vars(s.pat)
                if s.init.k == "block":
                    blk = s.init
                    if blk.tail is None:
                        self.err(s, "block expression without a value")
                    self.check_scope(blk, rest, tail, "block expression", allow=set(vsn))
                    s2 = N("lettuple", s.line, pat=s.pat, init=blk.tail)
                    s2.tty, s2.vtys = s.tty, s.vtys
                    self.emit_seq(b, list(blk.stmts) + [s2] + rest, tail, out, ind, mon, result)
                    return
                x = self.ex(s.init, m, ind)
                t = self.fresh()
                tys = prune(s.tty)[1]
                out.append(f"{ind}let {t} : {lean_ty3(s.tty)} := {x}")
                for i, (q, ty) in enumerate(zip(s.pat[1], tys)):
                    if q[0] == "bind":
                        out.append(f"{ind}let {mangle(q[1])} : {lean_ty3(ty)} := {self.proj(t, i, len(tys))}")
            elif s.k == "let":
                self.emit_closure_let(s, out, ind, mon)
            else:
                e = s.e
                if m is None:
                    fail("internal: pure context")
                a0 = self.par(self.ex(e.args[0], m, ind))
                a1 = self.par(self.ex(e.args[1], m, ind))
                v0, v1 = mangle(e.mut_vars[0]), mangle(e.mut_vars[1])
                t = self.fresh()
                out.append(f"{ind}let {t} : (Evaluation × Bool) ← {mangle(e.fvar)} {a0} {a1} {v0} {v1}")
                out.append(f"{ind}let {v0} : Evaluation := {t}.1")
                out.append(f"{ind}let {v1} : Bool := {t}.2")
            self.emit_seq(b, rest, tail, out, ind, mon, result)
            return
        self.emit_seq2(b, stmts, tail, out, ind, mon, result)

    def emit_seq2(self, b, stmts, tail, out, ind, mon, result):
        """stage 2's statement emitter; a `marker` tail yields a marker line instead of the block's value"""
        if tail is not None and tail.k == "marker":
            # emit the statements, then a marker (stage 2 would complain about a block without value)
            if any(s.k in ("return", "letelse") or (s.k == "let" and s.init.k == "try") for s in stmts) or \
                    any(s.k == "exprstmt" and s.e.k in ("if", "iflet", "match") and R2.contains_return(s.e) for s in stmts):
                self.err(stmts[0], "early exit before a stage-3 statement kind in the same block (not supported)")
            R2.Emitter2.emit_seq(self, b, stmts, None, out, ind, mon, ("vars", ["\0MARK"]))
            out[-1] = out[-1].replace("pure ", "")
            return
        R2.Emitter2.emit_seq(self, b, stmts, tail, out, ind, mon, result)

    # ------------------------------------------------------------------------------------------------
    # items
    # ------------------------------------------------------------------------------------------------
    def emit_fn(self, fn):
        names = [p[0] for p in fn.params]
        for e in R.walk(fn.body):
            if e.k == "let":
                names.append(e.name)
            elif e.k == "closure":
                names += list(e.params)
            elif e.k in ("letelse", "lettuple", "for"):
                names += pat_vars(e.pat)
        for nm in names:
            if nm in ("loop_break", "loop_item", "loop_state"):
                fail(f"{fn.file}: identifier {nm} clashes with generated names")
        return R2.Emitter2.emit_fn(self, fn)

    def run3(self):
        self.check_decls3()
        saved = (R2.STRUCT_DECLS, R2.CONTAINERS2, R2.Parser2, R2.Fn2)
        try:
            R2.STRUCT_DECLS, R2.CONTAINERS2, R2.Parser2, R2.Fn2 = STRUCT_DECLS3, CONTAINERS3, Parser3, Fn3
            self.collect_square_maps()
            self.collect_structs()
            self.collect2()
            self.infer_all2()
            self.order2()
            self.check_shifts()
        finally:
            R2.STRUCT_DECLS, R2.CONTAINERS2, R2.Parser2, R2.Fn2 = saved
        self.check_extern_heads()
        files = sorted({c["file"] for c in CONTAINERS3} | {d[0] for d in STRUCT_DECLS3})
        out = ["-- GENERATED by tools/rs2lean_eval.py from " + ", ".join(files) + "; do not edit.",
               "import Wee.Gen.GenMoves",
               "import Wee.Gen.EvalTables",
               "import Wee.Model.F32",
               "/-!",
               "# Lean definitions translated from the Rust source text, stage 3b (the static evaluator)",
               "",
               "Every `def`/`structure` below the prelude is produced from the text of one Rust item; the prelude is the fixed,",
               "trusted vocabulary.  `Wee/Proofs/EvalFnsBridge.lean` proves these functions equal to the hand-written model",
               "(`Wee/Model/Eval.lean`).  Functions of stages 1, 2 and 3a (`Wee/Gen/MoveFns.lean`, `CoreFns.lean`, `GenMoves.lean`) are",
               "used by name.",
               "-/",
               "set_option linter.unusedVariables false",
               "namespace Wee.GenFns",
               "open Wee",
               PRELUDE3.strip("\n"),
               "",
               "/-! the 64-entry piece-square tables: literals regenerated by `tools/extract.py` (`Wee/Gen/EvalTables.lean`); the names are",
               "read from the declarations `const X: ArrayMap<Square, i32> = ArrayMap::new([..])` of `evaluate_piece_squares.rs` -/"]
        for nm in self.square_maps:
            out.append(f"def evaluate_piece_squares.{nm} : Array Int32 := Gen.{nm}.map Int32.ofInt")
        out += ["",
                "/-! ## Translated struct declarations -/",
                ""]
        for rel, name, fields, derives in self.structs:
            out.append(self.emit_struct(rel, name, fields, derives))
            out.append("")
            if name == "StateVariation":
                out.append("/-- `type EvaluationFunction = fn(v: &StateVariation, perspective: &Color, eval: &mut Evaluation, stop: &mut bool)`:")
                out.append("the two `&mut` arguments are returned; `none` = panic -/")
                out.append("abbrev EvaluationFunction := StateVariation → Color → Evaluation → Bool → Panics (Evaluation × Bool)")
                out.append("")
        out.append("/-! ## Translated items -/")
        out.append("")
        for it in self.items:
            out.append(self.emit_const(it) if isinstance(it, R2.Const2) else self.emit_fn(it))
            out.append("")
        out.append("/-! ## Side conditions checked by the translator")
        for n in self.notes:
            out.append(f"* {n}")
        out.append("* float literals are emitted as exact binary32 bit patterns (decimal text in the comment)")
        out.append("-/")
        out.append("end Wee.GenFns")
        return "\n".join(out) + "\n"


def translate(repo):
    t1 = R.Translator(repo)
    t1.run()                                   # stage 1, unchanged (output not written here)
    R2.install()
    t2 = R2.Emitter2(repo, t1)
    t2.run2()                                  # stage 2, unchanged (output not written here)
    install3()
    R.children = children3
    return Emitter3(repo, t1, t2).run3()


def main():
    ap = argparse.ArgumentParser()
    ap.add_argument("--repo", default=os.environ.get("WEE_REPO", "/repo"))
    ap.add_argument("--out", default=DEFAULT_OUT)
    ap.add_argument("--check", action="store_true", help="do not write; exit 1 if the file would change")
    a = ap.parse_args()
    try:
        text = translate(a.repo)
    except TieBroken as ex:
        print(f"TIE-BROKEN rs2lean_eval: {ex}")
        sys.exit(2)
    old = None
    if os.path.exists(a.out):
        with open(a.out) as f:
            old = f.read()
    changed = old != text
    if a.check:
        print('{"changed": %s}' % ("true" if changed else "false"))
        sys.exit(1 if changed else 0)
    if changed:
        os.makedirs(os.path.dirname(a.out), exist_ok=True)
        with open(a.out, "w") as f:
            f.write(text)
    print('{"changed": [%s]}' % ('"EvalFns.lean"' if changed else ""))


if __name__ == "__main__":
    main()
