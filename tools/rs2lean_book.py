#!/usr/bin/env python3
"""rs2lean_book.py -- stage 4b of tie (a): the OPENING BOOK (property C16).

Re-reads the Rust source text of `weechess-core/src/book.rs` (`Book`, `BookParseError`, `BookParser::parse_movetext`),
`weechess-core/src/moves.rs` (`MoveSet::find`), `weechess-core/src/state.rs` (`impl Default for State`),
`weechess-core/src/notation.rs` (`Fen::DEFAULT`), `weechess-engine/build.rs` (`BOOK_DEPTH`, `BuildError`,
`generate_book_data`) and `weechess-engine/src/book.rs` (`OpeningBook`, `OpeningBook::lookup`) and translates it into
`lean/Wee/Gen/BookFns.lean` (namespace `Wee.GenFns`).  `Wee/Proofs/BookFnsBridge.lean` proves the generated functions
equal to the hand model `Wee/Model/Book.lean` (the functions the C16 theorems are about).

The earlier stages are imported as modules (lexer, item finder of `rs2lean`; the body parser of `rs2lean_text`, extended
here).  Functions of stages 2, 3a, 3d are called BY THEIR GENERATED NAME (`EXTERNS`: the Rust signature and the head of
the Lean definition in the committed `Gen/*.lean` are both checked textually).

TRUSTED PART 1 -- semantics chosen by this tool
  * every translated function lives in `Panics` (= `Option`, `none` = panic) as in stages 1-3a; a Rust `Result<T, E>` with a
    payload is the VALUE `Except E T`; `e?` is `match e with | .error x => return (.error x) | .ok v => <rest>` (the error types
    must agree: no `From` conversion); a stage-3d function (`TRes`) of Rust type `Result<T, ()>` is read through
    `TRes.toResult`, one of another type through `TRes.toPanics`.
  * LAZY ITERATORS over a finite source whose closures are deterministic and effect-free except for panics are the
    first-order value `Iter α = nil | cons a rest | panic`: the items in order, ended by exhaustion or by "pulling the next
    item panics".  The adaptors `filter map scan take`, the consumers `find collect::<Result<Vec<_>,_>> try_fold` are the
    prelude functions of that name (they mirror std: `take(0)` does not pull, `collect` / `try_fold` stop at the first
    `Err`, `scan` ends at the first `None` of its closure); the argument `State::default()` of `scan` is evaluated when the
    adaptor is built.  `for x in <Vec>` is `List.foldlM`; a `for` whose body contains `?` is `for_try`.
  * `&mut` parameters of a closure / `&mut self` are returned values (the `scan` closure returns `(state, item)`).
  * `println!` is dropped WITHOUT evaluating its arguments (stdout is not modelled; the `Display` impls are assumed not to
    panic); a `for` whose body consists of `println!` only is dropped as well.
  * a `usize` that is a byte offset into a `str` (`find`) is a `Nat`, `offset + literal` is unchecked (a `str` is at
    most `isize::MAX` bytes long).
TRUSTED PART 2 -- the primitive tables `PRELUDE` (Lean text) and `EXTERNS`, `FRAMES` (the I/O frame of `generate_book_data`
that is replaced by parameters: the directory is the list of the contents of its regular files, the hasher is a parameter,
the serialised value is the returned `Book`), `TEXT_CHECKS`.

Anything outside the subset: `TIE-BROKEN rs2lean_book: <reason>`, exit 2.
Usage: rs2lean_book.py [--repo DIR] [--out FILE] [--check]
"""
import argparse
import os
import re
import sys

sys.path.insert(0, os.path.dirname(os.path.abspath(__file__)))
import rs2lean as R             # noqa: E402
import rs2lean_text as T        # noqa: E402
from rs2lean import TieBroken, fail, lex, match_close, find_container   # noqa: E402

TAG = "rs2lean_book"
VERIF = os.path.dirname(os.path.dirname(os.path.abspath(__file__)))
DEFAULT_OUT = os.path.join(VERIF, "lean", "Wee", "Gen", "BookFns.lean")
CBOOK = "weechess-core/src/book.rs"
MOVES = "weechess-core/src/moves.rs"
STATE = "weechess-core/src/state.rs"
NOTATION = "weechess-core/src/notation.rs"
HASHER = "weechess-core/src/hasher.rs"
MOVEGEN = "weechess-core/src/movegen.rs"
BUILD = "weechess-engine/build.rs"
EBOOK = "weechess-engine/src/book.rs"


def H(s):
    return [t.s for t in lex(s, "<table>")]


# ----------------------------------------------------------------------------------------------------------------------
# types (tuples): ('str',) ('char',) ('bool',) ('usize',) ('stroff',) ('unit',) ('Iter', T) ('Vec', T) ('Option', T)
# ('Result', T, E) ('tuple', A, B) ('HashSet', T) ('BTreeMap', K, V) named: ('State',) ('Move',) ... hole ('?',)
# ----------------------------------------------------------------------------------------------------------------------
STR, CHAR, BOOL, USIZE, STROFF, UNIT, HOLE = ("str",), ("char",), ("bool",), ("usize",), ("stroff",), ("unit",), ("?",)
HASH, MOVE, STATE_T, MQ, ZH = ("Hash",), ("Move",), ("State",), ("MoveQuery",), ("ZobristHasher",)
BOOK, BPE, BUILDERR, OB = ("Book",), ("BookParseError",), ("BuildError",), ("OpeningBook",)
MOVERESULT = ("tuple", MOVE, STATE_T)
MOVESET = ("MoveSet",)
HSET = ("HashSet", MOVE)
ITEM = ("Result", ("tuple", HASH, MOVE), BPE)

LEAN_NAMED = {"Hash": "Hash", "Move": "Move", "State": "State", "MoveQuery": "MoveQuery", "ZobristHasher": "ZobristHasher",
              "Book": "core.Book", "BookParseError": "BookParseError", "BuildError": "build.BuildError",
              "OpeningBook": "OpeningBook", "MoveSet": "MoveSet", "str": "(List Char)", "char": "Char", "bool": "Bool",
              "usize": "UInt64", "stroff": "Nat", "unit": "Unit"}


def lty(t):
    k = t[0]
    if k == "?":
        return "_"
    if k in LEAN_NAMED:
        return LEAN_NAMED[k]
    if k == "Iter":
        return f"(Iter {lty(t[1])})"
    if k == "Vec":
        return f"(List {lty(t[1])})"
    if k == "Option":
        return f"(Option {lty(t[1])})"
    if k == "Result":
        return f"(Except {lty(t[2])} {lty(t[1])})"
    if k == "tuple":
        return "(" + " × ".join(lty(x) for x in t[1:]) + ")"
    if k == "HashSet":
        return f"(HashSet {lty(t[1])})"
    if k == "BTreeMap":
        return f"(BTreeMap {lty(t[1])} {lty(t[2])})"
    fail(f"type {t} has no Lean rendering")


def unify(a, b, what):
    """loose structural unification with holes; returns the more informative type"""
    if a[0] == "?":
        return b
    if b[0] == "?":
        return a
    if a[0] != b[0] or len(a) != len(b):
        fail(f"{what}: type mismatch {a} vs {b}")
    return (a[0],) + tuple(unify(x, y, what) for x, y in zip(a[1:], b[1:]))


# ----------------------------------------------------------------------------------------------------------------------
# THE TABLES
# ----------------------------------------------------------------------------------------------------------------------
# struct declarations -> Lean structures (fields prefixed f_); the field types are STATED and the declaration text is checked
STRUCTS = [
    dict(file=CBOOK, name="Book", lean="core.Book",
         decl="pub struct Book { table: BTreeMap<hasher::Hash, HashSet<Move>>, }",
         fields=[("table", ("BTreeMap", HASH, HSET))]),
    dict(file=EBOOK, name="OpeningBook", lean="OpeningBook",
         decl="pub struct OpeningBook { book : Book , hasher : ZobristHasher , }",
         fields=[("book", BOOK), ("hasher", ZH)]),
]
# enum declarations -> Lean inductives; payload types through PAYLOAD (token text -> (lean, type))
ENUM_DECLS = [
    dict(file=CBOOK, name="BookParseError", lean="BookParseError"),
    dict(file=BUILD, name="BuildError", lean="build.BuildError"),
]
PAYLOAD = {"String": STR, "MoveQuery": MQ, "BookParseError": BPE,
           "std :: io :: Error": ("io.Error",), "ciborium :: ser :: Error < std :: io :: Error >": ("ciborium.ser.Error",)}
LEAN_NAMED["io.Error"] = "io.Error"
LEAN_NAMED["ciborium.ser.Error"] = "ciborium.ser.Error"

# translated functions.  `sig`: the Rust signature from `(` to the body, token for token (checked); the parameter and
# result types are STATED here.  seam=True: the function takes the regex seam `rx` of stage 3d as its first parameter.
CONTAINERS = [
    dict(file=NOTATION, path=[H("mod fen"), H("impl Fen")], self=None, complete=True, fns={}, skip={},
         consts={"DEFAULT": dict(lean="Fen.DEFAULT", ty=STR, decl="& 'static str")}),
    dict(file=STATE, path=[H("impl Default for State")], self=STATE_T, complete=True, skip={}, fns={
        "default": dict(lean="State.default", sig="( ) -> Self", params=[], ret=STATE_T, seam=True)}),
    dict(file=MOVES, path=[H("impl MoveSet")], self=MOVESET, complete=False, skip={}, fns={
        "find": dict(lean="MoveSet.find", sig="( & self , query : & MoveQuery ) -> Option < MoveResult >",
                     params=[("self", MOVESET), ("query", MQ)], ret=("Option", MOVERESULT))}),
    dict(file=CBOOK, path=[H("impl Book")], self=BOOK, complete=True,
         skip={"iter": "returns `impl Iterator` over the table; not called by the engine or the build script"}, fns={
        "new": dict(lean="core.Book.new", sig="( ) -> Self", params=[], ret=BOOK),
        "len": dict(lean="core.Book.len", sig="( & self ) -> usize", params=[("self", BOOK)], ret=USIZE),
        "find": dict(lean="core.Book.find", sig="(&self, hash: hasher::Hash) -> Option<&HashSet<Move>>",
                     params=[("self", BOOK), ("hash", HASH)], ret=("Option", HSET)),
        "append": dict(lean="core.Book.append", sig="( & mut self , hash : hasher :: Hash , moves : & [ Move ] )",
                       params=[("self", BOOK), ("hash", HASH), ("moves", ("Vec", MOVE))], ret=UNIT, mutself=True)}),
    dict(file=CBOOK, path=[H("impl BookParser")], self=("BookParser",), complete=True, skip={}, fns={
        "parse_movetext": dict(
            lean="BookParser.parse_movetext",
            sig="(movetext: &'a str, hasher: &'a hasher::ZobristHasher,) -> impl Iterator<Item = Result<(hasher::Hash, Move), BookParseError>> + 'a",
            params=[("movetext", STR), ("hasher", ZH)], ret=("Iter", ITEM), seam=True)}),
    dict(file=BUILD, path=[], self=None, complete=True,
         skip={"main": "`generate_book_data().unwrap()`: a build error or a panic fails the build (checked textually)"},
         consts={"BOOK_DEPTH": dict(lean="build.BOOK_DEPTH", ty=USIZE, decl="usize"),
                 "BOOK_SEED_ENV_VAR": None, "BOOK_DATA_FILE_NAME": None},
         fns={"generate_book_data": dict(
             lean="build.generate_book_data", sig="( ) -> Result < ( ) , BuildError >", framed=True,
             params=[("hasher", ZH), ("dir", ("Vec", STR))], ret=("Result", BOOK, BUILDERR), seam=True)}),
    dict(file=EBOOK, path=[H("impl OpeningBook")], self=OB, complete=True,
         skip={"try_default": "seam: seed from the build script, `include_bytes!` + `ciborium::de::from_reader` (checked textually)"},
         fns={"lookup": dict(lean="OpeningBook.lookup",
                             sig="(&self, state: &State) -> Option<&HashSet<weechess_core::Move>>",
                             params=[("self", OB), ("state", STATE_T)], ret=("Option", HSET))}),
]

# the I/O frame of `generate_book_data`: literal pieces of the body (whitespace-normalised, comments removed) that must occur
# exactly once and are replaced BEFORE parsing.  What they stand for is documented in NOTES (trusted seams).
FRAMES = [
    ('let book_dir: std::path::PathBuf = Path::new(env!("CARGO_MANIFEST_DIR")) .parent() .unwrap() .join("book") '
     '.canonicalize() .unwrap();', "",
     "the directory `book/` next to the engine crate"),
    ('let hasher = weechess_core::ZobristHasher::with(&mut { let seed = rand::thread_rng().next_u64(); '
     'println!("cargo:rustc-env={}={}", BOOK_SEED_ENV_VAR, seed); ChaCha8Rng::seed_from_u64(seed) });', "",
     "the hasher is a PARAMETER: key table drawn from ChaCha8 with a seed that is handed to the engine build through "
     "`cargo:rustc-env=WEECHESS_BOOK_SEED`"),
    ('for entry in fs::read_dir(book_dir).unwrap() { let entry = entry.map_err(|e| BuildError::Io(e))?; '
     'if entry.file_type().unwrap().is_file() { println!("cargo:rerun-if-changed={}", entry.path().display()); '
     'let book_contents = fs::read_to_string(entry.path()).map_err(|e| BuildError::Io(e))?;',
     "for book_contents in dir { {",
     "the directory is the PARAMETER `dir`: the list of the contents of its regular files in `read_dir` order, every read succeeds"),
    ('let mut buf = Vec::new(); ciborium::into_writer(&book, &mut buf).map_err(|e| BuildError::Serialization(e))?; '
     'let book_data_path = Path::new(&std::env::var("OUT_DIR").unwrap()).join(BOOK_DATA_FILE_NAME); '
     'std::fs::write(book_data_path, buf).map_err(|e| BuildError::Io(e))?; Ok(())', "Ok(book)",
     "the RESULT is the `Book` handed to `ciborium::into_writer` (serialisation, `fs::write`, `include_bytes!`, "
     "`ciborium::de::from_reader` compose to the identity)"),
]

# functions of earlier stages used by name: Rust signature (regex on the file) and the head of the generated definition
EXTERNS = {
    ("MoveGenerator", "compute_legal_moves"): dict(
        lean="MoveGenerator.compute_legal_moves", params=[("state", STATE_T)], ret=MOVESET, mode="panics",
        rust=(MOVEGEN, r"pub fn compute_legal_moves\(state: &State\) -> MoveSet \{"),
        head=("GenMoves.lean", "def MoveGenerator.compute_legal_moves (state : State) : Panics MoveSet := do")),
    ("ZobristHasher", "hash"): dict(
        lean="ZobristHasher.hash", params=[("self", ZH), ("state", STATE_T)], ret=HASH, mode="panics", method=True,
        rust=(HASHER, r"pub fn hash\(&self, state: &State\) -> Hash \{"),
        head=("CoreFns.lean", "def ZobristHasher.hash (self : ZobristHasher) (state : State) : Panics UInt64 := do")),
    ("MoveQuery", "test"): dict(
        lean="MoveQuery.test", params=[("self", MQ), ("m", MOVE)], ret=BOOL, mode="tres", method=True,
        rust=(MOVES, r"pub fn test\(&self, m: &Move\) -> bool \{"),
        head=("TextFns.lean", "def MoveQuery.test (self : MoveQuery) (m : Move) : TRes Bool := do")),
    ("try_from_notation", "San"): dict(
        lean="San.try_from_notation", params=[("notation", STR)], ret=("Result", MQ, UNIT), mode="tres_result",
        rust=(NOTATION, r"impl TryFromNotation<MoveQuery> for San \{\s*type Error = \(\);\s*fn try_from_notation\(notation: &str\) -> Result<MoveQuery, Self::Error> \{"),
        head=("TextFns.lean", "def San.try_from_notation (notation_ : (List Char)) : TRes MoveQuery := do")),
    ("try_from_notation", "Fen"): dict(
        lean="Fen.try_from_notation", params=[("notation", STR)], ret=("Result", STATE_T, UNIT), mode="tres_result", seam=True,
        rust=(NOTATION, r"impl TryFromNotation<State> for Fen \{\s*type Error = \(\);\s*fn try_from_notation\(notation: &str\) -> Result<State, Self::Error> \{"),
        head=("TextFns.lean", "def Fen.try_from_notation (rx : RegexCaptures) (notation_ : (List Char)) : TRes State := do")),
}

TEXT_CHECKS = [
    (NOTATION, r"pub fn try_from_notation<T, F>\(s: &str\) -> Result<T, \(\)>\s*where\s*T: Sized \+ Clone,\s*F: TryFromNotation<T>,\s*\{\s*F::try_from_notation\(s\)\.map_err\(\|_\| \(\)\)\s*\}",
     "free fn try_from_notation::<T, F> = F::try_from_notation(s).map_err(|_| ())"),
    (MOVES, r"pub struct MoveResult\(pub Move, pub State\);", "struct MoveResult(Move, State)"),
    (MOVES, r"pub struct MoveSet\(Vec<MoveResult>\);", "struct MoveSet(Vec<MoveResult>)"),
    (HASHER, r"pub type Hash = u64;", "type Hash = u64"),
    (BUILD, r"fn main\(\) \{\s*generate_book_data\(\)\.unwrap\(\);\s*\}", "build.rs main unwraps generate_book_data()"),
    (BUILD, r"use weechess_core::\{Book, BookParseError, BookParser\};", "build.rs uses the core Book / BookParser"),
    (EBOOK, r"pub fn try_default\(\) -> Result<Self, \(\)> \{\s*let hash_seed = u64::from_str_radix\(env!\(\"WEECHESS_BOOK_SEED\"\), 10\)\.map_err\(\|_\| \(\)\)\?;\s*"
            r"let hasher = ZobristHasher::with\(&mut ChaCha8Rng::seed_from_u64\(hash_seed\)\);\s*"
            r"let bytes = include_bytes!\(concat!\(env!\(\"OUT_DIR\"\), \"/\", \"book_data\.bin\"\)\);\s*"
            r"let book = ciborium::de::from_reader\(&bytes\[\.\.\]\)\.map_err\(\|_\| \(\)\)\?;\s*Ok\(Self \{ book, hasher \}\)\s*\}",
     "OpeningBook::try_default: hasher from WEECHESS_BOOK_SEED with ChaCha8Rng, book deserialised from OUT_DIR/book_data.bin"),
    (BUILD, r"const BOOK_SEED_ENV_VAR: &'static str = \"WEECHESS_BOOK_SEED\";", "seed variable name"),
    (BUILD, r"const BOOK_DATA_FILE_NAME: &'static str = \"book_data\.bin\";", "book data file name"),
    (EBOOK, r"use weechess_core::\{Book, State, ZobristHasher\};", "engine book.rs uses the core Book"),
]

PRELUDE = r'''
/-! ## Prelude: the trusted vocabulary of stage 4b -/

/-- a stage-3d function (`TRes`) whose Rust type is `Result<T, ()>`, as a value -/
def TRes.toResult {α : Type} : TRes α → Panics (Except Unit α)
  | .ok a => some (.ok a)
  | .err => some (.error ())
  | .panic => none
/-- a stage-3d function whose Rust type is not a `Result` (`err` does not occur) -/
def TRes.toPanics {α : Type} : TRes α → Panics α
  | .ok a => some a
  | _ => none
/-- `Result::unwrap` / `Option::unwrap` -/
def Result.unwrap {ε α : Type} : Except ε α → Panics α
  | .ok a => some a
  | .error _ => none
/-- `assert!` -/
def Panics.assert (c : Bool) : Panics Unit := if c then some () else none

/-- a lazy iterator over a finite source: its items in order, ended by exhaustion (`nil`) or by a pull that panics -/
inductive Iter (α : Type) where
  | nil
  | cons (a : α) (rest : Iter α)
  | panic
deriving Repr

/-- `Vec::into_iter`, `slice::iter`, the result of `split_whitespace` / `split` -/
def Iter.ofList {α : Type} : List α → Iter α
  | [] => .nil
  | a :: r => .cons a (Iter.ofList r)
/-- `Iterator::filter` -/
def Iter.filter {α : Type} (p : α → Panics Bool) : Iter α → Iter α
  | .nil => .nil
  | .panic => .panic
  | .cons a r =>
    match p a with
    | some true => .cons a (Iter.filter p r)
    | some false => Iter.filter p r
    | none => .panic
/-- `Iterator::map` -/
def Iter.map {α β : Type} (f : α → Panics β) : Iter α → Iter β
  | .nil => .nil
  | .panic => .panic
  | .cons a r =>
    match f a with
    | some b => .cons b (Iter.map f r)
    | none => .panic
/-- `Iterator::scan`: `let a = self.iter.next()?; (self.f)(&mut self.state, a)`; the closure returns the new state and
the item, `None` ends the iteration -/
def Iter.scan {α β σ : Type} (f : σ → α → Panics (σ × Option β)) : σ → Iter α → Iter β
  | _, .nil => .nil
  | _, .panic => .panic
  | s, .cons a r =>
    match f s a with
    | some (s', some b) => .cons b (Iter.scan f s' r)
    | some (_, none) => .nil
    | none => .panic
/-- `Iterator::take`: after `n` items the underlying iterator is not pulled any more -/
def Iter.take {α : Type} : Nat → Iter α → Iter α
  | 0, _ => .nil
  | _ + 1, .nil => .nil
  | _ + 1, .panic => .panic
  | n + 1, .cons a r => .cons a (Iter.take n r)
/-- `Iterator::find` -/
def Iter.find {α : Type} (p : α → Panics Bool) : Iter α → Panics (Option α)
  | .nil => some none
  | .panic => none
  | .cons a r =>
    match p a with
    | some true => some (some a)
    | some false => Iter.find p r
    | none => none
/-- `Iterator::collect::<Result<Vec<_>, E>>()`: stops at the first `Err` -/
def Iter.collect_result {ε α : Type} : Iter (Except ε α) → Panics (Except ε (List α))
  | .nil => some (.ok [])
  | .panic => none
  | .cons (.error e) _ => some (.error e)
  | .cons (.ok a) r =>
    match Iter.collect_result r with
    | some (.ok l) => some (.ok (a :: l))
    | some (.error e) => some (.error e)
    | none => none
/-- `Iterator::try_fold` with a `Result` -/
def Iter.try_fold {ε α σ : Type} (f : σ → α → Panics (Except ε σ)) : σ → Iter α → Panics (Except ε σ)
  | s, .nil => some (.ok s)
  | _, .panic => none
  | s, .cons a r =>
    match f s a with
    | some (.ok s') => Iter.try_fold f s' r
    | some (.error e) => some (.error e)
    | none => none
/-- `for x in <list> { body }` whose body leaves the function through `?` -/
def for_try {ε α σ : Type} (f : σ → α → Panics (Except ε σ)) : σ → List α → Panics (Except ε σ)
  | s, [] => some (.ok s)
  | s, a :: r =>
    match f s a with
    | some (.ok s') => for_try f s' r
    | some (.error e) => some (.error e)
    | none => none

/-! strings (`&str` = `List Char` as in stage 3d) -/
/-- `char::is_whitespace`: the Unicode property `White_Space` -/
def char.is_whitespace (c : Char) : Bool :=
  let n := c.toNat
  (0x09 ≤ n && n ≤ 0x0D) || n == 0x20 || n == 0x85 || n == 0xA0 || n == 0x1680 ||
  (0x2000 ≤ n && n ≤ 0x200A) || n == 0x2028 || n == 0x2029 || n == 0x202F || n == 0x205F || n == 0x3000
/-- `str::split_whitespace`: the maximal runs of non-whitespace characters (`cur` = the current run, reversed) -/
def str.split_whitespace.go : List Char → List Char → List (List Char)
  | [], cur => if cur.isEmpty then [] else [cur.reverse]
  | c :: rest, cur =>
    if char.is_whitespace c then
      (if cur.isEmpty then str.split_whitespace.go rest [] else cur.reverse :: str.split_whitespace.go rest [])
    else str.split_whitespace.go rest (c :: cur)
def str.split_whitespace (s : List Char) : List (List Char) := str.split_whitespace.go s []
/-- `str::ends_with(char)` -/
def str.ends_with_char (s : List Char) (c : Char) : Bool := s.getLast? == some c
/-- `str::find(char)`: the BYTE offset of the first occurrence -/
def str.find_char : List Char → Char → Option Nat
  | [], _ => none
  | c :: r, x => if c == x then some 0 else (str.find_char r x).map (· + c.utf8Size)
/-- `&s[i..]`: panics unless the byte offset `i` is a character boundary of `s` (the end included) -/
def str.slice_from : List Char → Nat → Panics (List Char)
  | s, 0 => some s
  | [], _ + 1 => none
  | c :: r, n + 1 => if c.utf8Size ≤ n + 1 then str.slice_from r (n + 1 - c.utf8Size) else none
/-- `str::trim_start` / `str::trim` -/
def str.trim_start (s : List Char) : List Char := s.dropWhile char.is_whitespace
def str.trim (s : List Char) : List Char := ((s.dropWhile char.is_whitespace).reverse.dropWhile char.is_whitespace).reverse
/-- `str::split(&str)` for a non-empty pattern: leftmost non-overlapping occurrences (`fuel` ≥ length + 1) -/
def str.split.go (pat : List Char) : Nat → List Char → List Char → List (List Char)
  | 0, _, cur => [cur.reverse]
  | _ + 1, [], cur => [cur.reverse]
  | n + 1, c :: r, cur =>
    if pat.isPrefixOf (c :: r) then cur.reverse :: str.split.go pat n ((c :: r).drop pat.length) []
    else str.split.go pat n r (c :: cur)
def str.split (s pat : List Char) : List (List Char) := str.split.go pat (s.length + 1) s []

/-! `HashSet<T>` is a duplicate-free list (iteration order is not observable through `new`, `extend`, `len`);
`BTreeMap<K, V>` is an association list with unique keys (order not observable through `new`, `get`, `len`, `entry`) -/
abbrev HashSet (α : Type) := List α
def HashSet.new {α : Type} : HashSet α := []
def HashSet.insert {α : Type} [BEq α] (s : HashSet α) (x : α) : HashSet α := if s.contains x then s else s ++ [x]
/-- `HashSet::extend(&[T])` -/
def HashSet.extend {α : Type} [BEq α] (s : HashSet α) (xs : List α) : HashSet α := xs.foldl HashSet.insert s
def HashSet.len {α : Type} (s : HashSet α) : UInt64 := s.length.toUInt64
abbrev BTreeMap (κ ν : Type) := List (κ × ν)
def BTreeMap.new {κ ν : Type} : BTreeMap κ ν := []
def BTreeMap.get {κ ν : Type} [BEq κ] (m : BTreeMap κ ν) (k : κ) : Option ν := (m.find? (fun e => e.1 == k)).map (·.2)
def BTreeMap.len {κ ν : Type} (m : BTreeMap κ ν) : UInt64 := m.length.toUInt64
/-- `m.entry(k).or_insert_with(d).<&mut method f>`: update in place, or insert `f (d ())` -/
def BTreeMap.entry_or_insert_with {κ ν : Type} [BEq κ] (m : BTreeMap κ ν) (k : κ) (d : Unit → ν) (f : ν → ν) : BTreeMap κ ν :=
  if m.any (fun e => e.1 == k) then m.map (fun e => if e.1 == k then (e.1, f e.2) else e) else m ++ [(k, f (d ()))]

/-- opaque payloads of the I/O errors (never built by translated code) -/
inductive io.Error where | mk
deriving DecidableEq, Repr
inductive ciborium.ser.Error where | mk
deriving DecidableEq, Repr
'''


# ----------------------------------------------------------------------------------------------------------------------
# parser: the stage-3d body parser + `let … else`, `println!` / `assert!`, `&s[a..]`, `[a, b]`, `Err(..)` patterns
# ----------------------------------------------------------------------------------------------------------------------
class BP(T.BodyParser):
    def block(self):
        self.eat("{")
        stmts, tail = [], None
        while self.peek() != "}":
            if self.peek() == ";":
                self.eat()
                continue
            p, ln = self.peek(), self.line()
            if p == "let":
                self.eat()
                pat = self.pattern()
                ty = None
                if self.peek() == ":":
                    self.eat()
                    ty = self.ty()
                if self.peek() != "=":
                    self.err("`let` without initialiser")
                self.eat("=")
                init = self.expr()
                if self.peek() == "else":
                    self.eat()
                    els = self.block()
                    self.eat(";")
                    stmts.append(("letelse", pat, init, els, ln))
                    continue
                self.eat(";")
                stmts.append(("let", pat, ty, init, ln))
                continue
            if p == "for":
                self.eat()
                pat = self.pattern()
                self.eat("in")
                it = self.expr(nostruct=True)
                body = self.block()
                stmts.append(("expr", ("for", pat, it, body, ln), ln))
                continue
            if p in ("while", "loop", "unsafe", "fn", "struct", "impl", "use", "static", "const"):
                self.err(f"`{p}` not supported")
            e = self.expr(stmt=True)
            if self.peek() == ";":
                self.eat()
                stmts.append(("expr", e, ln))
            elif self.peek() == "}":
                tail = e
            elif e[0] in ("if", "iflet", "match", "block"):
                stmts.append(("expr", e, ln))
            else:
                self.err(f"expected `;` or `}}`, found `{self.peek()}`")
        self.eat("}")
        return ("block", stmts, tail)

    def pattern1(self):
        if self.peek() == "..":
            self.eat()
            return ("prest",)
        return super().pattern1()

    def primary(self, nostruct):
        p, ln = self.peek(), self.line()
        if p == "[":
            self.eat()
            items = []
            while self.peek() != "]":
                items.append(self.expr())
                if self.peek() == ",":
                    self.eat()
            self.eat("]")
            return ("array", items, ln)
        if p in ("println", "assert") and self.i + 1 < len(self.t) and self.t[self.i + 1].s == "!":
            self.eat()
            self.eat("!")
            o = self.i
            c = match_close(self.t, o, "(", ")")
            if p == "println":
                self.i = c + 1
                return ("println", ln)
            a = self.args()
            if len(a) != 1:
                self.err("assert! with a message not supported")
            return ("assert", a[0], ln)
        return super().primary(nostruct)

    def postfix(self, stmt, nostruct):
        e = self.primary(nostruct)
        if stmt and e[0] in ("if", "iflet", "match", "block"):
            return e
        while True:
            p = self.peek()
            if p == "?":
                self.eat()
                e = ("try", e, self.line())
            elif p == ".":
                self.eat()
                tok = self.eat()
                if tok.k == "int":
                    e = ("field", e, tok.s)
                    continue
                if tok.k != "id" or tok.s == "await":
                    self.err(f"`.{tok.s}` not supported")
                gen = None
                if self.peek() == "::":
                    self.eat()
                    self.eat("<")
                    depth, parts = 1, []
                    while depth > 0:
                        x = self.eat().s
                        depth += {"<": 1, ">": -1, ">>": -2}.get(x, 0)
                        parts.append(x)
                    if depth != 0:
                        self.err("unbalanced turbofish")
                    gen = "".join(parts)[:-1]
                if self.peek() == "(":
                    e = ("mcall", e, tok.s, self.args(), gen, tok.line)
                else:
                    e = ("field", e, tok.s)
            elif p == "[":
                ln = self.line()
                self.eat()
                lo = self.expr(False, False, 1)
                if self.peek() != "..":
                    self.err("index expressions other than `[a..]` not supported")
                self.eat("..")
                self.eat("]")
                e = ("slice_from", e, lo, ln)
            elif p == "(":
                ln = self.line()
                e = ("call", e, self.args(), ln)
            else:
                return e


def pat_names(p):
    if p[0] == "pbind":
        return [p[1]]
    if p[0] in ("ptuple", "por"):
        return [n for q in p[1] for n in pat_names(q)]
    if p[0] == "pctor":
        return [n for q in p[2] for n in pat_names(q)]
    return []


class Out:
    def __init__(self, ind, counter):
        self.lines, self.ind, self.counter = [], ind, counter

    def emit(self, s):
        self.lines.append(" " * self.ind + s)

    def fresh(self):
        self.counter[0] += 1
        return f"t_{self.counter[0]}"

    def sub(self, extra=4):
        return Out(self.ind + extra, self.counter)

    def splice(self, sub, closing=")"):
        if not sub.lines:
            fail("internal: empty block")
        sub.lines[-1] += closing
        self.lines.extend(sub.lines)


class Ctx:
    """how to leave the enclosing fn / closure: `muts` = names of `&mut` parameters returned next to the value"""
    def __init__(self, ret_ty, muts=(), loop_err=False, seam=False, unit_ret=False):
        self.ret_ty, self.muts, self.loop_err, self.seam, self.unit_ret = ret_ty, list(muts), loop_err, seam, unit_ret


def char_lit(c):
    if c in ("\\", "'", "\n", "\t", "\r") or not (32 <= ord(c) < 127):
        return f"(Char.ofNat {ord(c)})"
    return f"'{c}'"


def chars_lit(s):
    return "[" + ", ".join(char_lit(c) for c in s) + "]"


class Book:
    def __init__(self, repo):
        self.repo = repo
        self.files = {}
        self.funcs = {}        # (self type name | None, rust name) -> entry dict
        self.consts = {}       # rust name -> (lean, type)
        self.enums = {}        # enum name -> {variant: [payload types]}
        self.structs = {}      # type name -> (lean, [(field, type)])
        self.checks = []

    # ---- files
    def load(self, rel):
        if rel not in self.files:
            path = os.path.join(self.repo, rel)
            if not os.path.exists(path):
                fail(f"{rel}: file not found")
            with open(path) as f:
                text = f.read()
            try:
                toks = lex(text, rel)
            except TieBroken:
                toks = T.lex_prefix(text)
            self.files[rel] = (text, toks)
        return self.files[rel]

    def err(self, ln, msg):
        fail(f"{self.cur_file}:{ln}: {msg}")

    # ---- declarations
    def struct_decl(self, d):
        text, toks = self.load(d["file"])
        want = H(d["decl"])
        hits = [i for i in range(len(toks)) if [x.s for x in toks[i:i + len(want)]] == want]
        if len(hits) != 1:
            fail(f"{d['file']}: declaration of struct {d['name']} is not `{d['decl']}`")
        self.structs[d["name"]] = (d["lean"], d["fields"])
        out = [f"/-- `struct {d['name']}` ({d['file']}:{toks[hits[0]].line}) -/", f"structure {d['lean']} where"]
        for f, t in d["fields"]:
            out.append(f"  f_{f} : {lty(t)}")
        return "\n".join(out) + "\n"

    def enum_decl(self, d):
        text, toks = self.load(d["file"])
        hits = [i for i in range(len(toks) - 2) if toks[i].s == "enum" and toks[i + 1].s == d["name"] and toks[i + 2].s == "{"]
        if len(hits) != 1:
            fail(f"{d['file']}: enum {d['name']} not found exactly once")
        o = hits[0] + 2
        c = match_close(toks, o, "{", "}")
        i, variants = o + 1, []
        while i < c:
            if toks[i].k != "id":
                fail(f"{d['file']}:{toks[i].line}: enum {d['name']}: unexpected `{toks[i].s}`")
            name, i, pay = toks[i].s, i + 1, []
            if toks[i].s == "(":
                pc = match_close(toks, i, "(", ")")
                cur, depth = [], 0
                for x in toks[i + 1:pc]:
                    if x.s == "<":
                        depth += 1
                    if x.s == ">":
                        depth -= 1
                    if x.s == "," and depth == 0:
                        pay.append(" ".join(cur))
                        cur = []
                    else:
                        cur.append(x.s)
                if cur:
                    pay.append(" ".join(cur))
                i = pc + 1
            elif toks[i].s not in (",", "}"):
                fail(f"{d['file']}:{toks[i].line}: enum {d['name']}: variant shape not supported")
            tys = []
            for p in pay:
                if p not in PAYLOAD:
                    fail(f"{d['file']}: enum {d['name']}::{name}: payload type `{p}` not in the table")
                tys.append(PAYLOAD[p])
            variants.append((name, tys))
            if toks[i].s == ",":
                i += 1
        self.enums[d["name"]] = (d["lean"], dict(variants))
        out = [f"/-- `enum {d['name']}` ({d['file']}:{toks[hits[0]].line}) -/", f"inductive {d['lean']} where"]
        for name, tys in variants:
            args = " ".join(f"(a{k} : {lty(t)})" for k, t in enumerate(tys))
            out.append(f"  | {name} {args}".rstrip())
        out.append("deriving DecidableEq, Repr")
        return "\n".join(out) + "\n"

    # ---- expressions: returns (atom, type); atoms are Lean terms that need no parentheses or are parenthesised
    def bind(self, out, rhs, monadic):
        v = out.fresh()
        out.emit(f"let {v} {'←' if monadic else ':='} {rhs}")
        return v

    def ex(self, e, env, out, ctx, exp=HOLE):
        k = e[0]
        if k == "str":
            return chars_lit(e[1]), STR
        if k == "char":
            return char_lit(e[1]), CHAR
        if k == "int":
            if not re.fullmatch(r"\d+", e[1]):
                fail(f"integer literal {e[1]} not supported")
            if exp[0] == "stroff":
                return e[1], STROFF
            return f"({e[1]} : UInt64)", USIZE
        if k == "unit":
            return "()", UNIT
        if k == "path":
            return self.ex_path(e, env, exp)
        if k == "tuple":
            parts = [self.ex(x, env, out, ctx) for x in e[1]]
            return "(" + ", ".join(a for a, _ in parts) + ")", ("tuple",) + tuple(t for _, t in parts)
        if k == "array":
            parts = [self.ex(x, env, out, ctx) for x in e[1]]
            t = HOLE
            for _, pt in parts:
                t = unify(t, pt, "array literal")
            return "[" + ", ".join(a for a, _ in parts) + "]", ("Vec", t)
        if k == "field":
            a, t = self.ex(e[1], env, out, ctx)
            return self.ex_field(a, t, e[2])
        if k == "unary":
            a, t = self.ex(e[2], env, out, ctx)
            if e[1] == "!" and t == BOOL:
                return f"(!{a})", BOOL
            fail(f"unary `{e[1]}` on {t} not supported")
        if k == "binary":
            return self.ex_binary(e, env, out, ctx)
        if k == "slice_from":
            a, t = self.ex(e[1], env, out, ctx)
            i, ti = self.ex(e[2], env, out, ctx, STROFF)
            if t != STR or ti != STROFF:
                self.err(e[3], f"`x[i..]` only for a str and a byte offset obtained from `find` (found {t}, {ti})")
            return self.bind(out, f"str.slice_from {a} {i}", True), STR
        if k == "call":
            return self.ex_call(e, env, out, ctx, exp)
        if k == "mcall":
            return self.ex_mcall(e, env, out, ctx, exp)
        if k == "try":
            a, t = self.ex(e[1], env, out, ctx)
            if t[0] != "Result":
                self.err(e[2], f"`?` on {t} not supported")
            rt = ctx.ret_ty
            if rt[0] != "Result":
                self.err(e[2], "`?` in a function / closure that does not return a Result")
            unify(t[2], rt[2], "`?` (no From conversion)")
            v = out.fresh()
            out.emit(f"match {a} with")
            out.emit(f"| Except.error e_ => {self.leave(ctx, env, 'Except.error e_')}")
            out.emit(f"| Except.ok {v} => do")
            out.ind += 2
            return v, t[1]
        if k in ("if", "iflet", "match", "block"):
            return self.ex_branching(e, env, out, ctx, exp)
        if k == "struct":
            name = self.cur_self[0] if e[1] == "Self" and self.cur_self else e[1]
            if name not in self.structs:
                self.err(e[3], f"struct literal of `{e[1]}` not supported")
            lean, fields = self.structs[name]
            if [f for f, _ in e[2]] != [f for f, _ in fields]:
                self.err(e[3], f"struct literal of `{name}`: fields differ from the declaration")
            parts = []
            for (f, x), (_, ft) in zip(e[2], fields):
                a, t = self.ex(x, env, out, ctx, ft)
                unify(t, ft, f"field {f}")
                parts.append(f"f_{f} := {a}")
            return "({ " + ", ".join(parts) + " } : " + lean + ")", (name,)
        if k == "closure":
            fail("closure outside an adaptor call not supported")
        fail(f"expression `{k}` not supported")

    def leave(self, ctx, env, atom):
        """the term that ends the enclosing fn / closure / loop body with value `atom`"""
        if ctx.muts:
            return "pure (" + ", ".join(env[m][0] for m in ctx.muts) + (", " + atom if not ctx.unit_ret else "") + ")"
        return f"pure ({atom})"

    def ex_path(self, e, env, exp):
        segs = e[1]
        if len(segs) == 1 and segs[0] in env:
            return env[segs[0]]
        if segs[-1] in self.consts and (len(segs) == 1 or segs[-2] in ("Fen",)):
            return self.consts[segs[-1]]
        if segs in (["true"], ["false"]):
            return segs[0], BOOL
        if segs == ["None"]:
            return "none", ("Option", exp[1] if exp[0] == "Option" else HOLE)
        fail(f"line {e[3]}: name `{'::'.join(segs)}` not known")

    def ex_field(self, a, t, f):
        if t[0] == "tuple" and f.isdigit() and int(f) < len(t) - 1:
            n = len(t) - 1
            i = int(f)
            if n == 2:
                return f"{a}.{i + 1}", t[i + 1]
            fail("tuples of more than two fields not supported")
        if t == MOVESET and f == "0":
            return a, ("Array", MOVERESULT)
        if t[0] in self.structs:
            lean, fields = self.structs[t[0]]
            for fn, ft in fields:
                if fn == f:
                    return f"{a}.f_{f}", ft
        fail(f"field .{f} of {t} not supported")

    def ex_binary(self, e, env, out, ctx):
        op = e[1]
        a, ta = self.ex(e[2], env, out, ctx)
        b, tb = self.ex(e[3], env, out, ctx, ta)
        if op == "+" and ta == STROFF and tb == STROFF and e[3][0] == "int":
            return f"({a} + {b})", STROFF
        if op in (">", "<", ">=", "<=", "==", "!=") and ta == USIZE and tb == USIZE:
            lop = {"==": "==", "!=": "!=", ">": ">", "<": "<", ">=": "≥", "<=": "≤"}[op]
            if op in ("==", "!="):
                return f"({a} {lop} {b})", BOOL
            return f"(decide ({a} {lop} {b}))", BOOL
        fail(f"operator `{op}` on {ta}, {tb} not supported")

    def seam_arg(self, ent, ctx):
        if ent.get("seam"):
            if not ctx.seam:
                fail(f"call of `{ent['lean']}` (needs the regex seam) from a function without it")
            return "rx "
        return ""

    def call_entry(self, ent, atoms, out, ctx):
        """call of a translated / extern function; returns (atom, type)"""
        args = " ".join(atoms)
        mode = ent.get("mode", "panics")
        term = f"{ent['lean']} {self.seam_arg(ent, ctx)}{args}".rstrip()
        if mode == "tres_result":
            term = f"TRes.toResult ({term})"
        elif mode == "tres":
            term = f"TRes.toPanics ({term})"
        return self.bind(out, term, True), ent["ret"]

    def ex_call(self, e, env, out, ctx, exp):
        f, args, ln = e[1], e[2], e[3]
        if f[0] != "path":
            self.err(ln, "call of a computed function not supported")
        segs, gens = f[1], f[2]
        name = segs[-1]
        if segs == ["Some"] and len(args) == 1:
            a, t = self.ex(args[0], env, out, ctx, exp[1] if exp[0] == "Option" else HOLE)
            return f"(some {a})", ("Option", t)
        if segs in (["Ok"], ["Err"]) and len(args) == 1:
            want = exp if exp[0] == "Result" else ("Result", HOLE, HOLE)
            if name == "Ok":
                a, t = self.ex(args[0], env, out, ctx, want[1])
                return f"(Except.ok {a})", ("Result", unify(want[1], t, "Ok"), want[2])
            a, t = self.ex(args[0], env, out, ctx, want[2])
            return f"(Except.error {a})", ("Result", want[1], unify(want[2], t, "Err"))
        if len(segs) >= 2 and segs[-2] in self.enums and name in self.enums[segs[-2]][1]:
            lean, variants = self.enums[segs[-2]]
            tys = variants[name]
            if len(tys) != len(args):
                self.err(ln, f"{segs[-2]}::{name}: arity")
            atoms = []
            for x, t in zip(args, tys):
                a, ta = self.ex(x, env, out, ctx, t)
                unify(ta, t, f"{segs[-2]}::{name}")
                atoms.append(a)
            return f"({lean}.{name} {' '.join(atoms)})".replace(" )", ")"), (segs[-2],)
        if segs == ["BTreeMap", "new"] and not args:
            return "BTreeMap.new", unify(("BTreeMap", HOLE, HOLE), exp, "BTreeMap::new")
        # free generic `try_from_notation::<_, F>(s)`
        if name == "try_from_notation" and gens:
            g = list(gens.values())[0]
            if len(g) != 2 or g[1][0] not in ("San", "Fen"):
                self.err(ln, "try_from_notation::<_, F>: F must be San or Fen")
            ent = EXTERNS[("try_from_notation", g[1][0])]
        else:
            ty = segs[-2] if len(segs) >= 2 else None
            ent = self.funcs.get((ty, name)) or EXTERNS.get((ty, name))
            if ent is None:
                self.err(ln, f"call of `{'::'.join(segs)}` not supported (unknown callee)")
            if ent["params"] and ent["params"][0][0] == "self":
                self.err(ln, f"`{'::'.join(segs)}` is a method")
        ptys = [p[1] for p in ent["params"]]
        if len(ptys) != len(args):
            self.err(ln, f"`{'::'.join(segs)}`: arity")
        atoms = []
        for x, t in zip(args, ptys):
            a, ta = self.ex(x, env, out, ctx, t)
            unify(ta, t, f"argument of {'::'.join(segs)}")
            atoms.append(a)
        return self.call_entry(ent, atoms, out, ctx)

    def closure(self, e, ptys, out, env, ctx_outer, ret_ty, muts=(), unit_ret=False):
        """emit `(fun p.. => do …)` as a multi-line term; returns the list of lines' head and the sub-output"""
        if e[0] != "closure":
            fail("expected a closure")
        params, body = e[1], e[2]
        if len(params) != len(ptys):
            fail(f"line {e[3]}: closure arity")
        env2 = dict(env)
        names = []
        for p, t in zip(params, ptys):
            if p[0] != "pbind":
                fail(f"line {e[3]}: closure parameter pattern not supported")
            names.append(p[1])
            env2[p[1]] = (p[1], t)
        sub = out.sub()
        ctx = Ctx(ret_ty, muts, seam=ctx_outer.seam, unit_ret=unit_ret)
        self.tail(body, env2, sub, ctx)
        return "(fun " + " ".join(names) + " => do", sub

    def adaptor(self, out, head, closure_head, sub, extra=""):
        v = out.fresh()
        out.emit(f"let {v} := {head} {closure_head}")
        out.splice(sub, ")" + extra)
        return v

    def ex_mcall(self, e, env, out, ctx, exp):
        recv, name, args, gen, ln = e[1], e[2], e[3], e[4], e[5]
        self_ln = ln
        # `PLACE.entry(k).or_insert_with(F).extend(xs)` on a BTreeMap place (value-returning form; used by `append`)
        a, t = self.ex(recv, env, out, ctx)
        k = t[0]
        n = len(args)
        if k == "str":
            if name == "split_whitespace" and n == 0:
                return f"(Iter.ofList (str.split_whitespace {a}))", ("Iter", STR)
            if name == "ends_with" and n == 1 and args[0][0] == "char":
                return f"(str.ends_with_char {a} {char_lit(args[0][1])})", BOOL
            if name == "starts_with" and n == 1 and args[0][0] == "str":
                return f"(str.starts_with {a} {chars_lit(args[0][1])})", BOOL
            if name == "find" and n == 1 and args[0][0] == "char":
                return f"(str.find_char {a} {char_lit(args[0][1])})", ("Option", STROFF)
            if name == "to_string" and n == 0:
                return a, STR
            if name in ("trim", "trim_start") and n == 0:
                return f"(str.{name} {a})", STR
            if name == "split" and n == 1 and args[0][0] == "str" and args[0][1] != "":
                return f"(Iter.ofList (str.split {a} {chars_lit(args[0][1])}))", ("Iter", STR)
        if k == "Iter":
            it = t[1]
            if name == "filter" and n == 1:
                h, sub = self.closure(args[0], [it], out, env, ctx, BOOL)
                return self.adaptor(out, "Iter.filter", h, sub, f" {a}"), t
            if name == "map" and n == 1:
                box = [HOLE]
                h, sub = self.closure(args[0], [it], out, env, ctx, box)
                return self.adaptor(out, "Iter.map", h, sub, f" {a}"), ("Iter", box[0])
            if name == "scan" and n == 2:
                s0, ts = self.ex(args[0], env, out, ctx)
                item = exp[1] if exp[0] == "Iter" else HOLE
                box = [("Option", item)]
                h, sub = self.closure(args[1], [ts, it], out, env, ctx, box, muts=[args[1][1][0][1]])
                if box[0][0] != "Option":
                    self.err(ln, "scan closure must return an Option")
                return self.adaptor(out, "Iter.scan", h, sub, f" {s0} {a}"), ("Iter", box[0][1])
            if name == "take" and n == 1:
                c, tc = self.ex(args[0], env, out, ctx)
                if tc != USIZE:
                    self.err(ln, "take: usize expected")
                return f"(Iter.take (UInt64.toNat {c}) {a})", t
            if name == "find" and n == 1:
                h, sub = self.closure(args[0], [it], out, env, ctx, BOOL)
                v = out.fresh()
                out.emit(f"let {v} ← Iter.find {h}")
                out.splice(sub, f") {a}")
                return v, ("Option", it)
            if name == "collect" and n == 0 and gen == "Result<Vec<_>,_>" and it[0] == "Result":
                return self.bind(out, f"Iter.collect_result {a}", True), ("Result", ("Vec", it[1]), it[2])
            if name == "try_fold" and n == 2:
                s0, ts = self.ex(args[0], env, out, ctx)
                rt = ("Result", ts, ctx.ret_ty[2] if ctx.ret_ty[0] == "Result" else HOLE)
                h, sub = self.closure(args[1], [ts, it], out, env, ctx, rt)
                v = out.fresh()
                out.emit(f"let {v} ← Iter.try_fold {h}")
                out.splice(sub, f") {s0} {a}")
                return v, rt
        if k == "Array" and name == "iter" and n == 0:
            return f"(Iter.ofList (Array.toList {a}))", ("Iter", t[1])
        if k == "Vec" and name in ("iter", "into_iter") and n == 0:
            return f"(Iter.ofList {a})", ("Iter", t[1])
        if k == "Option":
            if name == "cloned" and n == 0:
                return a, t
            if name == "and_then" and n == 1:
                box = [exp if exp[0] == "Option" else ("Option", HOLE)]
                h, sub = self.closure(args[0], [t[1]], out, env, ctx, box)
                v = out.fresh()
                out.emit(f"let {v} ← (match {a} with")
                out.emit(f"  | none => pure none")
                out.emit(f"  | some x_ => {h}")
                out.splice(sub, ") x_)")
                return v, box[0]
        if k == "Result":
            if name == "unwrap" and n == 0:
                return self.bind(out, f"Result.unwrap {a}", True), t[1]
            if name == "map_err" and n == 1 and args[0][0] == "path":
                segs = args[0][1]
                if len(segs) == 2 and segs[0] in self.enums and segs[1] in self.enums[segs[0]][1]:
                    lean, variants = self.enums[segs[0]]
                    if len(variants[segs[1]]) == 1:
                        unify(variants[segs[1]][0], t[2], "map_err")
                        return f"(Except.mapError {lean}.{segs[1]} {a})", ("Result", t[1], (segs[0],))
        if k == "HashSet" and name == "len" and n == 0:
            return f"(HashSet.len {a})", USIZE
        if k == "BTreeMap":
            if name == "len" and n == 0:
                return f"(BTreeMap.len {a})", USIZE
            if name == "get" and n == 1:
                b, tb = self.ex(args[0], env, out, ctx)
                unify(tb, t[1], "BTreeMap::get")
                return f"(BTreeMap.get {a} {b})", ("Option", t[2])
        # methods of translated / extern types
        ent = self.funcs.get((k, name)) or EXTERNS.get((k, name))
        if ent is not None and not ent.get("mutself"):
            ptys = [p[1] for p in ent["params"]]
            if len(ptys) != n + 1:
                self.err(ln, f"method {k}::{name}: arity")
            atoms = [a]
            for x, pt in zip(args, ptys[1:]):
                b, tb = self.ex(x, env, out, ctx, pt)
                unify(tb, pt, f"argument of {k}::{name}")
                atoms.append(b)
            return self.call_entry(ent, atoms, out, ctx)
        self.err(self_ln, f"method `.{name}(..)` on {t} not supported")

    def ex_branching(self, e, env, out, ctx, exp):
        """`if` / `if let` / `match` / block as a VALUE (not in tail position): a parenthesised term; no early exit inside"""
        box = [exp]
        inner = Ctx(box, muts=(), seam=ctx.seam)
        inner.value_only = True
        sub = out.sub()
        self.tail(e, env, sub, inner)
        v = out.fresh()
        out.emit(f"let {v} ← (do")
        out.splice(sub, ")")
        return v, box[0]

    # ---- tail position: emit the value of `e` as the result of the enclosing fn / closure (ctx)
    def ret_ty(self, ctx):
        return ctx.ret_ty[0] if isinstance(ctx.ret_ty, list) else ctx.ret_ty

    def set_ret(self, ctx, t, what):
        if isinstance(ctx.ret_ty, list):
            ctx.ret_ty[0] = unify(ctx.ret_ty[0], t, what)
        else:
            unify(ctx.ret_ty, t, what)

    def expctx(self, ctx):
        """a Ctx whose ret_ty is a plain type (for `?` / leave inside expressions)"""
        if isinstance(ctx.ret_ty, list):
            c = Ctx(ctx.ret_ty[0], ctx.muts, ctx.loop_err, ctx.seam, ctx.unit_ret)
            return c
        return ctx

    def tail(self, e, env, out, ctx):
        k = e[0]
        if k == "block":
            env = dict(env)
            for s in e[1]:
                env = self.stmt(s, env, out, ctx)
            if e[2] is None:
                if ctx.unit_ret or self.ret_ty(ctx) == UNIT:
                    out.emit(self.leave(ctx, env, "()"))
                    return
                fail("block without a tail expression in value position")
            return self.tail(e[2], env, out, ctx)
        if k == "return":
            if getattr(ctx, "value_only", False) or ctx.loop_err:
                fail("`return` inside a value block / loop body not supported")
            return self.tail(e[1], env, out, ctx)
        if k == "if":
            c, tc = self.ex(e[1], env, out, self.expctx(ctx))
            if tc != BOOL or e[3] is None:
                fail(f"line {e[4]}: `if` needs a bool condition and an else branch here")
            out.emit(f"if {c} then do")
            s1 = out.sub(2)
            self.tail(e[2], env, s1, ctx)
            out.lines.extend(s1.lines)
            out.emit("else do")
            s2 = out.sub(2)
            self.tail(e[3], env, s2, ctx)
            out.lines.extend(s2.lines)
            return
        if k == "iflet":
            pat, scrut, then, els, ln = e[1:6]
            a, t = self.ex(scrut, env, out, self.expctx(ctx))
            if t[0] != "Option" or pat[0] != "pctor" or pat[1] != ["Some"] or pat[2][0][0] != "pbind" or els is None:
                fail(f"line {ln}: only `if let Some(x) = <Option> {{..}} else {{..}}` supported")
            x = pat[2][0][1]
            out.emit(f"match {a} with")
            out.emit(f"| some {x} => do")
            s1 = out.sub(2)
            env1 = dict(env)
            env1[x] = (x, t[1])
            self.tail(then, env1, s1, ctx)
            out.lines.extend(s1.lines)
            out.emit("| none => do")
            s2 = out.sub(2)
            self.tail(els, env, s2, ctx)
            out.lines.extend(s2.lines)
            return
        if k == "match":
            return self.tail_match(e, env, out, ctx)
        a, t = self.ex(e, env, out, self.expctx(ctx), self.ret_ty(ctx))
        self.set_ret(ctx, t, "result")
        out.emit(self.leave(ctx, env, a))

    def tail_match(self, e, env, out, ctx):
        scrut, arms, ln = e[1], e[2], e[3]
        a, t = self.ex(scrut, env, out, self.expctx(ctx))
        if t == STR:
            first = True
            for i, (pat, body) in enumerate(arms):
                last = i == len(arms) - 1
                if pat[0] == "plit" and pat[1][0] == "str" and not last:
                    out.emit(f"{'if' if first else 'else if'} {a} == {chars_lit(pat[1][1])} then do")
                elif pat[0] == "pwild" and last and not first:
                    out.emit("else do")
                else:
                    fail(f"line {ln}: match on a str: string-literal arms, then `_`")
                first = False
                s = out.sub(2)
                self.tail(body, env, s, ctx)
                out.lines.extend(s.lines)
            return
        if t[0] == "Result":
            seen = set()
            out.emit(f"match {a} with")
            for pat, body in arms:
                if pat[0] != "pctor" or pat[1] not in (["Ok"], ["Err"]) or len(pat[2]) != 1 or pat[1][0] in seen:
                    fail(f"line {ln}: match on a Result: arms `Ok(x)` and `Err(..)`")
                seen.add(pat[1][0])
                inner, env1 = pat[2][0], dict(env)
                ty = t[1] if pat[1] == ["Ok"] else t[2]
                if inner[0] == "pbind":
                    env1[inner[1]] = (inner[1], ty)
                    b = inner[1]
                elif inner[0] in ("prest", "pwild"):
                    b = "_"
                else:
                    fail(f"line {ln}: pattern inside Ok/Err not supported")
                out.emit(f"| {'Except.ok' if pat[1] == ['Ok'] else 'Except.error'} {b} => do")
                s = out.sub(2)
                self.tail(body, env1, s, ctx)
                out.lines.extend(s.lines)
            if seen != {"Ok", "Err"}:
                fail(f"line {ln}: match on a Result must have both arms")
            return
        fail(f"line {ln}: match on {t} not supported")

    # ---- statements; return the new environment
    def stmt(self, s, env, out, ctx):
        ectx = self.expctx(ctx)
        if s[0] == "let":
            pat, ty, init, ln = s[1:5]
            a, t = self.ex(init, env, out, ectx)
            env = dict(env)
            if pat[0] == "pbind":
                if a != pat[1]:
                    out.emit(f"let {pat[1]} := {a}")
                env[pat[1]] = (pat[1], t)
                return env
            fail(f"line {ln}: `let` pattern not supported")
        if s[0] == "letelse":
            pat, init, els, ln = s[1:5]
            a, t = self.ex(init, env, out, ectx)
            if t[0] != "Option" or pat[0] != "pctor" or pat[1] != ["Some"] or pat[2][0][0] != "pbind":
                fail(f"line {ln}: only `let Some(x) = <Option> else {{ .. }}` supported")
            if els[2] is not None or not els[1] or els[1][-1][0] != "expr" or els[1][-1][1][0] != "return":
                fail(f"line {ln}: the `else` block must end with `return ..;`")
            x = pat[2][0][1]
            out.emit(f"match {a} with")
            out.emit("| none => do")
            sub = out.sub(2)
            env2 = dict(env)
            for st in els[1][:-1]:
                env2 = self.stmt(st, env2, sub, ctx)
            self.tail(els[1][-1][1], env2, sub, ctx)
            out.lines.extend(sub.lines)
            out.emit(f"| some {x} => do")
            out.ind += 2
            env = dict(env)
            env[x] = (x, t[1])
            return env
        if s[0] == "expr":
            e, ln = s[1], s[2]
            k = e[0]
            if k == "println":
                return env
            if k == "for":
                return self.stmt_for(e, env, out, ctx)
            if k == "assert":
                a, t = self.ex(e[1], env, out, ectx)
                if t != BOOL:
                    fail(f"line {ln}: assert! needs a bool")
                out.emit(f"let _ ← Panics.assert {a}")
                return env
            if k == "block":
                if e[2] is not None:
                    fail(f"line {ln}: a nested block statement with a value not supported")
                inner = dict(env)
                for st in e[1]:
                    if st[0] in ("let", "letelse"):
                        if any(n_ in env for n_ in pat_names(st[1])):
                            fail(f"line {ln}: a nested block re-declares an outer name")
                    inner = self.stmt(st, inner, out, ctx)
                return env
            if k == "assign":
                op, lhs, rhs = e[1], e[2], e[3]
                if op != "=" or lhs[0] != "path" or len(lhs[1]) != 1 or lhs[1][0] not in env:
                    fail(f"line {ln}: assignment form not supported")
                x = lhs[1][0]
                a, t = self.ex(rhs, env, out, ectx, env[x][1])
                unify(t, env[x][1], f"assignment to {x}")
                out.emit(f"let {x} := {a}")
                return env
            if k == "mcall":
                return self.stmt_mcall(e, env, out, ctx)
            fail(f"line {ln}: statement `{k}` not supported")
        fail(f"statement {s[0]} not supported")

    def stmt_mcall(self, e, env, out, ctx):
        recv, name, args, gen, ln = e[1], e[2], e[3], e[4], e[5]
        ectx = self.expctx(ctx)
        # PLACE.entry(k).or_insert_with(HashSet::new).extend(xs);
        if (name == "extend" and recv[0] == "mcall" and recv[2] == "or_insert_with" and recv[1][0] == "mcall"
                and recv[1][2] == "entry" and len(args) == 1 and len(recv[3]) == 1 and len(recv[1][3]) == 1):
            place = recv[1][1]
            if place[0] != "field" or place[1][0] != "path" or place[1][1] != ["self"] or "self" not in ctx.muts:
                fail(f"line {ln}: entry(..) only on a field of `&mut self`")
            a, t = self.ex(place, env, out, ectx)
            if t[0] != "BTreeMap" or t[2][0] != "HashSet":
                fail(f"line {ln}: entry(..).or_insert_with(..).extend(..) only on a BTreeMap<_, HashSet<_>>")
            d = recv[3][0]
            if d[0] != "path" or d[1] != ["HashSet", "new"]:
                fail(f"line {ln}: or_insert_with: only `HashSet::new`")
            kk, tk = self.ex(recv[1][3][0], env, out, ectx)
            unify(tk, t[1], "entry key")
            xs, tx = self.ex(args[0], env, out, ectx)
            unify(tx, ("Vec", t[2][1]), "extend argument")
            sname = env["self"][0]
            out.emit(f"let {sname} := {{ {sname} with f_{place[2]} := BTreeMap.entry_or_insert_with {a} {kk} "
                     f"(fun _ => HashSet.new) (fun v_ => HashSet.extend v_ {xs}) }}")
            return env
        # x.m(args); for a `&mut self` method of a translated type
        if recv[0] == "path" and len(recv[1]) == 1 and recv[1][0] in env:
            x = recv[1][0]
            t = env[x][1]
            ent = self.funcs.get((t[0], name))
            if ent is not None and ent.get("mutself"):
                ptys = [p[1] for p in ent["params"]]
                if len(ptys) != len(args) + 1:
                    fail(f"line {ln}: arity")
                atoms = [env[x][0]]
                for y, pt in zip(args, ptys[1:]):
                    b, tb = self.ex(y, env, out, ectx, pt)
                    unify(tb, pt, f"argument of {name}")
                    atoms.append(b)
                out.emit(f"let {x} ← {ent['lean']} {' '.join(atoms)}")
                return env
        fail(f"line {ln}: method-call statement `.{name}(..)` not supported")

    def only_println(self, b):
        return b[0] == "block" and b[2] is None and all(st[0] == "expr" and st[1][0] == "println" for st in b[1])

    def has_try(self, e):
        if isinstance(e, tuple):
            if e and e[0] == "try":
                return True
            if e and e[0] == "closure":
                return False
            return any(self.has_try(x) for x in e)
        if isinstance(e, list):
            return any(self.has_try(x) for x in e)
        return False

    def assigned(self, b, env, acc):
        """outer variables assigned by the statements of block `b`"""
        for st in b[1]:
            if st[0] == "expr":
                e = st[1]
                if e[0] == "assign" and e[2][0] == "path" and e[2][1][0] in env and e[2][1][0] not in acc:
                    acc.append(e[2][1][0])
                if e[0] == "mcall" and e[1][0] == "path" and e[1][1][0] in env:
                    ent = self.funcs.get((env[e[1][1][0]][1][0], e[2]))
                    if ent is not None and ent.get("mutself") and e[1][1][0] not in acc:
                        acc.append(e[1][1][0])
                if e[0] == "block":
                    self.assigned(e, env, acc)
        return acc

    def stmt_for(self, e, env, out, ctx):
        pat, it, body, ln = e[1], e[2], e[3], e[4]
        if body[2] is not None and body[2][0] == "block" and body[2][2] is None:
            body = ("block", body[1] + [("expr", body[2], ln)], None)
        if self.only_println(body):
            return env
        ectx = self.expctx(ctx)
        if it[0] == "mcall" and it[2] in ("into_iter", "iter") and not it[3]:
            it = it[1]
        a, t = self.ex(it, env, out, ectx)
        if t[0] != "Vec":
            fail(f"line {ln}: `for` only over a Vec / slice")
        vs = self.assigned(body, env, [])
        if len(vs) != 1:
            fail(f"line {ln}: a `for` body must assign exactly one outer variable (found {vs})")
        x = vs[0]
        env2 = dict(env)
        if pat[0] == "pbind":
            lp = pat[1]
            env2[pat[1]] = (pat[1], t[1])
        elif pat[0] == "ptuple" and t[1][0] == "tuple" and len(pat[1]) == len(t[1]) - 1 and all(p[0] == "pbind" for p in pat[1]):
            lp = "(" + ", ".join(p[1] for p in pat[1]) + ")"
            for p, pt in zip(pat[1], t[1][1:]):
                env2[p[1]] = (p[1], pt)
        else:
            fail(f"line {ln}: `for` pattern not supported")
        if body[2] is not None:
            fail(f"line {ln}: `for` body with a tail expression")
        sub = out.sub()
        if self.has_try(body):
            rt = self.ret_ty(ctx)
            if rt[0] != "Result":
                fail(f"line {ln}: `?` in a loop of a function that does not return a Result")
            lctx = Ctx(("Result", env[x][1], rt[2]), loop_err=True, seam=ctx.seam)
            envb = env2
            for st in body[1]:
                envb = self.stmt(st, envb, sub, lctx)
            sub.emit(f"pure (Except.ok {x})")
            v = out.fresh()
            out.emit(f"let {v} ← for_try (fun {x} {lp} => do")
            out.splice(sub, f") {x} {a}")
            out.emit(f"match {v} with")
            out.emit(f"| Except.error e_ => {self.leave(ectx, env, 'Except.error e_')}")
            out.emit(f"| Except.ok {x} => do")
            out.ind += 2
            return env
        lctx = Ctx(env[x][1], loop_err=True, seam=ctx.seam)
        envb = env2
        for st in body[1]:
            envb = self.stmt(st, envb, sub, lctx)
        sub.emit(f"pure {x}")
        out.emit(f"let {x} ← List.foldlM (fun {x} {lp} => do")
        out.splice(sub, f") {x} {a}")
        return env

    # ---- functions
    def frame(self, text, fname):
        if re.search(r'"[^"\n]*//[^"\n]*"', text):
            fail(f"{fname}: a string literal contains `//`")
        text = re.sub(r"//[^\n]*", "", text)
        text = " ".join(text.split())
        notes = []
        for old, new, what in FRAMES:
            old = " ".join(old.split())
            if text.count(old) != 1:
                fail(f"{fname}: the I/O frame of generate_book_data changed: `{old[:70]}…` does not occur exactly once")
            text = text.replace(old, new)
            notes.append(what)
        return text, notes

    def emit_fn(self, cont, raw, name, ent, text):
        self.cur_file = cont["file"]
        self.cur_self = cont["self"]
        sig = " ".join(t.s for t in raw.sig)
        if sig != " ".join(H(ent["sig"])):
            fail(f"{cont['file']}:{raw.line}: signature of `{name}` changed: `{sig}`")
        if any(a.startswith("cfg") for a in raw.attrs):
            fail(f"{cont['file']}:{raw.line}: `{name}` is cfg-gated")
        toks = raw.body
        notes = []
        if ent.get("framed"):
            o, c = raw.body[0], raw.body[-1]
            lines = text.split("\n")
            # body text: from the line of `{` to the line of the closing `}`
            src = "\n".join(lines[raw.line - 1:c.line])
            src = src[src.index("{"):src.rindex("}") + 1]
            ftext, notes = self.frame(src, cont["file"])
            toks = lex(ftext, cont["file"])
        p = BP(toks, None, cont["file"])
        body = p.block()
        if p.i != len(toks):
            fail(f"{cont['file']}:{raw.line}: trailing tokens after the body of `{name}`")
        env = {}
        params = []
        seam = bool(ent.get("seam"))
        if seam:
            params.append("(rx : RegexCaptures)")
        for pn, pt in ent["params"]:
            ln = "self_" if pn == "self" else R.mangle(pn)
            env[pn] = (ln, pt)
            params.append(f"({ln} : {lty(pt)})")
        counter = [0]
        out = Out(2, counter)
        mutself = bool(ent.get("mutself"))
        ctx = Ctx(ent["ret"], muts=["self"] if mutself else [], seam=seam, unit_ret=mutself)
        self.tail(body, env, out, ctx)
        rty = lty(BOOK if False else ent["params"][0][1]) if mutself else lty(ent["ret"])
        head = f"def {ent['lean']} {' '.join(params)}".rstrip() + f" : Panics {rty} := do"
        doc = f"/-- `{name}` ({cont['file']}:{raw.line})"
        for n_ in notes:
            doc += f"\n  FRAME: {n_}"
        doc += " -/"
        return doc + "\n" + head + "\n" + "\n".join(out.lines) + "\n"

    def const_decl(self, cont, name, cdef, ctoks, line):
        decl = " ".join(t.s for t in ctoks)
        m = re.fullmatch(re.escape(cdef["decl"]) + r" = (.*)", decl)
        if not m:
            fail(f"{cont['file']}:{line}: const {name}: declaration changed (`{decl}`)")
        v = m.group(1)
        if cdef["ty"] == USIZE and re.fullmatch(r"\d+", v):
            val = f"{v}"
            lt = "UInt64"
        elif cdef["ty"] == STR and re.fullmatch(r'"(?:[^"\\])*"', v):
            val = chars_lit(v[1:-1])
            lt = "List Char"
        else:
            fail(f"{cont['file']}:{line}: const {name}: initialiser `{v}` not supported")
        self.consts[name] = (cdef["lean"], cdef["ty"])
        return f"/-- `const {name}` ({cont['file']}:{line}) -/\ndef {cdef['lean']} : {lt} := {val}\n"

    def run(self):
        for rel, pat, what in TEXT_CHECKS:
            text, _ = self.load(rel)
            if len(re.findall(pat, text)) != 1:
                fail(f"{rel}: textual check failed: {what}")
        for key, ent in EXTERNS.items():
            rel, pat = ent["rust"]
            text, _ = self.load(rel)
            if len(re.findall(pat, text)) != 1:
                fail(f"{rel}: signature of extern `{ent['lean']}` changed")
            gf, head = ent["head"]
            with open(os.path.join(VERIF, "lean", "Wee", "Gen", gf)) as f:
                if head not in f.read().split("\n"):
                    fail(f"Gen/{gf}: head of `{ent['lean']}` is not `{head}`")
        parts = []
        for d in ENUM_DECLS:
            parts.append(self.enum_decl(d))
        for d in STRUCTS:
            parts.append(self.struct_decl(d))
        # registry first (calls may go forward)
        for cont in CONTAINERS:
            sname = cont["self"][0] if cont["self"] else None
            for name, ent in cont["fns"].items():
                self.funcs[(sname, name)] = ent
        self.funcs[("State", "default")] = CONTAINERS[1]["fns"]["default"]
        for cont in CONTAINERS:
            text, toks = self.load(cont["file"])
            lo, hi = 0, len(toks)
            for hd in cont["path"]:
                lo, hi = find_container(toks, lo, hi, hd, cont["file"])
            fns, consts = T.scan_items_tolerant(toks, lo, hi, cont["file"])
            cdefs = cont.get("consts", {})
            cseen = set()
            for name, ctoks, line, attrs in consts:
                if name in cdefs:
                    cseen.add(name)
                    if cdefs[name] is not None:
                        parts.insert(0, self.const_decl(cont, name, cdefs[name], ctoks, line))
                elif cont["complete"] and cdefs:
                    fail(f"{cont['file']}:{line}: new const `{name}`")
            for name in cdefs:
                if name not in cseen:
                    fail(f"{cont['file']}: const `{name}` not found")
            seen = set()
            for raw in fns:
                if raw.name in cont["fns"]:
                    if raw.name in seen:
                        fail(f"{cont['file']}: two functions named {raw.name}")
                    seen.add(raw.name)
                    parts.append(self.emit_fn(cont, raw, raw.name, cont["fns"][raw.name], text))
                elif raw.name in cont.get("skip", {}):
                    continue
                elif cont["complete"]:
                    fail(f"{cont['file']}:{raw.line}: new function `{raw.name}` in a block that is translated completely")
            for name in cont["fns"]:
                if name not in seen:
                    fail(f"{cont['file']}: function `{name}` not found")
        # order: consts were inserted in front, before the inductives -- fine (they do not depend on them)
        srcs = sorted({c["file"] for c in CONTAINERS} | {d["file"] for d in STRUCTS + ENUM_DECLS})
        head = (f"-- GENERATED by tools/rs2lean_book.py from {', '.join(srcs)}; do not edit.\n"
                "import Wee.Gen.TextFns\n"
                "/-!\n# Lean definitions translated from the Rust source text, stage 4b (the opening book)\n\n"
                "Every `def` / `structure` / `inductive` below the prelude is produced from the text of one Rust item; the prelude is\n"
                "the fixed, trusted vocabulary (lazy iterators as `Iter`, strings, `HashSet`, `BTreeMap`).\n"
                "`Wee/Proofs/BookFnsBridge.lean` proves these functions equal to the hand-written model `Wee/Model/Book.lean`.\n-/\n"
                "set_option linter.unusedVariables false\nnamespace Wee.GenFns\nopen Wee\n")
        return head + PRELUDE + "\n/-! ## Translated items -/\n\n" + "\n".join(parts) + "\nend Wee.GenFns\n"


def main():
    ap = argparse.ArgumentParser()
    ap.add_argument("--repo", default=os.environ.get("WEE_REPO", "/repo"))
    ap.add_argument("--out", default=DEFAULT_OUT)
    ap.add_argument("--check", action="store_true", help="do not write; exit 1 if the file would change")
    a = ap.parse_args()
    try:
        text = Book(a.repo).run()
    except TieBroken as ex:
        print(f"TIE-BROKEN {TAG}: {ex}")
        sys.exit(2)
    old = None
    if os.path.exists(a.out):
        with open(a.out) as f:
            old = f.read()
    changed = old != text
    if a.check:
        print('{"changed": %s}' % ("true" if changed else "false"))
        sys.exit(1 if changed else 0)
    if changed:
        os.makedirs(os.path.dirname(a.out), exist_ok=True)
        with open(a.out, "w") as f:
            f.write(text)
    print('{"changed": [%s]}' % ('"BookFns.lean"' if changed else ""))


if __name__ == "__main__":
    main()
