#!/usr/bin/env python3
"""rs2lean_uci.py -- stage 4c of tie (a): the UCI COMMAND LOOP `Client::exec` of `weechess-engine/src/uci.rs` (C07, C14, C18).

Re-reads the Rust source text of `uci.rs` and translates `Client::exec` into `lean/Wee/Gen/UciFns.lean` (namespace
`Wee.GenFns`): `Client.exec.body` (one pass of the `while let Some(Ok(cmd)) = input.next()` loop: tokenising, the `match`
on the command word, every arm) and `Client.exec` (the initialisers, the loop over the input lines, the final join).
`Wee/Proofs/UciFnsBridge.lean` proves that the generated step refines `Wee.Uci.step` of the hand model `Wee/Model/Uci.lean`
and that a whole run refines the model's fold over command lines.

The earlier stages are imported as modules (lexer pieces / item finder of `rs2lean`, the body parser of `rs2lean_text` as
extended by `rs2lean_book`); this tool has its OWN lexer (the stage-1 token set plus float literals such as `1000f64`, `4.0`),
extends the parser (`while let`, `continue`, `println!` / `eprintln!` with arguments, `#[cfg(..)]` on a statement, `a..b`,
`x[i]`, `x[a..]`) and has its own typed emitter.  Functions of stages 3d / 4b are called BY THEIR GENERATED NAME
(`EXTERNS`: Rust signature and the head of the Lean definition in the committed `Gen/*.lean` are checked textually).

TRUSTED PART 1 -- semantics chosen by this tool
  * translated code lives in `Panics` (= `Option`, `none` = panic).  A `Result` is the VALUE `Except ε α`; a stage-3d function
    (`TRes`) of Rust type `Result<T, ()>` is read through `TRes.toResult`, another one through `TRes.toPanics`.
  * expressions are put in A-normal form in Rust's evaluation order.  A statement without early exit yields the tuple of the outer
    variables it assigns; a statement containing `continue` / `break` yields `Ctl.next <assigned variables> | Ctl.exit <flow>`
    followed by ONE `match`; a loop body yields `Flow.cont | Flow.brk` of the loop's variables.
  * `while let Some(x) = it.next() { .. }` over a slice iterator: `while_let_next` (the iterator is the list of the items not yet
    consumed; the body may consume more; fuel = `List.length` + 1 is never exhausted because every pass consumes an item).
  * THREADS AND I/O ARE SEAMS (see `SEAMS` below and the prelude): stdout / stderr are the event log of the value `io : World`
    threaded through the code like a `&mut` variable; `println!` appends `UEvent.stdout <line>` (arguments evaluated through
    translated `Display` impls or named seam functions of `UciSeams`); `eprintln!` appends `UEvent.stderr <format literal>` WITHOUT
    evaluating its arguments; stdin is the list of the lines read before EOF / the first read error; `Search::spawn` appends
    `UEvent.spawn <its arguments>` and returns a handle holding what the join will produce (next entry of the unknown stream
    `World.outcomes`); `Search::wait_cancel` appends `UEvent.wait_cancel` and returns that value; `rand::thread_rng()` is an unknown
    stream of words; `OpeningBook::try_default().unwrap()` is the parameter `book`; `State::by_performing_moves` is the named seam
    `UciSeams.by_performing_moves`.
TRUSTED PART 2 -- the tables `PRELUDE`, `EXTERNS`, `SEAMS` (texts that must be unchanged), `FRAME`, `TEXT_CHECKS`.

Anything outside the subset: `TIE-BROKEN rs2lean_uci: <reason>`, exit 2.
Usage: rs2lean_uci.py [--repo DIR] [--out FILE] [--check]
"""
import argparse
import hashlib
import os
import re
import sys

sys.path.insert(0, os.path.dirname(os.path.abspath(__file__)))
import rs2lean as R             # noqa: E402
import rs2lean_text as T        # noqa: E402
import rs2lean_book as B        # noqa: E402
from rs2lean import TieBroken, fail, match_close, find_container   # noqa: E402

TAG = "rs2lean_uci"
VERIF = os.path.dirname(os.path.dirname(os.path.abspath(__file__)))
DEFAULT_OUT = os.path.join(VERIF, "lean", "Wee", "Gen", "UciFns.lean")
UCI = "weechess-engine/src/uci.rs"
STATE = "weechess-core/src/state.rs"
EBOOK = "weechess-engine/src/book.rs"
NOTATION = "weechess-core/src/notation.rs"

# ----------------------------------------------------------------------------------------------------------------------
# lexer: the stage-1 token set plus float literals (own copy; the shared modules are not edited)
# ----------------------------------------------------------------------------------------------------------------------
TOK = re.compile(r"""
  (?P<ws>\s+)
 |(?P<lc>//[^\n]*)
 |(?P<bc>/\*.*?\*/)
 |(?P<rstr>r\#*"(?:.|\n)*?"\#*)
 |(?P<str>b?"(?:\\.|[^"\\])*")
 |(?P<chr>b?'(?:\\[^'][^']*|[^\\'])')
 |(?P<life>'[A-Za-z_]\w*)
 |(?P<float>(?:\d[\d_]*\.\d[\d_]*(?:f32|f64)?|\d[\d_]*(?:f32|f64))(?![A-Za-z0-9_]))
 |(?P<int>(?:0x[0-9a-fA-F_]+|0b[01_]+|\d[\d_]*)(?:u8|u16|u32|u64|usize|i8|i16|i32|i64|isize)?(?![A-Za-z0-9_]))
 |(?P<id>[A-Za-z_]\w*)
 |(?P<op><<=|>>=|\.\.=|\.\.\.|<<|>>|==|!=|<=|>=|&&|\|\||\|=|&=|\^=|\+=|-=|\*=|/=|%=|->|=>|::|\.\.|[-+*/%&|^!<>=.,;:(){}\[\]\#?@$~])
""", re.X | re.S)


def lex(text, fname):
    out, i, line = [], 0, 1
    n = len(text)
    while i < n:
        m = TOK.match(text, i)
        if not m:
            fail(f"{fname}:{line}: cannot lex {text[i:i+20]!r}")
        k, s = m.lastgroup, m.group(0)
        if k not in ("ws", "lc", "bc"):
            out.append(R.Tok(k, s, line))
        line += s.count("\n")
        i = m.end()
    return out


def H(s):
    return [t.s for t in lex(s, "<table>")]


def norm(toks):
    return " ".join(t.s for t in toks)


def sha(toks):
    return hashlib.sha256(norm(toks).encode()).hexdigest()[:16]


# ----------------------------------------------------------------------------------------------------------------------
# tables
# ----------------------------------------------------------------------------------------------------------------------
# items of uci.rs: everything at the top level must be one of these (a new item is a broken tie)
TOP_ITEMS = ["use", "use", "use", "use", "const DEFAULT_MAX_SEARCH_TIME", "struct Client", "impl Client", "struct Search", "impl Search"]

# the SEAMS: Rust texts the trusted reading of the prelude was made from.  The whole item is pinned by a digest of its
# token sequence (comments and layout do not matter); the `lines` are the places the reading relies on, quoted for the reader.
SEAMS = [
    dict(file=UCI, container=H("impl Search"), fn="spawn", digest="4991626d47db86d6",
         lines=[r"pub fn spawn\(\s*state: State,\s*rng_seed: u64,\s*depth: Option<usize>,\s*search_time: Option<f64>,\s*previous_artifact: Option<SearchArtifact>,\s*\) -> Self \{",
                r"searcher\.analyze\(state, rng_seed, evaluator, depth, previous_artifact\);",
                r"let max_search_time = search_time\.unwrap_or\(DEFAULT_MAX_SEARCH_TIME\);",
                r"if start_time\.elapsed\(\)\.as_secs_f64\(\) >= max_search_time \{"],
         what="Search::spawn starts the search, the timer and the writer thread; for the loop it is the event `UEvent.spawn` with its five "
              "arguments and a handle"),
    dict(file=UCI, container=H("impl Search"), fn="wait_cancel", digest="5b802568387bbcc5",
         lines=[r"pub fn wait_cancel\(self\) -> Option<SearchArtifact> \{",
                r"_ = self\.control\.send\(searcher::ControlEvent::Stop\);",
                r"let artifact = self\.search_handle\.join\(\)\.ok\(\);",
                r"_ = self\.write_handle\.join\(\);\s*artifact\s*\}"],
         what="Search::wait_cancel stops and joins both threads and never panics: `join().ok()` turns a panicked search into `None`"),
    dict(file=STATE, container=H("impl State"), fn="by_performing_moves", digest="9336226c1f04d6c9",
         lines=[r"pub fn by_performing_moves\(\s*state: &Self,\s*moves: &\[MoveQuery\],\s*\) -> Result<State, MovePerformError> \{"],
         what="State::by_performing_moves is the named seam `UciSeams.by_performing_moves` (bridge hypothesis `ResolverSeam`: equal to the "
              "model's `performQueries`)"),
]

TEXT_CHECKS = [
    (UCI, r"struct Search \{\s*start_time: std::time::Instant,\s*write_handle: thread::JoinHandle<\(\)>,\s*search_handle: thread::JoinHandle<SearchArtifact>,\s*control: mpsc::Sender<searcher::ControlEvent>,\s*\}",
     "struct Search (two join handles and the control channel)"),
    (UCI, r"pub struct Client;", "struct Client has no state"),
    (UCI, r"pub fn exec\(&self\) -> std::io::Result<\(\)> \{", "signature of Client::exec"),
    (UCI, r"use std::\{\s*io::\{stdin, BufRead\},\s*sync::mpsc,\s*thread,\s*\};", "stdin / BufRead::lines are std's"),
    (UCI, r"use rand::Rng;", "gen / gen_range are rand's"),
    (STATE, r"pub enum MovePerformError \{\s*AmbiguousMove,\s*IllegalEnPassant,\s*UnknownMove,\s*\}", "enum MovePerformError"),
    (EBOOK, r"pub fn try_default\(\) -> Result<Self, \(\)> \{", "OpeningBook::try_default (seam of stage 4b)"),
]

# callees translated by earlier stages: Rust signature (regex, exactly one match) and the head line in the committed Gen file
EXTERNS = {
    "State::default": dict(lean="State.default", rust=(STATE, r"impl Default for State \{\s*fn default\(\) -> Self \{"),
                           head=("BookFns.lean", "def State.default (rx : RegexCaptures) : Panics State := do")),
    "try_from_notation::<State, Fen>": dict(lean="Fen.try_from_notation",
                           rust=(NOTATION, r"impl TryFromNotation<State> for Fen \{\s*type Error = \(\);\s*fn try_from_notation\(notation: &str\) -> Result<State, Self::Error> \{"),
                           head=("TextFns.lean", "def Fen.try_from_notation (rx : RegexCaptures) (notation_ : (List Char)) : TRes State := do")),
    "into_notation::<_, Lan>": dict(lean="Lan.into_notation",
                           rust=(NOTATION, r"impl IntoNotation<Move> for Lan \{\s*fn into_notation\(value: &Move, f: &mut std::fmt::Formatter<'_>\) -> std::fmt::Result \{"),
                           head=("TextFns.lean", "def Lan.into_notation (value : Move) (f : (List Char)) : TRes (List Char) := do")),
    "OpeningBook::lookup": dict(lean="OpeningBook.lookup",
                           rust=(EBOOK, r"pub fn lookup\(&self, state: &State\) -> Option<&HashSet<weechess_core::Move>> \{"),
                           head=("BookFns.lean", "def OpeningBook.lookup (self_ : OpeningBook) (state : State) : Panics (Option (HashSet Move)) := do")),
    "uci.parse_move_token": dict(lean="uci.parse_move_token",
                           rust=(UCI, r"let move_details: Vec<MoveQuery> = moves\s*\.into_iter\(\)\s*\.filter_map\(\|m\| \{"),
                           head=("TextFns.lean", "def uci.parse_move_token (m : (List Char)) : TRes MoveQuery := do")),
    "str.parse_usize": dict(lean="str.parse_usize", rust=None,
                           head=("TextFns.lean", "def str.parse_usize (s : List Char) : TRes UInt64 :=")),
}

# the frame of `Client::exec`: `let` statements whose initialiser is a seam become PARAMETERS (exact token text required)
FRAME = {
    "input": (H("stdin().lock().lines()"), "input", "List (List Char)",
              "the lines read from stdin before EOF or the first read error (`Some(Ok(cmd))` fails on both: the loop ends)"),
    "rng": (H("rand::thread_rng()"), "rng", "ThreadRng", "the thread-local generator: an unknown stream of words"),
    "book": (H("OpeningBook::try_default().unwrap()"), "book", "OpeningBook",
             "the book baked in by build.rs (stage 4b); a failing `try_default` panics before the first command and is out of scope"),
}
# types of variables the text does not annotate (STATED here; Lean type-checks every use)
STATED_TYPES = {"previous_artifact": ("Option", ("SearchArtifact",))}

KEYWORDS = {"at", "from", "end", "do", "then", "fun", "show", "have", "in", "if", "else", "match", "with", "let", "open", "where",
            "by", "instance", "structure", "deriving", "namespace", "section", "variable", "theorem", "def", "prefix", "infix"}


def lname(n):
    return n + "_" if n in KEYWORDS else n


# ----------------------------------------------------------------------------------------------------------------------
# parser
# ----------------------------------------------------------------------------------------------------------------------
class UP(B.BP):
    def block(self):
        self.eat("{")
        stmts, tail = [], None
        while self.peek() != "}":
            if self.peek() == ";":
                self.eat()
                continue
            p, ln = self.peek(), self.line()
            if p == "#":
                self.eat()
                o = self.i
                c = match_close(self.t, o, "[", "]")
                attr = norm(self.t[o + 1:c])
                self.i = c + 1
                if attr != "cfg ( weechess_verif )":
                    self.err(f"attribute `#[{attr}]` on a statement not supported")
                # only a single `eprintln!(..);` may stand under the hook cfg: it does not exist in a normal build
                if not (self.peek() == "eprintln" and self.t[self.i + 1].s == "!"):
                    self.err("under `#[cfg(weechess_verif)]` only an `eprintln!(..);` statement is skipped")
                self.eat()
                self.eat("!")
                c = match_close(self.t, self.i, "(", ")")
                self.i = c + 1
                self.eat(";")
                stmts.append(("hook", ln))
                continue
            if p == "let":
                self.eat()
                pat = self.pattern()
                ty = None
                if self.peek() == ":":
                    self.eat()
                    ty = self.ty()
                if self.peek() != "=":
                    self.err("`let` without initialiser")
                self.eat("=")
                o = self.i
                init = self.expr()
                itoks = self.t[o:self.i]
                if self.peek() == "else":
                    self.err("`let … else` not supported")
                self.eat(";")
                stmts.append(("let", pat, ty, init, ln, itoks))
                continue
            if p == "while":
                self.eat()
                if self.peek() != "let":
                    self.err("`while` without `let` not supported")
                self.eat()
                pat = self.pattern()
                self.eat("=")
                scrut = self.expr(nostruct=True)
                body = self.block()
                stmts.append(("expr", ("whilelet", pat, scrut, body, ln), ln))
                continue
            if p in ("for", "loop", "unsafe", "fn", "struct", "impl", "use", "static", "const"):
                self.err(f"`{p}` not supported")
            e = self.expr(stmt=True)
            if self.peek() == ";":
                self.eat()
                stmts.append(("expr", e, ln))
            elif self.peek() == "}":
                tail = e
            elif e[0] in ("if", "iflet", "match", "block"):
                stmts.append(("expr", e, ln))
            else:
                self.err(f"expected `;` or `}}`, found `{self.peek()}`")
        self.eat("}")
        return ("block", stmts, tail)

    def expr(self, stmt=False, nostruct=False, level=0):
        if level == 0:
            if self.peek() == "continue":
                self.eat()
                if self.peek() not in (";", "}", ","):
                    self.err("`continue` with a label not supported")
                return ("continue",)
            if self.peek() == "return":
                self.err("`return` not supported")
            if self.peek() == "break":
                self.eat()
                if self.peek() not in (";", "}", ","):
                    self.err("`break` with a label or value not supported")
                return ("break",)
            lhs = self.expr(stmt, nostruct, 1)
            if stmt and lhs[0] in ("if", "iflet", "match", "block"):
                return lhs
            if self.peek() in T.ASSIGN_OPS:
                op = self.eat().s
                rhs = self.expr(nostruct=nostruct)
                return ("assign", op, lhs, rhs, self.line())
            if self.peek() == "..":
                self.eat()
                rhs = self.expr(False, nostruct, 1)
                return ("range", lhs, rhs)
            if self.peek() in ("^=", "*=", "/=", "%=", "<<=", ">>=", "..="):
                self.err(f"operator `{self.peek()}` not supported here")
            return lhs
        return super().expr(stmt, nostruct, level)

    def primary(self, nostruct):
        p, ln = self.peek(), self.line()
        if self.kind() == "float":
            return ("float", self.eat().s, ln)
        if p in ("println", "eprintln") and self.i + 1 < len(self.t) and self.t[self.i + 1].s == "!":
            self.eat()
            self.eat("!")
            self.eat("(")
            fm = self.literal()
            if fm[0] != "str":
                self.err(f"{p}!: the format must be a string literal")
            args = []
            while self.peek() == ",":
                self.eat()
                if self.peek() == ")":
                    break
                args.append(self.expr())
            self.eat(")")
            return ("print", p, fm[1], args, ln)
        if p in ("|", "||"):
            # closures are kept as token ranges: the emitter accepts exactly the shapes it knows
            o = self.i
            if p == "|":
                # a closure whose body is a block is NOT parsed here (stage 3d translates the one such closure): skipped by braces
                j = self.i + 1
                while self.t[j].s != "|":
                    j += 1
                if self.t[j + 1].s == "{":
                    c = match_close(self.t, j + 1, "{", "}")
                    self.i = c + 1
                    return ("closure", None, ("opaque",), ln, self.t[o:self.i])
            e = super().primary(nostruct)
            return e + (self.t[o:self.i],)
        return super().primary(nostruct)

    def postfix(self, stmt, nostruct):
        e = self.primary(nostruct)
        if stmt and e[0] in ("if", "iflet", "match", "block"):
            return e
        while True:
            p = self.peek()
            if p == "?":
                self.err("`?` not supported")
            elif p == ".":
                self.eat()
                tok = self.eat()
                if tok.k == "int":
                    e = ("field", e, tok.s)
                    continue
                if tok.k != "id" or tok.s == "await":
                    self.err(f"`.{tok.s}` not supported")
                gen = None
                if self.peek() == "::":
                    self.eat()
                    self.eat("<")
                    depth, parts = 1, []
                    while depth > 0:
                        x = self.eat().s
                        depth += {"<": 1, ">": -1, ">>": -2}.get(x, 0)
                        parts.append(x)
                    if depth != 0:
                        self.err("unbalanced turbofish")
                    gen = "".join(parts)[:-1]
                if self.peek() == "(":
                    e = ("mcall", e, tok.s, self.args(), gen, tok.line)
                else:
                    e = ("field", e, tok.s)
            elif p == "[":
                ln = self.line()
                self.eat()
                lo = self.expr(False, False, 1)
                if self.peek() == "..":
                    self.eat()
                    self.eat("]")
                    e = ("slice_from", e, lo, ln)
                else:
                    self.eat("]")
                    e = ("index", e, lo, ln)
            elif p == "(":
                ln = self.line()
                e = ("call", e, self.args(), ln)
            else:
                return e


# ----------------------------------------------------------------------------------------------------------------------
# types
# ----------------------------------------------------------------------------------------------------------------------
STR, USIZE, I32, F64, U64, BOOL, UNIT = ("str",), ("usize",), ("i32",), ("f64",), ("u64",), ("bool",), ("unit",)
HOLE = ("?",)


def opt(t):
    return ("Option", t)


def sl(t):
    return ("slice", t)


LEAN_ATOM = {"str": "(List Char)", "usize": "UInt64", "i32": "Int32", "f64": "Float", "u64": "UInt64", "bool": "Bool", "unit": "Unit",
             "State": "State", "Search": "Search", "SearchArtifact": "SearchArtifact", "ThreadRng": "ThreadRng", "OpeningBook": "OpeningBook",
             "Move": "Move", "MoveQuery": "MoveQuery", "World": "World", "MovePerformError": "MovePerformError"}


def lty(t, atom=False):
    k = t[0]
    if k in LEAN_ATOM and len(t) == 1:
        return LEAN_ATOM[k]
    if k == "Option":
        s = f"Option {lty(t[1], True)}"
    elif k in ("slice", "iter", "HashSet"):
        s = f"List {lty(t[1], True)}"
    elif k == "Result":
        s = f"Except {lty(t[2], True)} {lty(t[1], True)}"
    elif k == "tuple":
        return "(" + " × ".join(lty(x) for x in t[1:]) + ")"
    else:
        fail(f"type `{T.show(t)}` has no Lean rendering")
    return f"({s})" if atom else s


def tup(vs):
    vs = list(vs)
    if not vs:
        return "()"
    if len(vs) == 1:
        return vs[0]
    return "(" + ", ".join(vs) + ")"


class Ctx:
    """how the current block ends: `ending(env)` = the line for falling off the end; `exit_fmt(flow)` = the line for `continue` / `break`"""

    def __init__(self, ending, exit_fmt, loopvars):
        self.ending, self.exit_fmt, self.loopvars = ending, exit_fmt, loopvars


class Emitter:
    def __init__(self, fname):
        self.fname = fname
        self.n = 0
        self.notes = []

    def err(self, ln, msg):
        fail(f"{self.fname}:{ln}: {msg}")

    def fresh(self, stem="t"):
        self.n += 1
        return f"{stem}_{self.n}"

    # ---- analysis: outer variables a statement assigns; early exits
    def mutated(self, e, acc):
        """names of variables mutated by expression / statement `e` (`io` for anything that talks to the world)"""
        if not isinstance(e, tuple) or not e:
            return
        k = e[0]
        if k == "assign":
            if e[2][0] != "path" or len(e[2][1]) != 1:
                fail(f"{self.fname}:{e[4]}: assignment to a place other than a local variable not supported")
            if e[2][1][0] != "_":
                acc.add(e[2][1][0])
            self.mutated(e[3], acc)
            return
        if k == "print":
            acc.add("io")
            if e[1] == "println":
                for a in e[3]:
                    self.mutated(a, acc)
            return
        if k == "mcall":
            if e[2] in ("take", "next", "gen", "gen_range") and e[1][0] == "path" and len(e[1][1]) == 1:
                acc.add(e[1][1][0])
            if e[2] == "wait_cancel":
                acc.add("io")
            self.mutated(e[1], acc)
            for a in e[3]:
                self.mutated(a, acc)
            return
        if k == "call":
            if e[1][0] == "path" and e[1][1] == ["Search", "spawn"]:
                acc.add("io")
            for a in e[2]:
                self.mutated(a, acc)
            return
        if k == "closure":
            return
        if k == "block":
            for s in e[1]:
                self.mutated_stmt(s, acc)
            if e[2] is not None:
                self.mutated(e[2], acc)
            return
        if k in ("if",):
            self.mutated(e[1], acc)
            self.mutated(e[2], acc)
            if e[3] is not None:
                self.mutated(e[3], acc)
            return
        if k == "iflet":
            self.mutated(e[2], acc)
            self.mutated(e[3], acc)
            if e[4] is not None:
                self.mutated(e[4], acc)
            return
        if k == "match":
            self.mutated(e[1], acc)
            for _, b in e[2]:
                self.mutated(b, acc)
            return
        if k == "whilelet":
            self.mutated(e[2], acc)
            self.mutated(e[3], acc)
            return
        for x in e[1:]:
            if isinstance(x, tuple):
                self.mutated(x, acc)
            elif isinstance(x, list):
                for y in x:
                    if isinstance(y, tuple):
                        self.mutated(y, acc)

    def mutated_stmt(self, s, acc):
        if s[0] == "let":
            self.mutated(s[3], acc)
        elif s[0] == "expr":
            self.mutated(s[1], acc)

    def assigned(self, e, env):
        acc = set()
        self.mutated(e, acc)
        return [v for v in env if v in acc]

    def has_exit(self, e):
        if not isinstance(e, tuple) or not e:
            return False
        k = e[0]
        if k in ("continue", "break"):
            return True
        if k in ("whilelet", "closure"):
            return False
        if k == "block":
            return any(self.has_exit(s[1] if s[0] == "expr" else s[3] if s[0] == "let" else None) for s in e[1]) or self.has_exit(e[2])
        if k == "match":
            return any(self.has_exit(b) for _, b in e[2])
        if k == "if":
            return self.has_exit(e[2]) or self.has_exit(e[3])
        if k == "iflet":
            return self.has_exit(e[3]) or self.has_exit(e[4])
        return False

    # ---- expressions: returns (atom, type); bindings go to `out`
    def line(self, out, ind, s):
        out.append(" " * ind + s)

    def bindm(self, out, ind, rhs, stem="t"):
        v = self.fresh(stem)
        self.line(out, ind, f"let {v} ← {rhs}")
        return v

    def ex(self, e, env, out, ind, exp=HOLE):
        k = e[0]
        if k == "path":
            segs = e[1]
            if len(segs) == 1:
                n = segs[0]
                if n in env:
                    return lname(n), env[n]
                if n == "None":
                    if exp[0] != "Option" or exp[1] == HOLE:
                        self.err(e[3], "`None` of unknown type")
                    return f"(Option.none : {lty(exp)})", exp
            self.err(e[3], f"path `{'::'.join(segs)}` not supported")
        if k == "str":
            return T.chars_lit(e[1]), STR
        if k == "int":
            t = exp if exp in (USIZE, U64, I32) else USIZE
            if not re.fullmatch(r"\d+", e[1]):
                fail(f"{self.fname}: integer literal `{e[1]}` not supported")
            return f"({e[1]} : {lty(t)})", t
        if k == "float":
            m = re.fullmatch(r"(\d+)(?:\.(\d+))?(f64)?", e[1])
            if not m:
                self.err(e[2], f"float literal `{e[1]}` not supported")
            return f"({m.group(1)}.{m.group(2) or '0'} : Float)", F64
        if k == "unit":
            return "()", UNIT
        if k == "array":
            if e[1]:
                self.err(e[2], "non-empty array literal not supported")
            if exp[0] != "slice":
                self.err(e[2], "`[]` of unknown type")
            return f"([] : {lty(exp)})", exp
        if k == "tuple":
            items = []
            tys = []
            for i, x in enumerate(e[1]):
                xe = exp[1 + i] if exp[0] == "tuple" and len(exp) == len(e[1]) + 1 else (tys[0] if (x[0] == "array" and tys) else HOLE)
                a, t = self.ex(x, env, out, ind, xe)
                items.append(a)
                tys.append(t)
            return "(" + ", ".join(items) + ")", ("tuple",) + tuple(tys)
        if k == "cast":
            a, t = self.ex(e[1], env, out, ind)
            if t == I32 and e[2] == F64:
                return f"(i32.as_f64 {a})", F64
            self.err(0, f"cast `{T.show(t)} as {T.show(e[2])}` not supported")
        if k == "binary":
            op = e[1]
            a, ta = self.ex(e[2], env, out, ind)
            b, tb = self.ex(e[3], env, out, ind, ta)
            if ta != tb:
                fail(f"{self.fname}: operands of `{op}` have types {T.show(ta)} / {T.show(tb)}")
            if op == "/" and ta == F64:
                return f"({a} / {b})", F64
            if op in ("==", "!=") and ta in (USIZE, STR):
                return f"({a} {op} {b})", BOOL
            fail(f"{self.fname}: operator `{op}` on {T.show(ta)} not supported")
        if k == "call":
            return self.ex_call(e, env, out, ind, exp)
        if k == "mcall":
            return self.ex_mcall(e, env, out, ind, exp)
        if k == "index":
            a, t = self.ex(e[1], env, out, ind)
            if t[0] != "slice":
                self.err(e[3], "indexing a non-slice")
            i, ti = self.ex(e[2], env, out, ind, USIZE)
            if ti != USIZE:
                self.err(e[3], "index is not a usize")
            return self.bindm(out, ind, f"slice.index {a} {i}"), t[1]
        if k == "slice_from":
            a, t = self.ex(e[1], env, out, ind)
            if t[0] != "slice":
                self.err(e[3], "slicing a non-slice")
            i, ti = self.ex(e[2], env, out, ind, USIZE)
            return self.bindm(out, ind, f"slice.range_from {a} {i}"), t
        self.err(0, f"expression `{k}` not supported")

    def ex_call(self, e, env, out, ind, exp):
        f, args, ln = e[1], e[2], e[3]
        if f[0] != "path":
            self.err(ln, "call of a non-path")
        segs, gens = f[1], f[2]
        name = "::".join(segs)
        if name == "Some" and len(args) == 1:
            a, t = self.ex(args[0], env, out, ind, exp[1] if exp[0] == "Option" else HOLE)
            return f"(Option.some {a})", opt(t)
        if name == "State::default" and not args:
            self.use_extern("State::default")
            return self.bindm(out, ind, "State.default rx"), ("State",)
        if name in ("i32::from_str_radix", "usize::from_str_radix") and len(args) == 2:
            if args[1] != ("int", "10"):
                self.err(ln, "from_str_radix: only radix 10")
            a, t = self.ex(args[0], env, out, ind)
            if t != STR:
                self.err(ln, "from_str_radix of a non-str")
            ity = I32 if segs[0] == "i32" else USIZE
            if ity == USIZE:
                self.use_extern("str.parse_usize")
            return f"({segs[0]}.from_str_radix10 {a})", ("Result", ity, UNIT)
        if name == "try_from_notation" and len(args) == 1:
            g = gens.get(0)
            if g != [("State",), ("Fen",)]:
                self.err(ln, "try_from_notation: only `::<State, Fen>`")
            self.use_extern("try_from_notation::<State, Fen>")
            a, t = self.ex(args[0], env, out, ind)
            if t != STR:
                self.err(ln, "try_from_notation of a non-str")
            return self.bindm(out, ind, f"TRes.toResult (Fen.try_from_notation rx {a})"), ("Result", ("State",), UNIT)
        if name == "State::by_performing_moves" and len(args) == 2:
            a, ta = self.ex(args[0], env, out, ind)
            b, tb = self.ex(args[1], env, out, ind)
            if ta != ("State",) or tb != sl(("MoveQuery",)):
                self.err(ln, "by_performing_moves: argument types")
            return self.bindm(out, ind, f"env.by_performing_moves {a} {b}"), ("Result", ("State",), ("MovePerformError",))
        if name == "Search::spawn":
            ptys = [("State",), U64, opt(USIZE), opt(F64), opt(("SearchArtifact",))]
            if len(args) != len(ptys):
                self.err(ln, "Search::spawn: five arguments expected")
            atoms = []
            for x, pt in zip(args, ptys):
                a, t = self.ex(x, env, out, ind, pt)
                if t != pt:
                    self.err(ln, f"Search::spawn: argument of type {T.show(t)}, expected {T.show(pt)}")
                atoms.append(a)
            v = self.fresh()
            self.line(out, ind, f"let ({v}, io) := Search.spawn {' '.join(atoms)} io")
            return v, ("Search",)
        self.err(ln, f"call of `{name}` not supported")

    def use_extern(self, key):
        self.externs_used.add(key)

    def recv_var(self, r, ln):
        if r[0] != "path" or len(r[1]) != 1:
            self.err(ln, "a mutating method is only supported on a local variable")
        return r[1][0]

    def ex_mcall(self, e, env, out, ind, exp):
        r, name, args, gen, ln = e[1], e[2], e[3], e[4], e[5]
        # `&mut` methods on a variable
        if name == "take" and not args:
            v = self.recv_var(r, ln)
            t = env.get(v)
            if t is None or t[0] != "Option":
                self.err(ln, "`.take()` on a non-Option")
            x = self.fresh()
            self.line(out, ind, f"let {x} := {lname(v)}")
            self.line(out, ind, f"let {lname(v)} := (Option.none : {lty(t)})")
            return x, t
        if name == "next" and not args:
            v = self.recv_var(r, ln)
            t = env.get(v)
            if t is None or t[0] != "iter":
                self.err(ln, "`.next()` on something that is not a slice iterator")
            x = self.fresh()
            self.line(out, ind, f"let ({x}, {lname(v)}) := slice_iter.next {lname(v)}")
            return x, opt(t[1])
        if name == "gen_range" and len(args) == 1:
            v = self.recv_var(r, ln)
            if env.get(v) != ("ThreadRng",):
                self.err(ln, "gen_range on a non-rng")
            if args[0][0] != "range":
                self.err(ln, "gen_range: only `a..b`")
            lo, tl = self.ex(args[0][1], env, out, ind, USIZE)
            hi, th = self.ex(args[0][2], env, out, ind, USIZE)
            if tl != USIZE or th != USIZE:
                self.err(ln, "gen_range: only usize ranges")
            x = self.fresh()
            self.line(out, ind, f"let ({x}, {lname(v)}) ← ThreadRng.gen_range_usize {lname(v)} {lo} {hi}")
            return x, USIZE
        if name == "gen" and not args:
            v = self.recv_var(r, ln)
            if env.get(v) != ("ThreadRng",):
                self.err(ln, "gen on a non-rng")
            if exp != U64:
                self.err(ln, "`rng.gen()` only where a u64 is expected")
            x = self.fresh()
            self.line(out, ind, f"let ({x}, {lname(v)}) := ThreadRng.gen_u64 {lname(v)}")
            return x, U64
        a, t = self.ex(r, env, out, ind)
        k = t[0]
        if name == "clone" and not args:
            return a, t
        if t == STR and name == "split_ascii_whitespace" and not args:
            return f"(str.split_ascii_whitespace {a})", ("iter", STR)
        if k in ("iter", "slice") and name == "collect" and not args:
            if gen not in (None, "Vec<_>"):
                self.err(ln, f"collect::<{gen}> not supported")
            return a, sl(t[1])
        if k == "slice":
            if name == "split_first" and not args:
                return f"(slice.split_first {a})", opt(("tuple", t[1], t))
            if name == "first" and not args:
                return f"(slice.first {a})", opt(t[1])
            if name in ("iter", "into_iter") and not args:
                return a, ("iter", t[1])
            if name == "len" and not args:
                return f"(slice.len {a})", USIZE
            if name == "join" and len(args) == 1 and t[1] == STR:
                s, ts = self.ex(args[0], env, out, ind)
                if ts != STR:
                    self.err(ln, "join: separator")
                return f"(str.join {a} {s})", STR
            if name == "split_once" and len(args) == 1 and args[0][0] == "closure":
                c = args[0]
                params, body = c[1], c[2]
                if len(params) != 1 or params[0][0] != "pbind":
                    self.err(ln, "split_once: closure with one parameter expected")
                sub = []
                cenv = dict(env)
                cenv[params[0][1]] = t[1]
                b, tb = self.ex(body, cenv, sub, ind)
                if sub or tb != BOOL:
                    self.err(ln, "split_once: the predicate must be a pure boolean expression")
                return f"(slice.split_once {a} (fun {lname(params[0][1])} => {b}))", opt(("tuple", t, t))
        if k == "HashSet" and name == "iter" and not args:
            self.notes.append("`HashSet::iter()`: the elements in SOME order (here: the order of the list that represents the set); only used to pick a random element")
            return f"(HashSet.iter {a})", ("iter", t[1])
        if k == "Option" and name == "unwrap_or" and len(args) == 1:
            d, td = self.ex(args[0], env, out, ind, t[1])
            if td != t[1]:
                self.err(ln, f"unwrap_or: default of type {T.show(td)}, expected {T.show(t[1])}")
            return f"(Option.getD {a} {d})", t[1]
        if t == ("OpeningBook",) and name == "lookup" and len(args) == 1:
            self.use_extern("OpeningBook::lookup")
            s, ts = self.ex(args[0], env, out, ind)
            if ts != ("State",):
                self.err(ln, "lookup: argument")
            return self.bindm(out, ind, f"OpeningBook.lookup {a} {s}"), opt(("HashSet", ("Move",)))
        if t == ("Search",) and name == "wait_cancel" and not args:
            x = self.fresh()
            self.line(out, ind, f"let ({x}, io) := Search.wait_cancel {a} io")
            return x, opt(("SearchArtifact",))
        self.err(ln, f"method `.{name}(..)` on {T.show(t)} not supported")

    # ---- println! / eprintln!
    def stmt_print(self, e, env, out, ind):
        _, which, fm, args, ln = e
        if which == "eprintln":
            self.line(out, ind, f"let io := World.eprintln io {T.chars_lit(fm)}")
            return
        pieces = re.split(r"(\{[^}]*\})", fm)
        parts, ai = [], 0
        for p in pieces:
            if p == "":
                continue
            if p.startswith("{"):
                if p != "{}":
                    self.err(ln, f"format spec `{p}` not supported")
                if ai >= len(args):
                    self.err(ln, "println!: too few arguments")
                parts.append(self.display(args[ai], env, out, ind, ln))
                ai += 1
            else:
                if "{" in p or "}" in p:
                    self.err(ln, "println!: braces in the literal part")
                parts.append(T.chars_lit(p))
        if ai != len(args):
            self.err(ln, "println!: too many arguments")
        self.line(out, ind, f"let io := World.println io ({' ++ '.join(parts) if parts else '[]'})")

    def display(self, a, env, out, ind, ln):
        if a[0] == "path" and a[1] == ["EngineVersion", "CURRENT"]:
            return "env.display_EngineVersion"
        if a[0] == "field" and a[1][0] == "path" and a[1][1] == ["EngineVersion", "CURRENT"] and a[2] == "author":
            return "env.engine_author"
        if a[0] == "call" and a[1][0] == "path" and a[1][1] == ["into_notation"]:
            g = a[1][2].get(0)
            if g != [("?", "_"), ("Lan",)] or len(a[2]) != 1:
                self.err(ln, "into_notation: only `::<_, Lan>(m)`")
            x, t = self.ex(a[2][0], env, out, ind)
            if t != ("Move",):
                self.err(ln, "into_notation::<_, Lan> of a non-Move")
            self.use_extern("into_notation::<_, Lan>")
            return self.bindm(out, ind, f"TRes.toPanics (Lan.into_notation {x} [])")
        x, t = self.ex(a, env, out, ind)
        if t == ("Move",):
            return f"(env.display_Move {x})"
        if t == STR:
            return x
        self.err(ln, f"println!: no Display for {T.show(t)}")

    # ---- statements
    def block_stmts(self, stmts, tail, env, out, ind, ctx):
        """emit `stmts` (then the ending of `ctx`); `env` is this block's own copy"""
        if tail is not None:
            if tail == ("unit",):
                tail = None
            elif tail[0] in ("if", "iflet", "match", "block", "continue", "break"):
                stmts = list(stmts) + [("expr", tail, 0)]      # a unit-valued compound expression in tail position is a statement
            else:
                fail(f"{self.fname}: a block with a value is not supported here")
        for idx, s in enumerate(stmts):
            rest = stmts[idx + 1:]
            if s[0] == "hook":
                self.notes.append(f"uci.rs:{s[1]}: `#[cfg(weechess_verif)] eprintln!(..);` skipped (the verification hook does not exist in a normal build)")
                continue
            if s[0] == "let":
                self.stmt_let(s, env, out, ind)
                continue
            e, ln = s[1], s[2]
            k = e[0]
            if k in ("continue", "break"):
                if rest:
                    self.err(ln, f"statements after `{k}`")
                if ctx.loopvars is None:
                    self.err(ln, f"`{k}` outside a loop")
                flow = "Flow.cont" if k == "continue" else "Flow.brk"
                self.line(out, ind, ctx.exit_fmt(f"({flow} {tup(map(lname, ctx.loopvars))})"))
                return
            if k == "assign":
                self.stmt_assign(e, env, out, ind)
                continue
            if k == "print":
                self.stmt_print(e, env, out, ind)
                continue
            if k == "whilelet":
                self.stmt_while(e, env, out, ind)
                continue
            if k in ("if", "iflet", "match", "block"):
                if not rest:
                    self.compound(e, env, out, ind, ctx)
                    return
                av = self.assigned(e, env)
                if self.has_exit(e):
                    v = self.fresh("e")
                    self.line(out, ind, f"let {v} ← (do")
                    sub = Ctx(lambda: f"pure (Ctl.next {tup(map(lname, av))})", lambda fl: f"pure (Ctl.exit {fl})", ctx.loopvars)
                    self.compound(e, dict(env), out, ind + 4, sub)
                    out[-1] += ")"
                    fv = self.fresh("f")
                    self.line(out, ind, f"match {v} with")
                    self.line(out, ind, f"| Ctl.exit {fv} => {ctx.exit_fmt(fv)}")
                    self.line(out, ind, f"| Ctl.next {tup(map(lname, av))} => (do")
                    self.block_stmts(rest, None, env, out, ind + 4, ctx)
                    out[-1] += ")"
                    return
                self.line(out, ind, f"let {tup(map(lname, av))} ← (do")
                sub = Ctx(lambda: f"pure {tup(map(lname, av))}", None, None)
                self.compound(e, dict(env), out, ind + 4, sub)
                out[-1] += ")"
                continue
            # an expression evaluated for its effects
            self.ex(e, env, out, ind)
        self.line(out, ind, ctx.ending())

    def stmt_let(self, s, env, out, ind):
        _, pat, ty, init, ln, itoks = s
        names = None
        if pat[0] == "pbind":
            names = [pat[1]]
        elif pat[0] == "ptuple" and all(p[0] == "pbind" for p in pat[1]):
            names = [p[1] for p in pat[1]]
        else:
            self.err(ln, "`let` pattern not supported")
        # the move-token reader: the closure is translated by stage 3d (`uci.parse_move_token`, anchored on this very statement)
        if names == ["move_details"]:
            if (norm(itoks[:11]) != "moves . into_iter ( ) . filter_map ( | m |" or norm(itoks[-5:]) != ") . collect ( )"
                    or ty != sl(("MoveQuery",)) or env.get("moves") != sl(STR)):
                self.err(ln, "`let move_details` is not `moves.into_iter().filter_map(|m| {..}).collect()` over `moves: &[&str]`")
            if itoks[11].s != "{" or match_close(itoks, 11, "{", "}") != len(itoks) - 6:
                self.err(ln, "`let move_details`: the closure body must be one block")
            self.use_extern("uci.parse_move_token")
            v = self.bindm(out, ind, "slice.filter_map moves uci.parse_move_token")
            self.line(out, ind, f"let move_details := {v}")
            env["move_details"] = ty
            return
        exp = HOLE
        if ty is not None:
            exp = ty
        elif len(names) == 1 and names[0] in STATED_TYPES:
            exp = STATED_TYPES[names[0]]
        if init[0] in ("if", "iflet", "match", "block", "closure"):
            self.err(ln, "a `let` whose initialiser is a compound expression is not supported")
        a, t = self.ex(init, env, out, ind, exp)
        if exp != HOLE and not self.compat(t, exp):
            self.err(ln, f"`let {tup(names)}`: initialiser of type {T.show(t)}, declared {T.show(exp)}")
        if exp != HOLE:
            t = exp
        if len(names) == 1:
            anno = f" : {lty(t)}" if ty is not None or names[0] in STATED_TYPES else ""
            self.line(out, ind, f"let {lname(names[0])}{anno} := {a}")
            env[names[0]] = t
        else:
            if t[0] != "tuple" or len(t) != len(names) + 1:
                self.err(ln, "tuple `let` of a non-tuple")
            self.line(out, ind, f"let {tup(map(lname, names))} := {a}")
            for n, tt in zip(names, t[1:]):
                env[n] = tt

    def compat(self, t, exp):
        if t == exp:
            return True
        if t[0] == "iter" and exp[0] == "slice":
            return False
        return False

    def stmt_assign(self, e, env, out, ind):
        _, op, lhs, rhs, ln = e
        if op != "=":
            self.err(ln, f"`{op}` not supported")
        n = lhs[1][0]
        if n == "_":
            self.ex(rhs, env, out, ind)
            return
        if n not in env:
            self.err(ln, f"assignment to unknown variable `{n}`")
        a, t = self.ex(rhs, env, out, ind, env[n])
        if t != env[n]:
            self.err(ln, f"`{n} = ..`: value of type {T.show(t)}, variable of type {T.show(env[n])}")
        self.line(out, ind, f"let {lname(n)} := {a}")

    def stmt_while(self, e, env, out, ind):
        _, pat, scrut, body, ln = e
        if not (pat[0] == "pctor" and pat[1] == ["Some"] and len(pat[2]) == 1 and pat[2][0][0] == "pbind"
                and scrut[0] == "mcall" and scrut[2] == "next" and not scrut[3] and scrut[1][0] == "path" and len(scrut[1][1]) == 1):
            self.err(ln, "`while let`: only `Some(x) = <iterator variable>.next()`")
        it = scrut[1][1][0]
        x = pat[2][0][1]
        t = env.get(it)
        if t is None or t[0] != "iter":
            self.err(ln, "`while let` over something that is not a slice iterator")
        av = [v for v in self.assigned(body, env) if v != it]
        lv = [it] + av
        benv = dict(env)
        benv[x] = t[1]
        self.line(out, ind, f"let {tup(map(lname, lv))} ← while_let_next {lname(it)}.length.succ {lname(it)} {tup(map(lname, av))} (fun {lname(x)} {lname(it)} {tup(map(lname, av))} => do")
        ctx = Ctx(lambda: f"pure (Flow.cont {tup(map(lname, lv))})", lambda fl: f"pure {fl}", lv)
        self.block_stmts(body[1], body[2], benv, out, ind + 4, ctx)
        out[-1] += ")"

    def compound(self, e, env, out, ind, ctx):
        k = e[0]
        if k == "block":
            self.block_stmts(e[1], e[2], dict(env), out, ind, ctx)
            return
        if k == "if":
            c, t = self.ex(e[1], env, out, ind)
            if t != BOOL:
                self.err(e[4], "condition is not a bool")
            self.line(out, ind, f"if {c} then (do")
            self.compound(e[2], env, out, ind + 4, ctx)
            out[-1] += ")"
            self.line(out, ind, "else (do")
            if e[3] is None:
                self.line(out, ind + 4, ctx.ending())
            else:
                self.compound(e[3], env, out, ind + 4, ctx)
            out[-1] += ")"
            return
        if k == "iflet":
            arms = [(e[1], e[3]), (("pwild",), e[4] if e[4] is not None else ("block", [], None))]
            self.match(e[2], arms, env, out, ind, ctx, e[5])
            return
        if k == "match":
            self.match(e[1], e[2], env, out, ind, ctx, e[3])
            return
        fail(f"{self.fname}: compound `{k}` not supported")

    def arm(self, body, env, out, ind, ctx):
        if body[0] in ("block", "if", "iflet", "match"):
            self.compound(body, dict(env), out, ind, ctx)
        else:
            self.block_stmts([("expr", body, 0)], None, dict(env), out, ind, ctx)

    def match(self, scrut, arms, env, out, ind, ctx, ln):
        a, t = self.ex(scrut, env, out, ind)
        if t == STR:
            # string literals, top to bottom, then `_`
            if arms[-1][0] != ("pwild",):
                self.err(ln, "match on a str: the last arm must be `_`")
            first = True
            for p, b in arms[:-1]:
                if p[0] != "plit" or p[1][0] != "str":
                    self.err(ln, "match on a str: only string literals")
                self.line(out, ind, f"{'if' if first else 'else if'} ({a} == {T.chars_lit(p[1][1])}) then (do")
                first = False
                self.arm(b, env, out, ind + 4, ctx)
                out[-1] += ")"
            if first:
                self.err(ln, "match on a str without literal arms")
            self.line(out, ind, "else (do")
            self.arm(arms[-1][1], env, out, ind + 4, ctx)
            out[-1] += ")"
            return
        if t[0] == "Result":
            if len(arms) != 2:
                self.err(ln, "match on a Result: two arms expected")
            (p1, b1), (p2, b2) = arms
            if not (p1[0] == "pctor" and p1[1] == ["Ok"] and len(p1[2]) == 1 and p1[2][0][0] == "pbind"):
                self.err(ln, "match on a Result: first arm must be `Ok(x)`")
            if not (p2 == ("pwild",) or (p2[0] == "pctor" and p2[1] == ["Err"] and p2[2] in ([("prest",)], [("pwild",)]))):
                self.err(ln, "match on a Result: second arm must be `Err(..)` or `_`")
            self.line(out, ind, f"match {a} with")
            self.line(out, ind, f"| Except.ok {lname(p1[2][0][1])} => (do")
            env1 = dict(env)
            env1[p1[2][0][1]] = t[1]
            self.arm(b1, env1, out, ind + 4, ctx)
            out[-1] += ")"
            self.line(out, ind, "| Except.error _ => (do")
            self.arm(b2, env, out, ind + 4, ctx)
            out[-1] += ")"
            return
        if t[0] == "Option":
            if arms[-1][0] not in (("pwild",), ("ppath", ["None"])):
                self.err(ln, "match on an Option: the last arm must be `_` or `None`")
            some_arms = arms[:-1]
            for p, _ in some_arms:
                if not (p[0] == "pctor" and p[1] == ["Some"] and len(p[2]) == 1):
                    self.err(ln, "match on an Option: arms must be `Some(..)` then `_`")
            payload = t[1]
            subs = [p[2][0] for p, _ in some_arms]

            def irrefutable(sp):
                return sp[0] in ("pbind", "pwild") or (sp[0] == "ptuple" and all(irrefutable(x) for x in sp[1]))

            self.line(out, ind, f"match {a} with")
            if len(subs) == 1 and irrefutable(subs[0]):
                env1 = dict(env)
                pat = self.bind_pat(subs[0], payload, env1, ln)
                self.line(out, ind, f"| Option.some {pat} => (do")
                self.arm(some_arms[0][1], env1, out, ind + 4, ctx)
                out[-1] += ")"
            else:
                # literal sub-patterns: compared top to bottom; no arm matches -> the default arm
                if payload[0] == "tuple":
                    comps = [self.fresh("w") for _ in payload[1:]]
                    ctys = list(payload[1:])
                    self.line(out, ind, f"| Option.some ({', '.join(comps)}) => (do")
                else:
                    comps = [self.fresh("w")]
                    ctys = [payload]
                    self.line(out, ind, f"| Option.some {comps[0]} => (do")
                first = True
                for sp, b in zip(subs, [b for _, b in some_arms]):
                    items = sp[1] if sp[0] == "ptuple" else [sp]
                    if len(items) != len(comps):
                        self.err(ln, "pattern arity")
                    conds, lets = [], []
                    env1 = dict(env)
                    for it, c, ct in zip(items, comps, ctys):
                        if it[0] == "plit" and it[1][0] == "str" and ct == STR:
                            conds.append(f"({c} == {T.chars_lit(it[1][1])})")
                        elif it[0] == "pbind":
                            lets.append((it[1], c))
                            env1[it[1]] = ct
                        elif it[0] == "pwild":
                            pass
                        else:
                            self.err(ln, "sub-pattern not supported")
                    if not conds:
                        self.err(ln, "an irrefutable arm in front of other arms")
                    self.line(out, ind + 4, f"{'if' if first else 'else if'} {' && '.join(conds)} then (do")
                    first = False
                    for n, c in lets:
                        self.line(out, ind + 8, f"let {lname(n)} := {c}")
                    self.arm(b, env1, out, ind + 8, ctx)
                    out[-1] += ")"
                self.line(out, ind + 4, "else (do")
                self.arm(arms[-1][1], env, out, ind + 8, ctx)
                out[-1] += "))"
            self.line(out, ind, "| Option.none => (do")
            self.arm(arms[-1][1], env, out, ind + 4, ctx)
            out[-1] += ")"
            return
        self.err(ln, f"match on {T.show(t)} not supported")

    def bind_pat(self, sp, t, env, ln):
        if sp[0] == "pbind":
            env[sp[1]] = t
            return lname(sp[1])
        if sp[0] == "pwild":
            return "_"
        if sp[0] == "ptuple":
            if t[0] != "tuple" or len(t) != len(sp[1]) + 1:
                self.err(ln, "tuple pattern on a non-tuple")
            return "(" + ", ".join(self.bind_pat(x, tt, env, ln) for x, tt in zip(sp[1], t[1:])) + ")"
        self.err(ln, "pattern not supported")


# ----------------------------------------------------------------------------------------------------------------------
# the fixed vocabulary
# ----------------------------------------------------------------------------------------------------------------------
PRELUDE = r'''
/-! ## Prelude: the trusted vocabulary of stage 4c (threads and I/O are SEAMS; see `tools/rs2lean.NOTES.md`, Stage 4c) -/

/-- `SearchArtifact` (searcher.rs: hasher, tables, position history): for the command loop an opaque token that is only moved -/
structure SearchArtifact where
  token : Nat

/-- a running `Search` as the command loop sees it: what `wait_cancel` will return
(`self.search_handle.join().ok()`: `none` = the search thread panicked) -/
structure Search where
  outcome : Option SearchArtifact

/-- `enum MovePerformError` (state.rs; checked textually) -/
inductive MovePerformError where
  | AmbiguousMove
  | IllegalEnPassant
  | UnknownMove

/-- what the process does to the outside world, in program order -/
inductive UEvent where
  | stdout (line : List Char)       -- `println!`: one line on stdout
  | stderr (fmt : List Char)        -- `eprintln!`: the FORMAT LITERAL (arguments are not evaluated)
  | spawn (state : State) (rng_seed : UInt64) (depth : Option UInt64) (search_time : Option Float)
      (previous_artifact : Option SearchArtifact)   -- `Search::spawn(..)`: search, timer and writer threads start
  | wait_cancel (outcome : Option SearchArtifact)  -- `Search::wait_cancel`: Stop sent, both threads joined (the writer prints its `bestmove` before this point)

/-- the world: the event log so far and the outcomes of the searches still to be spawned (unknown stream) -/
structure World where
  out : List UEvent
  spawned : Nat
  outcomes : Nat → Option SearchArtifact

def World.println (io : World) (line : List Char) : World := { io with out := io.out ++ [UEvent.stdout line] }
def World.eprintln (io : World) (fmt : List Char) : World := { io with out := io.out ++ [UEvent.stderr fmt] }

/-- SEAM `Search::spawn` -/
def Search.spawn (state : State) (rng_seed : UInt64) (depth : Option UInt64) (search_time : Option Float)
    (previous_artifact : Option SearchArtifact) (io : World) : Search × World :=
  (⟨io.outcomes io.spawned⟩,
   { io with out := io.out ++ [UEvent.spawn state rng_seed depth search_time previous_artifact], spawned := io.spawned + 1 })

/-- SEAM `Search::wait_cancel` -/
def Search.wait_cancel (self : Search) (io : World) : Option SearchArtifact × World :=
  (self.outcome, { io with out := io.out ++ [UEvent.wait_cancel self.outcome] })

/-- `rand::thread_rng()`: an unknown stream of words -/
structure ThreadRng where
  words : Nat → UInt64
  pos : Nat

/-- `rng.gen::<u64>()` -/
def ThreadRng.gen_u64 (rng : ThreadRng) : UInt64 × ThreadRng := (rng.words rng.pos, { rng with pos := rng.pos + 1 })
/-- `rng.gen_range(lo..hi)` on `usize`: panics on an empty range, otherwise SOME value of the range (which one is a function of
the unknown stream; every value of the range is reached by some stream, as with rand's own sampling) -/
def ThreadRng.gen_range_usize (rng : ThreadRng) (lo hi : UInt64) : Panics (UInt64 × ThreadRng) :=
  if lo < hi then some (lo + rng.words rng.pos % (hi - lo), { rng with pos := rng.pos + 1 }) else none

/-- the seams that are functions: untranslated `Display` impls and the move resolver -/
structure UciSeams where
  /-- `State::by_performing_moves` (state.rs; not translated: bridge hypothesis `ResolverSeam`) -/
  by_performing_moves : State → List MoveQuery → Panics (Except MovePerformError State)
  /-- `Display for Move` (moves.rs) -/
  display_Move : Move → List Char
  /-- `Display for EngineVersion` of `EngineVersion::CURRENT` -/
  display_EngineVersion : List Char
  /-- `EngineVersion::CURRENT.author` -/
  engine_author : List Char

/-- a statement that may leave the enclosing loop pass: fall through with the assigned variables, or `continue` / `break` -/
inductive Ctl (ν σ : Type) where
  | next (v : ν)
  | exit (f : Flow σ)

/-- `u8::is_ascii_whitespace`: space, tab, line feed, form feed, carriage return -/
def char.is_ascii_whitespace (c : Char) : Bool := c == ' ' || c == '\t' || c == '\n' || c == '\x0C' || c == '\r'

def str.split_ascii_whitespace.go : List Char → List Char → List (List Char)
  | [], cur => if cur.isEmpty then [] else [cur.reverse]
  | c :: rest, cur =>
    if char.is_ascii_whitespace c then (if cur.isEmpty then str.split_ascii_whitespace.go rest [] else cur.reverse :: str.split_ascii_whitespace.go rest [])
    else str.split_ascii_whitespace.go rest (c :: cur)
/-- `str::split_ascii_whitespace`: the maximal runs of non-whitespace characters -/
def str.split_ascii_whitespace (s : List Char) : List (List Char) := str.split_ascii_whitespace.go s []

def slice.split_first {α : Type} : List α → Option (α × List α)
  | [] => none
  | x :: r => some (x, r)
def slice.first {α : Type} (l : List α) : Option α := l.head?
/-- `slice::split_once(pred)`: around the FIRST element satisfying `pred` (which is dropped) -/
def slice.split_once {α : Type} (l : List α) (p : α → Bool) : Option (List α × List α) :=
  match l.span (fun x => !p x) with
  | (a, _ :: b) => some (a, b)
  | (_, []) => none
/-- `&s[i..]` -/
def slice.range_from {α : Type} (l : List α) (i : UInt64) : Panics (List α) := if i.toNat ≤ l.length then some (l.drop i.toNat) else none
/-- `[&str]::join(sep)` -/
def str.join (l : List (List Char)) (sep : List Char) : List Char := sep.intercalate l
/-- `slice::Iter::next` on the list of items not yet consumed -/
def slice_iter.next {α : Type} : List α → Option α × List α
  | [] => (none, [])
  | x :: r => (some x, r)
def HashSet.iter {α : Type} (s : HashSet α) : List α := s

/-- `iter.filter_map(f).collect()` for a closure translated by stage 3d (`TRes`: `err` = `None`, `ok` = `Some`) -/
def slice.filter_map {α β : Type} : List α → (α → TRes β) → Panics (List β)
  | [], _ => some []
  | x :: xs, f =>
    match f x with
    | .panic => none
    | .err => slice.filter_map xs f
    | .ok b => (slice.filter_map xs f).map (b :: ·)

/-- `while let Some(x) = it.next() { body }` over a slice iterator; the body gets the item, the iterator after it and the loop's
variables and may consume further items -/
def while_let_next {α σ : Type} : Nat → List α → σ → (α → List α → σ → Panics (Flow (List α × σ))) → Panics (List α × σ)
  | 0, _, _, _ => none
  | fuel + 1, it, s, f =>
    match it with
    | [] => some ([], s)
    | x :: rest =>
      match f x rest s with
      | none => none
      | some (.cont (it', s')) => while_let_next fuel it' s' f
      | some (.brk r) => some r

/-- the loop over stdin: `while let Some(Ok(cmd)) = input.next() { body }` (the body does not touch `input`) -/
def stdin.lines_loop {σ : Type} : List (List Char) → σ → (σ → List Char → Panics (Flow σ)) → Panics σ
  | [], s, _ => some s
  | cmd :: rest, s, f =>
    match f s cmd with
    | none => none
    | some (.cont s') => stdin.lines_loop rest s' f
    | some (.brk s') => some s'

/-- `i32::from_str_radix(s, 10)`: optional sign, at least one ASCII digit, the value fits -/
def i32.from_str_radix10 (s : List Char) : Except Unit Int32 :=
  let (neg, ds) := match s with
    | '-' :: r => (true, r)
    | '+' :: r => (false, r)
    | r => (false, r)
  if ds.isEmpty || !ds.all Char.isDigit then .error () else
  let v : Int := (ds.foldl (fun acc c => acc * 10 + (c.toNat - 48)) 0 : Nat)
  let v := if neg then -v else v
  if v < -2147483648 ∨ v > 2147483647 then .error () else .ok (Int32.ofInt v)
/-- `usize::from_str_radix(s, 10)` = `str::parse::<usize>` (stage 3d's `str.parse_usize`) -/
def usize.from_str_radix10 (s : List Char) : Except Unit UInt64 :=
  match str.parse_usize s with
  | .ok v => .ok v
  | _ => .error ()
/-- `x as f64` for an `i32` (exact) -/
def i32.as_f64 (x : Int32) : Float := Float.ofInt x.toInt
'''


# ----------------------------------------------------------------------------------------------------------------------
# driver
# ----------------------------------------------------------------------------------------------------------------------
class Uci:
    def __init__(self, repo):
        self.repo = repo
        self.files = {}

    def load(self, rel):
        if rel not in self.files:
            path = os.path.join(self.repo, rel)
            if not os.path.exists(path):
                fail(f"{rel}: file not found")
            with open(path) as f:
                text = f.read()
            self.files[rel] = (text, lex(text, rel))
        return self.files[rel]

    def top_items(self, toks):
        items, i = [], 0
        while i < len(toks):
            t = toks[i]
            if t.s == "#":
                i = match_close(toks, i + 1, "[", "]") + 1
                continue
            if t.s == "pub":
                i += 1
                continue
            if t.s == "use":
                while toks[i].s != ";":
                    i += 1
                items.append("use")
                i += 1
                continue
            if t.s in ("const", "struct", "impl", "enum", "fn", "static", "mod", "trait", "type"):
                items.append(f"{t.s} {toks[i + 1].s}")
                while toks[i].s not in (";", "{"):
                    i += 1
                if toks[i].s == "{":
                    i = match_close(toks, i, "{", "}")
                i += 1
                continue
            fail(f"{UCI}:{t.line}: unexpected top-level token `{t.s}`")
        return items

    def run(self):
        for rel, pat, what in TEXT_CHECKS:
            text, _ = self.load(rel)
            if len(re.findall(pat, text)) != 1:
                fail(f"{rel}: textual check failed: {what}")
        text, toks = self.load(UCI)
        items = self.top_items(toks)
        if items != TOP_ITEMS:
            fail(f"{UCI}: top-level items changed: {items}")
        # seams: pinned texts
        for sm in SEAMS:
            stext, stoks = self.load(sm["file"])
            lo, hi = find_container(stoks, 0, len(stoks), sm["container"], sm["file"])
            fns, _ = T.scan_items_tolerant(stoks, lo, hi, sm["file"])
            hit = [f for f in fns if f.name == sm["fn"]]
            if len(hit) != 1:
                fail(f"{sm['file']}: seam `{sm['fn']}` not found")
            for pat in sm["lines"]:
                if len(re.findall(pat, stext)) != 1:
                    fail(f"{sm['file']}: seam `{sm['fn']}`: the line /{pat}/ the trusted reading relies on is gone ({sm['what']})")
            d = sha(hit[0].sig + hit[0].body)
            if d != sm["digest"]:
                if os.environ.get("RS2LEAN_UCI_DIGESTS"):
                    print(f"digest {sm['fn']} = {d}")
                else:
                    fail(f"{sm['file']}: the text of seam `{sm['fn']}` changed (digest {d}): its trusted reading must be re-made ({sm['what']})")
        # impl Search: exactly the two seam functions; impl Client: new + exec
        lo, hi = find_container(toks, 0, len(toks), H("impl Search"), UCI)
        fns, _ = T.scan_items_tolerant(toks, lo, hi, UCI)
        if [f.name for f in fns] != ["spawn", "wait_cancel"]:
            fail(f"{UCI}: `impl Search` is no longer exactly spawn + wait_cancel")
        lo, hi = find_container(toks, 0, len(toks), H("impl Client"), UCI)
        fns, _ = T.scan_items_tolerant(toks, lo, hi, UCI)
        if [f.name for f in fns] != ["new", "exec"]:
            fail(f"{UCI}: `impl Client` is no longer exactly new + exec")
        if norm(fns[0].body) != "{ Self }":
            fail(f"{UCI}: Client::new changed")
        raw = fns[1]
        if norm(raw.sig) != "( & self ) -> std :: io :: Result < ( ) >":
            fail(f"{UCI}: signature of exec changed")
        em = Emitter(UCI)
        em.externs_used = set()
        p = UP(raw.body, None, UCI)
        body = p.block()
        if p.i != len(p.t):
            fail(f"{UCI}: trailing tokens after the body of exec")
        defs = self.emit_exec(em, body, raw.line)
        for key in sorted(em.externs_used):
            ent = EXTERNS[key]
            if ent["rust"] is not None:
                rel, pat = ent["rust"]
                rtext, _ = self.load(rel)
                if len(re.findall(pat, rtext)) != 1:
                    fail(f"{rel}: signature of extern `{ent['lean']}` changed")
            gf, head = ent["head"]
            with open(os.path.join(VERIF, "lean", "Wee", "Gen", gf)) as f:
                if head not in f.read().split("\n"):
                    fail(f"Gen/{gf}: head of `{ent['lean']}` is not `{head}`")
        notes = []
        for n in em.notes:
            if n not in notes:
                notes.append(n)
        for name, (_, _, _, what) in FRAME.items():
            notes.append(f"frame: `{name}` is a parameter — {what}")
        for sm in SEAMS:
            notes.append(f"seam `{sm['fn']}` ({sm['file']}, digest {sm['digest']}): {sm['what']}")
        head = (f"-- GENERATED by tools/rs2lean_uci.py from {UCI}; do not edit.\n"
                "import Wee.Gen.BookFns\n"
                "/-!\n# Lean definitions translated from the Rust source text, stage 4c (the UCI command loop `Client::exec`)\n\n"
                "Every `def` below the prelude is produced from the text of `Client::exec`; the prelude is the fixed, trusted vocabulary\n"
                "(threads, stdout / stderr, stdin, the thread-local generator are SEAMS).  `Wee/Proofs/UciFnsBridge.lean` proves that the\n"
                "generated step refines `Wee.Uci.step` of `Wee/Model/Uci.lean`.\n-/\n"
                "set_option linter.unusedVariables false\nnamespace Wee.GenFns\nopen Wee\n")
        tail = "\n/-! ## Side conditions checked by the translator\n" + "\n".join(f"* {n}" for n in notes) + "\n-/\n"
        return head + PRELUDE + "\n/-! ## Translated items -/\n\n" + defs + tail + "\nend Wee.GenFns\n"

    def emit_exec(self, em, body, line):
        stmts, tail = body[1], body[2]
        if tail != ("call", ("path", ["Ok"], {}, tail[1][3] if tail and tail[0] == "call" else 0), [("unit",)], tail[3] if tail and tail[0] == "call" else 0):
            fail(f"{UCI}: exec must end in `Ok(())`")
        env = {}            # ordered: declaration order; `io` is declared by the frame, last of the parameters
        params = []
        pre = []            # lines of Client.exec before the loop
        ind = 2
        loop_at = None
        frame_seen = set()
        for idx, s in enumerate(stmts):
            if s[0] == "let" and s[1][0] == "pbind" and s[1][1] in FRAME:
                name = s[1][1]
                ftoks, pname, pty, _ = FRAME[name]
                if [t.s for t in s[5]] != ftoks or s[2] is not None:
                    fail(f"{UCI}:{s[4]}: the initialiser of `{name}` is no longer `{' '.join(ftoks)}` (frame)")
                frame_seen.add(name)
                params.append((pname, pty))
                if name != "input":
                    env[name] = {"rng": ("ThreadRng",), "book": ("OpeningBook",)}[name]
                continue
            if s[0] == "expr" and s[1][0] == "whilelet":
                loop_at = idx
                break
            if s[0] != "let":
                fail(f"{UCI}:{s[2]}: only `let` statements are expected in front of the command loop")
            if "io" not in env:
                pass
            em.stmt_let(s, env, pre, ind)
        if loop_at is None:
            fail(f"{UCI}: the command loop `while let Some(Ok(cmd)) = input.next()` was not found")
        if frame_seen != set(FRAME):
            fail(f"{UCI}: frame variables missing: {sorted(set(FRAME) - frame_seen)}")
        env["io"] = ("World",)
        w = stmts[loop_at][1]
        pat, scrut, wbody = w[1], w[2], w[3]
        if not (pat == ("pctor", ["Some"], [("pctor", ["Ok"], [("pbind", "cmd")])])
                and scrut[0] == "mcall" and scrut[2] == "next" and not scrut[3] and scrut[1][0] == "path" and scrut[1][1] == ["input"]):
            fail(f"{UCI}:{w[4]}: the command loop must be `while let Some(Ok(cmd)) = input.next()`")
        acc = set()
        em.mutated(wbody, acc)
        if "input" in acc or self.mentions(wbody, "input"):
            fail(f"{UCI}: the loop body touches `input`")
        lv = [v for v in env if v in acc]
        consts = [v for v in env if v not in acc]
        vty = "(" + " × ".join(lty(env[v]) for v in lv) + ")"
        cparams = "".join(f" ({lname(v)} : {lty(env[v])})" for v in consts)
        cargs = "".join(f" {lname(v)}" for v in consts)
        # ---- the loop body
        b = []
        b.append(f"/-- one pass of `while let Some(Ok(cmd)) = input.next() {{ .. }}` in `Client::exec` ({UCI}:{w[4]}) -/")
        b.append(f"def Client.exec.body (env : UciSeams) (rx : RegexCaptures){cparams} (vars : {vty}) (cmd : (List Char)) :")
        b.append(f"    Panics (Flow {vty}) := do")
        b.append(f"  let {tup(map(lname, lv))} := vars")
        benv = dict(env)
        benv["cmd"] = STR
        ctx = Ctx(lambda: f"pure (Flow.cont {tup(map(lname, lv))})", lambda fl: f"pure {fl}", lv)
        em.block_stmts(wbody[1], wbody[2], benv, b, 2, ctx)
        # ---- exec
        d = []
        d.append(f"/-- `exec` ({UCI}:{line}); the frame variables are parameters, the result `Ok(())` is the final world -/")
        pstr = "".join(f" ({n} : {t})" for n, t in params)
        d.append(f"def Client.exec (env : UciSeams) (rx : RegexCaptures){pstr} (io : World) : Panics World := do")
        d.extend(pre)
        d.append(f"  let {tup(map(lname, lv))} ← stdin.lines_loop input {tup(map(lname, lv))} (fun vars cmd => Client.exec.body env rx{cargs} vars cmd)")
        post = stmts[loop_at + 1:]
        ctx2 = Ctx(lambda: "pure io", None, None)
        em.block_stmts(post, None, dict(env), d, 2, ctx2)
        return "\n".join(b) + "\n\n" + "\n".join(d) + "\n"

    def mentions(self, e, name):
        if isinstance(e, tuple):
            if e and e[0] == "path" and e[1] == [name]:
                return True
            return any(self.mentions(x, name) for x in e[1:])
        if isinstance(e, list):
            return any(self.mentions(x, name) for x in e)
        return False


def main():
    ap = argparse.ArgumentParser()
    ap.add_argument("--repo", default=os.environ.get("WEE_REPO", "/repo"))
    ap.add_argument("--out", default=DEFAULT_OUT)
    ap.add_argument("--check", action="store_true", help="do not write; exit 1 if the file would change")
    a = ap.parse_args()
    try:
        text = Uci(a.repo).run()
    except TieBroken as ex:
        print(f"TIE-BROKEN {TAG}: {ex}")
        sys.exit(2)
    old = None
    if os.path.exists(a.out):
        with open(a.out) as f:
            old = f.read()
    changed = old != text
    if a.check:
        print('{"changed": %s}' % ("true" if changed else "false"))
        sys.exit(1 if changed else 0)
    if changed:
        os.makedirs(os.path.dirname(a.out), exist_ok=True)
        with open(a.out, "w") as f:
            f.write(text)
    print('{"changed": [%s]}' % ('"UciFns.lean"' if changed else ""))


if __name__ == "__main__":
    main()
