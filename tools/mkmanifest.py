#!/usr/bin/env python3
"""Regenerates MANIFEST.json from the table below + lean/props.json (so it is always valid)."""
import json, os
V = os.path.dirname(os.path.dirname(os.path.abspath(__file__)))
reg = json.load(open(os.path.join(V, "lean", "props.json")))
claims = json.load(open(os.path.join(V, "tools", "claims.json")))
props = [json.loads(l) for l in open(os.path.join(V, "properties.jsonl"))]
checks, na = [], []
for p in props:
    pid = p["id"]
    c = claims.get(pid)
    if c and c.get("claimed"):
        checks.append({
            "property_id": pid,
            "quick_cmd": f"./check {pid} quick",
            "thorough_cmd": f"./check {pid} thorough",
            "evidence_file": f"evidence/{pid}.json",
            "replay_cmd_template": f"./check {pid} --replay {{path}}",
            "engine": "lean4-proof+correspondence",
            "level_claimed": {"category": "proof", "text": c["text"], "design_ref": c.get("design_ref", "DESIGN.md §6 " + pid)},
            "level_note": c["note"],
            "technique": c["technique"],
        })
    else:
        na.append({"property_id": pid, "reason": (c or {}).get("reason", "not yet claimed: model/theorems for this property are still being built in this round (see DESIGN.md §8)")})
m = {
    "version": 1,
    "setup_cmd": "./setup.sh",
    "hooks": {
        "guard": "weechess_verif",
        "enable": "RUSTFLAGS=\"--cfg weechess_verif\" (set in harness/.cargo/config.toml; the CLI binary is built with the same flag into /verif/build/target-cli)",
        "baseline_off_cmd": "cd /repo && cargo test --workspace --no-fail-fast --offline",
        "source_commits": claims["_hooks"],
        "add_only": True,
    },
    "engines": [
        {"name": "lean4-proof+correspondence", "path": "lean/", "serves_properties": [c["property_id"] for c in checks],
         "kind_free_text": "Lean 4 theorems about an executable model of the Rust code (lean/Wee/Props), constants regenerated from the source on every run (tools/extract.py), model tied to the real code by a three-way differential run (Rust harness / Lean model / Lean spec) driven by ./check"},
    ],
    "checks": checks,
    "not_applicable": na,
    "notes": "Every check: extract constants from /repo → lake build the property's theorem module + #print axioms audit → cargo build harness against /repo working tree (cfg weechess_verif) → generated requests through the real code, the Lean model and the Lean spec → verdict. See DESIGN.md.",
}
json.dump(m, open(os.path.join(V, "MANIFEST.json"), "w"), indent=1)
print("claimed:", [c["property_id"] for c in checks])
