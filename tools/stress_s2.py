#!/usr/bin/env python3
"""Stress search for S2 (DESIGN §7): with several real workers, is a winning terminal evaluation ever reported
together with a first move that does not keep the mate?  usage: stress_s2.py <seed> <rounds>"""
import os, sys, random
sys.path.insert(0, os.path.dirname(os.path.abspath(__file__)))
import wee, props

seed, rounds = int(sys.argv[1]), int(sys.argv[2])
rnd = random.Random(seed)
mates = [m for m in props.mate_positions(seed, 200, 3) if m[0] == 3]
print("mate-in-3 positions:", len(mates), flush=True)
bad = 0
for rd in range(rounds):
    reqs, meta = [], []
    for d, keep, f in mates:
        for w in (2, 3, 4, 32):
            reqs.append(f"search {rnd.getrandbits(32)} {d} {w} - 2 64 0 {f}")
            meta.append(f)
    outs, _, _ = wee.run_lines_parallel(wee.harness_path(), reqs, jobs=4)
    mreqs, own = [], []
    for r, f, o in zip(reqs, meta, outs):
        bests, _ = props.parse_events(o)
        for ev, line in bests:
            if ev >= 10000 and line:
                mreqs.append(f"matecheck {ev} {line[0]} {f}")
                own.append((r, o))
    drv, _, _ = wee.run_driver(mreqs, jobs=12)
    for mr, (r, o), (m, sp) in zip(mreqs, own, drv):
        if sp not in ("sound", "claim-too-deep-for-oracle"):
            bad += 1
            print("FOUND", sp, "|", r, "|", o[:300], flush=True)
    print(f"round {rd}: {len(reqs)} searches, {len(mreqs)} winning claims, bad so far {bad}", flush=True)
