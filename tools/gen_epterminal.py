#!/usr/bin/env python3
"""Builds corpus/ep_terminal_positions.txt: legal positions WITHOUT a legal move (stalemates and mates) in which an en-passant
capture is pseudo-legal — it is on the board but illegal: it opens the king's rank for a rook/queen (both pawns leave the rank),
opens a diagonal through the captured pawn's square, leaves a pin, or does not answer a check.  Terminal-position tests that are
written as "some piece can obviously move" shortcuts go wrong exactly here.  Classified by the model (`legalpos`, `moves`).
usage: gen_epterminal.py <seed> <trials>"""
import os, sys, random
sys.path.insert(0, os.path.dirname(os.path.abspath(__file__)))
import wee
from gen_underpromo import fen_of  # noqa


def flip(cells):
    return {(7 - s // 8) * 8 + s % 8: c.swapcase() for s, c in cells.items()}


def main():
    seed, trials = int(sys.argv[1]), int(sys.argv[2])
    rnd = random.Random(seed)
    cands = []
    for _ in range(trials):
        cells = {}
        f = rnd.randrange(8)                       # file of the pawn that just made its double step (black, now on rank 5)
        g = f + rnd.choice([-1, 1])                # file of the white capturer
        if not 0 <= g < 8:
            continue
        cells[4 * 8 + f] = "p"
        cells[4 * 8 + g] = "P"
        shape = rnd.random()
        if shape < 0.6:
            # king and an enemy rook/queen on the same rank, on opposite sides of the pawn pair
            lo, hi = min(f, g), max(f, g)
            left = list(range(0, lo)); right = list(range(hi + 1, 8))
            if not left or not right:
                continue
            kf, rf = rnd.choice(left), rnd.choice(right)
            if rnd.random() < 0.5:
                kf, rf = rf, kf
            cells[4 * 8 + kf] = "K"
            cells[4 * 8 + rf] = rnd.choice("rq")
        else:
            ks = rnd.randrange(64)
            if ks in cells or ks in (5 * 8 + f, 6 * 8 + f):
                continue
            cells[ks] = "K"
        def put(ch, pred=lambda s: True):
            for _ in range(60):
                s = rnd.randrange(64)
                if s not in cells and s not in (5 * 8 + f, 6 * 8 + f) and pred(s):
                    cells[s] = ch
                    return s
        put("k")
        for ch in rnd.choices("rbnqpp", k=rnd.randrange(1, 6)):
            put(ch, (lambda s: 0 < s // 8 < 7) if ch == "p" else (lambda s: True))
        # own men that cannot move: pawns blocked by an enemy man right in front of them
        for _ in range(rnd.randrange(0, 3)):
            s = put("P", lambda s: 0 < s // 8 < 6 and (s + 8) not in cells and (s + 8) not in (5 * 8 + f, 6 * 8 + f))
            if s is not None:
                cells[s + 8] = rnd.choice("pnb")
        white = rnd.random() < 0.5
        ep = "abcdefgh"[f] + ("6" if white else "3")
        fen = fen_of(cells if white else flip(cells), "w" if white else "b").replace(" - - 0 1", f" - {ep} 0 1")
        cands.append(fen)
    legal, _, _ = wee.run_driver(["legalpos " + c for c in cands], jobs=14)
    cands = [c for c, (m, s) in zip(cands, legal) if s == "1"]
    mv, _, _ = wee.run_driver(["moves " + c for c in cands], jobs=14)
    term = [c for c, (m, s) in zip(cands, mv) if m.split(" ")[0] == "0"]
    chk, _, _ = wee.run_driver(["attacks " + c + " " + ("b" if " w " in c else "w") for c in term], jobs=4)
    print(len(cands), "legal;", len(term), "without a legal move")
    p = os.path.join(wee.VERIF, "corpus", "ep_terminal_positions.txt")
    old = [l.strip() for l in open(p)] if os.path.exists(p) else []
    with open(p, "w") as fh:
        fh.write("\n".join(sorted(set(old) | set(term))) + "\n")


if __name__ == "__main__":
    main()
