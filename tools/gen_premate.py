#!/usr/bin/env python3
"""Builds corpus/premate_positions.txt: legal positions one ply before a checkmate, classified by the solver (`matekinds`):
single-check, double-check, smothered (the mated king has no pseudo-legal move at all).  A perft walk over them meets every
kind of terminal node as an INNER node.  usage: gen_premate.py <seed> <n>"""
import os, sys, random
sys.path.insert(0, os.path.dirname(os.path.abspath(__file__)))
import wee, props
from gen_underpromo import fen_of


def dense(rnd):
    """a hemmed-in king with two potential checkers behind a discovering piece"""
    white = rnd.random() < 0.5
    cells = {}
    def put(ch, pred=lambda s: True):
        for _ in range(60):
            s = rnd.randrange(64)
            if s not in cells and pred(s):
                cells[s] = ch
                return s
    u = (lambda c: c) if white else (lambda c: c.swapcase())
    ks = put(u("k"), lambda s: s % 8 in (0, 7) or s // 8 in (0, 7))
    near = [s for s in range(64) if s != ks and abs(s % 8 - ks % 8) <= 1 and abs(s // 8 - ks // 8) <= 1]
    for s in rnd.sample(near, rnd.randrange(2, len(near) + 1)):
        if s not in cells:
            cells[s] = u(rnd.choice("prnbp"))
            if cells[s] in "pP" and s // 8 in (0, 7):
                cells[s] = u("n")
    put(u("K"), lambda s: abs(s % 8 - ks % 8) > 2 or abs(s // 8 - ks // 8) > 2)
    for ch in rnd.sample(["Q", "R", "R", "B", "B", "N", "N", "P"], rnd.randrange(2, 6)):
        put(u(ch), lambda s: 0 < s // 8 < 7 if ch == "P" else True)
    return fen_of(cells, "w" if white else "b")


def main():
    seed, n = int(sys.argv[1]), int(sys.argv[2])
    rnd = random.Random(seed)
    cands = props.positions(seed + 1000, n) + [dense(rnd) for _ in range(n * 3)]
    ok, _, _ = wee.run_driver(["legalpos " + f for f in cands], jobs=8)
    cands = [f for f, (m, s) in zip(cands, ok) if s == "1"]
    kinds, _, _ = wee.run_driver(["matekinds " + f for f in cands], jobs=14)
    single, double, smothered = [], [], []
    for f, (m, s) in zip(cands, kinds):
        toks = [t.split(":") for t in s.split(" ") if t.count(":") == 2]
        if not toks:
            continue
        if any(int(c) >= 2 and kp == "0" for _, c, kp in toks):
            smothered.append(f)
        elif any(int(c) >= 2 for _, c, kp in toks):
            double.append(f)
        else:
            single.append(f)
    print(len(cands), "legal;", len(single), "single-check mates;", len(double), "double-check;", len(smothered), "double-check with no pseudo-legal king move")
    keep = smothered[:60] + double[:60] + single[:60]
    p = os.path.join(wee.VERIF, "corpus", "premate_positions.txt")
    old = set(open(p).read().split("\n")) if os.path.exists(p) else set()
    fixed = {"6rk/7p/8/4N3/8/8/1B6/K7 w - - 0 1"}
    with open(p, "w") as fh:
        fh.write("\n".join(sorted((old | set(keep) | fixed) - {""})) + "\n")


if __name__ == "__main__":
    main()
