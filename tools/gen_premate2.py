#!/usr/bin/env python3
"""Adds to corpus/premate_positions.txt positions one ply before a DISCOVERED DOUBLE-CHECK MATE by a knight (or pawn) plus a slider in which
the square directly BEHIND the mated king on the slider's ray is empty: a king-has-a-free-neighbour shortcut that only distrusts squares
behind the king when a SLIDER is what it knows to give check (and not when a knight or pawn does) calls such a mate an ordinary position.
Constructed (slider, a knight on the ray between slider and king that jumps off with check, blockers around the king), classified by the
model (`legalpos`, `matekinds`: a mating move with two checkers).   usage: gen_premate2.py <seed> <trials>"""
import os, sys, random
sys.path.insert(0, os.path.dirname(os.path.abspath(__file__)))
import wee
from gen_underpromo import fen_of  # noqa

KN = [(1, 2), (2, 1), (-1, 2), (-2, 1), (1, -2), (2, -1), (-1, -2), (-2, -1)]


def main():
    seed, trials = int(sys.argv[1]), int(sys.argv[2])
    rnd = random.Random(seed)
    cands = []
    for _ in range(trials):
        df, dr = rnd.choice([(1, 0), (-1, 0), (0, 1), (0, -1), (1, 1), (1, -1), (-1, 1), (-1, -1)])
        kf, kr = rnd.randrange(8), rnd.randrange(8)
        bf, br = kf + df, kr + dr                      # the square behind the king (away from the slider)
        if not (0 <= bf <= 7 and 0 <= br <= 7):
            continue
        dist = rnd.randrange(2, 7)
        sf, sr = kf - dist * df, kr - dist * dr
        if not (0 <= sf <= 7 and 0 <= sr <= 7):
            continue
        k_ = rnd.randrange(1, dist)
        mf, mr = kf - k_ * df, kr - k_ * dr            # the knight starts here, on the ray
        cells = {kr * 8 + kf: "k", sr * 8 + sf: rnd.choice("QR" if 0 in (df, dr) else "QB"), mr * 8 + mf: "N"}
        # the knight must have a jump to a square from which it attacks the king
        jumps = []
        for a, b in KN:
            nf, nr = mf + a, mr + b
            if 0 <= nf <= 7 and 0 <= nr <= 7 and (abs(nf - kf), abs(nr - kr)) in ((1, 2), (2, 1)):
                jumps.append(nr * 8 + nf)
        if not jumps:
            continue
        for a in (-1, 0, 1):
            for b in (-1, 0, 1):
                f2, r2 = kf + a, kr + b
                s2 = r2 * 8 + f2
                if (a, b) == (0, 0) or not (0 <= f2 <= 7 and 0 <= r2 <= 7) or s2 in cells or (f2, r2) == (bf, br) or s2 in jumps:
                    continue
                if (a, b) == (-df, -dr):
                    continue                              # keep the ray open
                if rnd.random() < 0.85:
                    ch = rnd.choice("pprnb")
                    cells[s2] = "n" if (ch == "p" and r2 in (0, 7)) else ch
        for _ in range(40):
            ks = rnd.randrange(64)
            if ks not in cells and ks not in jumps and ks != br * 8 + bf and max(abs(ks % 8 - kf), abs(ks // 8 - kr)) > 2:
                cells[ks] = "K"
                break
        white = rnd.random() < 0.5
        c2 = cells if white else {(7 - s0 // 8) * 8 + s0 % 8: c.swapcase() for s0, c in cells.items()}
        cands.append(fen_of(c2, "w" if white else "b"))
    cands = sorted(set(cands))
    ok, _, _ = wee.run_driver(["legalpos " + f for f in cands], jobs=14)
    cands = [f for f, (m, s) in zip(cands, ok) if s == "1"]
    kinds, _, _ = wee.run_driver(["matekinds " + f for f in cands], jobs=14)
    keep = []
    for f, (m, s) in zip(cands, kinds):
        toks = [t.split(":") for t in s.split(" ") if t.count(":") == 2]
        if any(int(c) >= 2 and kp == "1" for _, c, kp in toks):
            keep.append(f)
    print(len(cands), "legal;", len(keep), "with a double-check mate whose king still has a pseudo-legal move")
    rnd.shuffle(keep)
    p = os.path.join(wee.VERIF, "corpus", "premate_positions.txt")
    old = set(open(p).read().split("\n")) if os.path.exists(p) else set()
    with open(p, "w") as fh:
        fh.write("\n".join(sorted((old | set(keep[:80])) - {""})) + "\n")


if __name__ == "__main__":
    main()
