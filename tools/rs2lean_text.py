#!/usr/bin/env python3
"""rs2lean_text.py -- stage 3d of tie (a): the TEXT NOTATIONS (FEN writer / reader field parsers, SAN scanner, MoveQuery).

Re-reads the Rust source text of `weechess-core/src/notation.rs` (+ the Display / char helpers of `piece.rs`, `board.rs`,
`MoveQuery` of `moves.rs`, `State::new`) and translates it into `lean/Wee/Gen/TextFns.lean` (namespace `Wee.GenFns`).
`Wee/Proofs/TextFnsBridge.lean` proves the generated functions equal to the hand model (`Model/Fen.lean`, `Model/San.lean`).

Stages 1, 2 and 3a are run IN THIS PROCESS (imported as modules, untouched); their registries of translated functions are the
vocabulary this stage may call.  Own parser / emitter (strings, chars, `write!`, peekable iterators, `break`, `?`), every
translated function lives in the three-outcome monad `TRes` (ok / err = `Err(())` / panic).  Anything outside the subset:
`TIE-BROKEN rs2lean_text: <reason>`, exit 2.   Usage: rs2lean_text.py [--repo DIR] [--out FILE] [--check]
"""
import argparse
import os
import re
import sys

sys.path.insert(0, os.path.dirname(os.path.abspath(__file__)))
import rs2lean as R            # noqa: E402
import rs2lean2 as R2          # noqa: E402
import rs2lean3 as R3          # noqa: E402
from rs2lean import TieBroken, fail, lex, match_close, find_container, scan_items, mangle   # noqa: E402

VERIF = os.path.dirname(os.path.dirname(os.path.abspath(__file__)))
DEFAULT_OUT = os.path.join(VERIF, "lean", "Wee", "Gen", "TextFns.lean")
NOTATION = "weechess-core/src/notation.rs"
BOARD = "weechess-core/src/board.rs"
PIECE = "weechess-core/src/piece.rs"
MOVES = "weechess-core/src/moves.rs"
STATE = "weechess-core/src/state.rs"

# ----------------------------------------------------------------------------------------------------------------------
# THE TABLE.  file, path of block headers (token sequences), Self type (Rust syntax), functions {rust name: lean name}.
# `complete`: any other `fn` in the block is a broken tie unless named in `skip`.
# ----------------------------------------------------------------------------------------------------------------------
def H(s):
    return [t.s for t in lex(s, "<table>")]


CONTAINERS = [
    # ---- target 1: the FEN writer and the Display impls it prints through
    dict(file=PIECE, path=[H("impl Into<char> for Piece")], self="Piece", fns={"into": "Piece.into_char"}, complete=True),
    dict(file=PIECE, path=[H("impl Display for Piece")], self="Piece", fns={"fmt": "Piece.fmt"}, complete=True),
    dict(file=PIECE, path=[H("impl Display for PieceIndex")], self="PieceIndex", fns={"fmt": "PieceIndex.fmt"}, complete=True),
    dict(file=BOARD, path=[H("impl Display for File")], self="File", fns={"fmt": "File.fmt"}, complete=True),
    dict(file=BOARD, path=[H("impl Display for Rank")], self="Rank", fns={"fmt": "Rank.fmt"}, complete=True),
    dict(file=BOARD, path=[H("impl Display for Square")], self="Square", fns={"fmt": "Square.fmt"}, complete=True),
    dict(file=BOARD, path=[H("impl From<&Board> for ArrayMap<Square, PieceIndex>")], self="ArrayMap<Square, PieceIndex>",
         fns={"from": "ArrayMap.from_Board"}, complete=True),
    dict(file=NOTATION, path=[H("mod fen"), H("impl IntoNotation<State> for Fen")], self="Fen",
         fns={"into_notation": "Fen.into_notation"}, complete=True, mod="fen"),
    # ---- target 2: the field parsers behind the regex
    dict(file=BOARD, path=[H("impl File")], self="File", fns={"from_char": "File.from_char"}, complete=False),
    dict(file=BOARD, path=[H("impl Rank")], self="Rank", fns={"from_char": "Rank.from_char"}, complete=False),
    dict(file=BOARD, path=[H("impl Square")], self="Square", fns={"rank_file": "Square.rank_file"}, complete=False),
    dict(file=BOARD, path=[H("impl TryFrom<&str> for Square")], self="Square", fns={"try_from": "Square.try_from_str"},
         complete=True),
    dict(file=BOARD, path=[H("impl Board")], self="Board", fns={"empty_map": "Board.empty_map"}, complete=False),
    dict(file=BOARD, path=[H("impl From<&ArrayMap<Square, PieceIndex>> for Board")], self="Board",
         fns={"from": "Board.from_ArrayMap"}, complete=True),
    dict(file=STATE, path=[H("impl State")], self="State", fns={"new": "State.new"}, complete=False),
    dict(file=NOTATION, path=[H("mod fen"), H("mod token")], self=None, fns={}, consts="token", complete=True, mod="fen"),
    dict(file=NOTATION, path=[H("mod fen")], self=None, fns={}, consts="fen", only_consts=["FEN_REGEX"], complete=False, mod="fen"),
    dict(file=NOTATION, path=[H("mod fen"), H("impl PieceIndex")], self="PieceIndex", fns={"try_parse": "PieceIndex.try_parse"},
         complete=True, mod="fen"),
    dict(file=NOTATION, path=[H("mod fen"), H("impl ArrayMap<Color, CastleRights>")], self="ArrayMap<Color, CastleRights>",
         fns={"try_parse": "ArrayMap.try_parse"}, complete=True, mod="fen"),
    dict(file=NOTATION, path=[H("mod fen"), H("impl Board")], self="Board", fns={"try_parse": "Board.try_parse"}, complete=True,
         mod="fen"),
    dict(file=NOTATION, path=[H("mod fen"), H("impl TryFromNotation<State> for Fen")], self="Fen",
         fns={"try_from_notation": "Fen.try_from_notation"}, complete=True, mod="fen"),
    # ---- target 3: move queries and the SAN scanner
    dict(file=MOVES, path=[H("impl MoveQuery")], self="MoveQuery",
         fns={n: "MoveQuery." + n for n in ["new", "by_moving_from_to", "by_castling", "set_origin", "set_origin_rank",
                                             "set_origin_file", "set_destination", "set_destination_rank",
                                             "set_destination_file", "set_promotion", "set_castle", "set_piece",
                                             "set_is_capture", "test"]}, complete=True),
    dict(file=NOTATION, path=[H("mod san"), H("impl TryFromNotation<MoveQuery> for San")], self="San",
         fns={"try_from_notation": "San.try_from_notation"}, complete=True, mod="san"),
    # ---- target 4: coordinate notation (writer)
    dict(file=NOTATION, path=[H("pub mod lan"), H("impl IntoNotation<Move> for Lan")], self="Lan",
         fns={"into_notation": "Lan.into_notation"}, complete=True, mod="lan"),
]

# every `fn` of notation.rs must be translated or named here (a new fn is a broken tie)
NOTATION_SKIP = {
    "deref": "generic plumbing `Notation<T, F>` (Deref)",
    "fmt": "generic plumbing: `Display for Notation` = `F::into_notation(self, f)` (checked textually)",
    "from": "generic plumbing `From<T> for Notation`",
    "try_from_notation@top": "generic wrapper `F::try_from_notation(s).map_err(|_| ())`",
    "into_notation@top": "generic wrapper building `Notation { Cow::Borrowed(value) }`",
    "into_notation@peg": "PEG writer (book tooling; not a property target)",
    "into_notation@lan2": "`IntoNotation<&[Move]> for Lan` (enumerate + `len() - 1`): not translated",
    "test_default_fen": "test", "test_round_trip": "test",
}

# struct declarations translated into Lean structures (fields prefixed `f_` as in stage 2)
STRUCT_DECLS = [(MOVES, "MoveQuery")]

TEXT_CHECKS = [
    (NOTATION, r"impl<T, F> Display for Notation<'_, T, F>\s*where\s*T: Sized \+ Clone,\s*F: IntoNotation<T>,\s*\{\s*fn fmt\(&self, f: &mut std::fmt::Formatter<'_>\) -> std::fmt::Result \{\s*F::into_notation\(self, f\)\s*\}\s*\}",
     "Display for Notation forwards to F::into_notation"),
    (NOTATION, r"fn try_from_notation\(notation: &str\) -> Result<Value, Self::Error>;", "trait TryFromNotation"),
    (NOTATION, r"fn into_notation\(value: &Value, f: &mut std::fmt::Formatter<'_>\) -> std::fmt::Result;", "trait IntoNotation"),
    (STATE, r"pub struct Clock \{\s*pub halfmove_clock: usize,\s*pub fullmove_number: usize,\s*\}", "struct Clock"),
    (STATE, r"pub struct CastleRights \{\s*pub kingside: bool,\s*pub queenside: bool,\s*\}", "struct CastleRights"),
    (BOARD, r"#\[derive\([^)]*\bDefault\b[^)]*\)\]\s*pub struct BitBoard\(u64\);", "BitBoard derives Default (= 0)"),
]

INT_LEAN = {"u8": "UInt8", "u32": "UInt32", "u64": "UInt64", "usize": "UInt64", "i8": "Int8", "i32": "Int32"}
NEWTYPES = dict(R.NEWTYPES)          # Square/Rank/File/PieceIndex -> u8 (transparent), Move -> BitSet
ENUMS = R.ENUMS


# ----------------------------------------------------------------------------------------------------------------------
# types: tuples  ('u8',) ('char',) ('str',) ('Option', T) ('Result', T) ('ArrayMap', K, V) ('tuple', T..) ('slice', T)
#                ('iter', T) ('fmt',) ('regex',) ('captures',) ('unit',) ('Piece',) ... holes ('?', n)
# ----------------------------------------------------------------------------------------------------------------------
class TyParser:
    def __init__(self, toks, self_ty, fname):
        self.t, self.i, self.self_ty, self.fname = toks, 0, self_ty, fname

    def peek(self):
        return self.t[self.i].s if self.i < len(self.t) else None

    def eat(self, s=None):
        if self.i >= len(self.t):
            fail(f"{self.fname}: unexpected end of type")
        tok = self.t[self.i]
        if s is not None and tok.s != s:
            fail(f"{self.fname}:{tok.line}: expected `{s}`, found `{tok.s}`")
        self.i += 1
        return tok

    def ty(self):
        p = self.peek()
        if p == "&":
            self.eat()
            if self.i < len(self.t) and self.t[self.i].k == "life":
                self.eat()
            if self.peek() == "mut":
                self.eat()
            return self.ty()
        if p == "&&":
            self.eat()
            return self.ty()
        if p == "(":
            self.eat()
            items = []
            while self.peek() != ")":
                items.append(self.ty())
                if self.peek() == ",":
                    self.eat()
            self.eat(")")
            if not items:
                return ("unit",)
            return ("tuple",) + tuple(items)
        if p == "[":
            self.eat()
            t = self.ty()
            if self.peek() == ";":
                while self.peek() != "]":
                    self.eat()
            self.eat("]")
            return ("slice", t)
        tok = self.eat()
        if tok.k != "id":
            fail(f"{self.fname}:{tok.line}: type `{tok.s}` not supported")
        segs = [tok.s]
        while self.peek() == "::":
            self.eat()
            segs.append(self.eat().s)
        args = []
        if self.peek() == "<":
            self.eat()
            while self.peek() != ">":
                if self.t[self.i].k == "life":
                    self.eat()
                else:
                    args.append(self.ty())
                if self.peek() == ",":
                    self.eat()
            self.eat(">")
        name = segs[-1]
        if segs == ["Self", "Error"]:
            return ("unit",)
        if segs[:-1] and segs[-2] == "fmt" and name == "Result":
            return ("fmtresult",)
        if name == "Self":
            if self.self_ty is None:
                fail(f"{self.fname}:{tok.line}: `Self` outside an impl")
            return self.self_ty
        if name in ("str", "String"):
            return ("str",)
        if name == "Formatter":
            return ("fmt",)
        if name in ("Option", "Vec"):
            return ("Option" if name == "Option" else "slice", args[0])
        if name == "Result":
            return ("Result", args[0])
        if name == "ArrayMap":
            return ("ArrayMap", args[0], args[1])
        if args:
            fail(f"{self.fname}:{tok.line}: generic type `{name}<..>` not supported")
        return (name,)


def parse_ty_str(s, self_ty=None):
    s = s.replace("slice<", "Vec<")
    p = TyParser(lex(s, "<type>"), self_ty, "<type>")
    t = p.ty()
    if p.i != len(p.t):
        fail(f"cannot parse type `{s}`")
    return t


def show(t):
    if t[0] == "?":
        return "_"
    if len(t) == 1:
        return t[0]
    if t[0] == "tuple":
        return "(" + ", ".join(show(x) for x in t[1:]) + ")"
    return t[0] + "<" + ", ".join(show(x) for x in t[1:]) + ">"


def tyname(t):
    """name fragment used in overloaded lean names"""
    return show(t).replace("<", "_").replace(">", "").replace(", ", "_").replace("(", "").replace(")", "")


# ----------------------------------------------------------------------------------------------------------------------
# parser for function bodies (AST = tuples)
# ----------------------------------------------------------------------------------------------------------------------
BINPREC = [["||"], ["&&"], ["==", "!=", "<", ">", "<=", ">="], ["|"], ["^"], ["&"], ["<<", ">>"], ["+", "-"], ["*", "/", "%"]]
ASSIGN_OPS = {"=", "+=", "-=", "|=", "&="}


def unescape(body, line):
    out, i = [], 0
    while i < len(body):
        c = body[i]
        if c == "\\":
            n = body[i + 1]
            m = {"n": "\n", "t": "\t", "r": "\r", "0": "\0", "\\": "\\", "'": "'", '"': '"'}
            if n in m:
                out.append(m[n])
                i += 2
                continue
            fail(f"line {line}: escape `\\{n}` not supported")
        out.append(c)
        i += 1
    return "".join(out)


class BodyParser(TyParser):
    def kind(self):
        return self.t[self.i].k if self.i < len(self.t) else None

    def line(self):
        return self.t[min(self.i, len(self.t) - 1)].line

    def err(self, msg):
        fail(f"{self.fname}:{self.line()}: {msg}")

    # ---- blocks and statements
    def block(self):
        self.eat("{")
        stmts, tail = [], None
        while self.peek() != "}":
            if self.peek() == ";":
                self.eat()
                continue
            p = self.peek()
            ln = self.line()
            if p == "let":
                self.eat()
                pat = self.pattern()
                ty = None
                if self.peek() == ":":
                    self.eat()
                    ty = self.ty()
                if self.peek() != "=":
                    self.err("`let` without initialiser")
                self.eat("=")
                init = self.expr()
                if self.peek() == "else":
                    self.err("`let … else` not supported")
                self.eat(";")
                stmts.append(("let", pat, ty, init, ln))
                continue
            if p == "const":
                self.eat()
                name = self.eat().s
                self.eat(":")
                ty = self.ty()
                self.eat("=")
                init = self.expr()
                self.eat(";")
                stmts.append(("let", ("pbind", name), ty, init, ln))
                continue
            if p == "for":
                self.eat()
                pat = self.pattern()
                self.eat("in")
                it = self.expr(nostruct=True)
                body = self.block()
                stmts.append(("expr", ("for", pat, it, body, ln), ln))
                continue
            if p in ("while", "loop", "unsafe", "fn", "struct", "impl", "use", "static"):
                self.err(f"`{p}` not supported")
            e = self.expr(stmt=True)
            if self.peek() == ";":
                self.eat()
                stmts.append(("expr", e, ln))
            elif self.peek() == "}":
                tail = e
            elif e[0] in ("if", "iflet", "match", "block"):
                stmts.append(("expr", e, ln))
            else:
                self.err(f"expected `;` or `}}`, found `{self.peek()}`")
        self.eat("}")
        return ("block", stmts, tail)

    # ---- patterns
    def pattern(self):
        alts = [self.pattern1()]
        while self.peek() == "|":
            self.eat()
            alts.append(self.pattern1())
        return alts[0] if len(alts) == 1 else ("por", alts)

    def pattern1(self):
        p, k = self.peek(), self.kind()
        if p == "&":
            self.eat()
            return self.pattern1()
        if p == "mut":
            self.eat()
            return self.pattern1()
        if p == "_":
            self.eat()
            return ("pwild",)
        if p == "(":
            self.eat()
            items = []
            while self.peek() != ")":
                items.append(self.pattern())
                if self.peek() == ",":
                    self.eat()
            self.eat(")")
            return ("ptuple", items)
        if k in ("chr", "str", "int"):
            lo = self.literal()
            if self.peek() in ("..=", ".."):
                incl = self.eat().s == "..="
                hi = self.literal()
                return ("prange", lo, hi, incl)
            return ("plit", lo)
        if k == "id":
            segs = [self.eat().s]
            while self.peek() == "::":
                self.eat()
                segs.append(self.eat().s)
            if self.peek() == "(":
                self.eat()
                items = []
                while self.peek() != ")":
                    items.append(self.pattern())
                    if self.peek() == ",":
                        self.eat()
                self.eat(")")
                return ("pctor", segs, items)
            if self.peek() == "{":
                self.err("struct patterns not supported")
            if self.peek() == "@":
                self.err("`@` patterns not supported")
            if len(segs) == 1 and segs[0] not in ("None",) and (segs[0][0].islower() or segs[0][0] == "_"):
                return ("pbind", segs[0])
            return ("ppath", segs)
        self.err(f"pattern `{p}` not supported")

    def literal(self):
        tok = self.eat()
        if tok.k == "chr":
            if tok.s.startswith("b"):
                self.err("byte literals not supported")
            c = unescape(tok.s[1:-1], tok.line)
            if len(c) != 1:
                self.err(f"char literal {tok.s}")
            return ("char", c)
        if tok.k == "str":
            if tok.s.startswith("b"):
                self.err("byte strings not supported")
            return ("str", unescape(tok.s[1:-1], tok.line))
        if tok.k == "rstr":
            m = re.match(r'r(#*)"(.*)"\1$', tok.s, re.S)
            return ("str", m.group(2))
        if tok.k == "int":
            return ("int", tok.s)
        self.err(f"literal `{tok.s}` not supported")

    # ---- expressions
    def expr(self, stmt=False, nostruct=False, level=0):
        if level == 0:
            if self.peek() == "return":
                self.eat()
                if self.peek() in (";", "}", ","):
                    return ("return", None)
                return ("return", self.expr(nostruct=nostruct))
            if self.peek() == "break":
                self.eat()
                if self.peek() not in (";", "}", ","):
                    self.err("`break` with a label or value not supported")
                return ("break",)
            if self.peek() == "continue":
                self.err("`continue` not supported")
            lhs = self.expr(stmt, nostruct, 1)
            if self.peek() in ASSIGN_OPS:
                op = self.eat().s
                rhs = self.expr(nostruct=nostruct)
                return ("assign", op, lhs, rhs)
            if self.peek() in ("^=", "*=", "/=", "%=", "<<=", ">>=", "..", "..="):
                self.err(f"operator `{self.peek()}` not supported here")
            return lhs
        if level > len(BINPREC):
            return self.cast(stmt, nostruct)
        lhs = self.expr(stmt, nostruct, level + 1)
        if stmt and lhs[0] in ("if", "iflet", "match", "block", "for"):
            return lhs
        while self.peek() in BINPREC[level - 1]:
            op = self.eat().s
            rhs = self.expr(False, nostruct, level + 1)
            lhs = ("binary", op, lhs, rhs)
        return lhs

    def cast(self, stmt, nostruct):
        e = self.unary(stmt, nostruct)
        while self.peek() == "as":
            self.eat()
            e = ("cast", e, self.ty())
        return e

    def unary(self, stmt, nostruct):
        p = self.peek()
        if p in ("!", "-"):
            self.eat()
            return ("unary", p, self.unary(False, nostruct))
        if p in ("*", "&", "&&"):
            self.eat()
            if self.peek() == "mut":
                self.eat()
            return self.unary(False, nostruct)
        return self.postfix(stmt, nostruct)

    def args(self):
        self.eat("(")
        out = []
        while self.peek() != ")":
            out.append(self.expr())
            if self.peek() == ",":
                self.eat()
        self.eat(")")
        return out

    def postfix(self, stmt, nostruct):
        e = self.primary(nostruct)
        if stmt and e[0] in ("if", "iflet", "match", "block"):
            return e
        while True:
            p = self.peek()
            if p == "?":
                self.eat()
                e = ("try", e)
            elif p == ".":
                self.eat()
                tok = self.eat()
                if tok.k == "int":
                    e = ("field", e, tok.s)
                    continue
                if tok.s == "await":
                    self.err("`.await` not supported")
                gen = None
                if self.peek() == "::":
                    self.eat()
                    self.eat("<")
                    gen = []
                    while self.peek() != ">":
                        gen.append(self.ty())
                        if self.peek() == ",":
                            self.eat()
                    self.eat(">")
                if self.peek() == "(":
                    e = ("mcall", e, tok.s, self.args(), gen, tok.line)
                else:
                    e = ("field", e, tok.s)
            elif p == "[":
                self.eat()
                ix = self.expr()
                self.eat("]")
                e = ("index", e, ix, self.line())
            elif p == "(":
                ln = self.line()
                e = ("call", e, self.args(), ln)
            else:
                return e

    def primary(self, nostruct):
        p, k = self.peek(), self.kind()
        ln = self.line()
        if k in ("chr", "str", "rstr", "int"):
            return self.literal()
        if p == "(":
            self.eat()
            items = []
            trailing = False
            while self.peek() != ")":
                items.append(self.expr())
                trailing = False
                if self.peek() == ",":
                    self.eat()
                    trailing = True
            self.eat(")")
            if not items:
                return ("unit",)
            if len(items) == 1 and not trailing:
                return items[0]
            return ("tuple", items)
        if p == "{":
            return self.block()
        if p == "if":
            self.eat()
            if self.peek() == "let":
                self.eat()
                pat = self.pattern()
                self.eat("=")
                scrut = self.expr(nostruct=True)
                then = self.block()
                els = None
                if self.peek() == "else":
                    self.eat()
                    els = self.primary(nostruct) if self.peek() == "if" else self.block()
                return ("iflet", pat, scrut, then, els, ln)
            cond = self.expr(nostruct=True)
            then = self.block()
            els = None
            if self.peek() == "else":
                self.eat()
                els = self.primary(nostruct) if self.peek() == "if" else self.block()
            return ("if", cond, then, els, ln)
        if p == "match":
            self.eat()
            scrut = self.expr(nostruct=True)
            self.eat("{")
            arms = []
            while self.peek() != "}":
                pat = self.pattern()
                if self.peek() == "if":
                    self.err("match guards not supported")
                self.eat("=>")
                body = self.expr(stmt=True)
                if self.peek() == ",":
                    self.eat()
                arms.append((pat, body))
            self.eat("}")
            return ("match", scrut, arms, ln)
        if p == "|" or p == "||":
            params = []
            if p == "||":
                self.eat()
            else:
                self.eat()
                while self.peek() != "|":
                    params.append(self.pattern1())
                    if self.peek() == ":":
                        self.err("typed closure parameters not supported")
                    if self.peek() == ",":
                        self.eat()
                self.eat("|")
            body = self.expr()
            return ("closure", params, body, ln)
        if p in ("move", "while", "loop", "unsafe", "for", "async"):
            self.err(f"`{p}` not supported here")
        if k == "id":
            segs = [self.eat().s]
            gens = {}
            while self.peek() == "::":
                self.eat()
                if self.peek() == "<":
                    self.eat()
                    g = []
                    while self.peek() != ">":
                        g.append(("?", "_") if self.peek() == "_" and self.eat() else self.ty())
                        if self.peek() == ",":
                            self.eat()
                    self.eat(">")
                    gens[len(segs) - 1] = g
                else:
                    segs.append(self.eat().s)
            if self.peek() == "!":
                self.eat()
                name = segs[-1]
                if name == "write":
                    self.eat("(")
                    f = self.expr()
                    self.eat(",")
                    fm = self.literal()
                    if fm[0] != "str":
                        self.err("write!: format must be a string literal")
                    args = []
                    while self.peek() == ",":
                        self.eat()
                        if self.peek() == ")":
                            break
                        args.append(self.expr())
                    self.eat(")")
                    return ("write", f, fm[1], args, ln)
                if name == "debug_assert":
                    a = self.args()
                    return ("debug_assert", a[0], ln)
                self.err(f"macro `{name}!` not supported")
            if self.peek() == "{" and not nostruct and segs[-1][0].isupper() and len(segs) == 1:
                self.eat()
                fields = []
                while self.peek() != "}":
                    fname = self.eat().s
                    if fname == "..":
                        self.err("struct update syntax not supported")
                    if self.peek() == ":":
                        self.eat()
                        fields.append((fname, self.expr()))
                    else:
                        fields.append((fname, ("path", [fname], {}, ln)))
                    if self.peek() == ",":
                        self.eat()
                self.eat("}")
                return ("struct", segs[0], fields, ln)
            return ("path", segs, gens, ln)
        self.err(f"expression starting with `{p}` not supported")
