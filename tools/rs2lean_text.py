#!/usr/bin/env python3
"""rs2lean_text.py -- stage 3d of tie (a): the TEXT NOTATIONS (FEN writer / reader field parsers, SAN scanner, MoveQuery).

Re-reads the Rust source text of `weechess-core/src/notation.rs` (+ the Display / char helpers of `piece.rs`, `board.rs`,
`MoveQuery` of `moves.rs`, `State::new`) and translates it into `lean/Wee/Gen/TextFns.lean` (namespace `Wee.GenFns`).
`Wee/Proofs/TextFnsBridge.lean` proves the generated functions equal to the hand model (`Model/Fen.lean`, `Model/San.lean`).

Stages 1, 2 and 3a are run IN THIS PROCESS (imported as modules, untouched); their registries of translated functions are the
vocabulary this stage may call.  Own parser / emitter (strings, chars, `write!`, peekable iterators, `break`, `?`), every
translated function lives in the three-outcome monad `TRes` (ok / err = `Err(())` / panic).  Anything outside the subset:
`TIE-BROKEN rs2lean_text: <reason>`, exit 2.   Usage: rs2lean_text.py [--repo DIR] [--out FILE] [--check]
"""
import argparse
import os
import re
import sys

sys.path.insert(0, os.path.dirname(os.path.abspath(__file__)))
import rs2lean as R            # noqa: E402
import rs2lean2 as R2          # noqa: E402
import rs2lean3 as R3          # noqa: E402
from rs2lean import TieBroken, fail, lex, match_close, find_container, scan_items, mangle   # noqa: E402

VERIF = os.path.dirname(os.path.dirname(os.path.abspath(__file__)))
DEFAULT_OUT = os.path.join(VERIF, "lean", "Wee", "Gen", "TextFns.lean")
NOTATION = "weechess-core/src/notation.rs"
BOARD = "weechess-core/src/board.rs"
PIECE = "weechess-core/src/piece.rs"
MOVES = "weechess-core/src/moves.rs"
STATE = "weechess-core/src/state.rs"
UCI = "weechess-engine/src/uci.rs"

# ----------------------------------------------------------------------------------------------------------------------
# THE TABLE.  file, path of block headers (token sequences), Self type (Rust syntax), functions {rust name: lean name}.
# `complete`: any other `fn` in the block is a broken tie unless named in `skip`.
# ----------------------------------------------------------------------------------------------------------------------
def H(s):
    return [t.s for t in lex(s, "<table>")]


CONTAINERS = [
    # ---- target 1: the FEN writer and the Display impls it prints through
    dict(file=PIECE, path=[H("impl Into<char> for Piece")], self="Piece", fns={"into": "Piece.into_char"}, complete=True),
    dict(file=PIECE, path=[H("impl Display for Piece")], self="Piece", fns={"fmt": "Piece.fmt"}, complete=True),
    dict(file=PIECE, path=[H("impl Display for PieceIndex")], self="PieceIndex", fns={"fmt": "PieceIndex.fmt"}, complete=True),
    dict(file=BOARD, path=[H("impl Display for File")], self="File", fns={"fmt": "File.fmt"}, complete=True),
    dict(file=BOARD, path=[H("impl Display for Rank")], self="Rank", fns={"fmt": "Rank.fmt"}, complete=True),
    dict(file=BOARD, path=[H("impl Display for Square")], self="Square", fns={"fmt": "Square.fmt"}, complete=True),
    dict(file=BOARD, path=[H("impl From<&Board> for ArrayMap<Square, PieceIndex>")], self="ArrayMap<Square, PieceIndex>",
         fns={"from": "ArrayMap.from_Board"}, complete=True),
    dict(file=NOTATION, path=[H("mod fen"), H("impl IntoNotation<State> for Fen")], self="Fen",
         fns={"into_notation": "Fen.into_notation"}, complete=True, mod="fen"),
    # ---- target 2: the field parsers behind the regex
    dict(file=BOARD, path=[H("impl File")], self="File", fns={"from_char": "File.from_char"}, complete=False),
    dict(file=BOARD, path=[H("impl Rank")], self="Rank", fns={"from_char": "Rank.from_char"}, complete=False),
    dict(file=BOARD, path=[H("impl Square")], self="Square", fns={"rank_file": "Square.rank_file"}, complete=False),
    dict(file=BOARD, path=[H("impl TryFrom<&str> for Square")], self="Square", fns={"try_from": "Square.try_from_str"},
         complete=True),
    dict(file=BOARD, path=[H("impl Board")], self="Board", fns={"empty_map": "Board.empty_map"}, complete=False),
    dict(file=BOARD, path=[H("impl From<&ArrayMap<Square, PieceIndex>> for Board")], self="Board",
         fns={"from": "Board.from_ArrayMap"}, complete=True),
    dict(file=STATE, path=[H("impl State")], self="State", fns={"new": "State.new"}, complete=False),
    dict(file=NOTATION, path=[H("mod fen"), H("mod token")], self=None, fns={}, consts="token", complete=True, mod="fen"),
    dict(file=NOTATION, path=[H("mod fen")], self=None, fns={}, consts="fen", only_consts=["FEN_REGEX"], complete=False, mod="fen"),
    dict(file=NOTATION, path=[H("mod fen"), H("impl PieceIndex")], self="PieceIndex", fns={"try_parse": "PieceIndex.try_parse"},
         complete=True, mod="fen"),
    dict(file=NOTATION, path=[H("mod fen"), H("impl ArrayMap<Color, CastleRights>")], self="ArrayMap<Color, CastleRights>",
         fns={"try_parse": "ArrayMap.try_parse"}, complete=True, mod="fen"),
    dict(file=NOTATION, path=[H("mod fen"), H("impl Board")], self="Board", fns={"try_parse": "Board.try_parse"}, complete=True,
         mod="fen"),
    dict(file=NOTATION, path=[H("mod fen"), H("impl TryFromNotation<State> for Fen")], self="Fen",
         fns={"try_from_notation": "Fen.try_from_notation"}, complete=True, mod="fen"),
    # ---- target 3: move queries and the SAN scanner
    dict(file=MOVES, path=[H("impl MoveQuery")], self="MoveQuery",
         fns={n: "MoveQuery." + n for n in ["new", "set_origin", "set_origin_rank",
                                             "set_origin_file", "set_destination", "set_destination_rank",
                                             "set_destination_file", "set_promotion", "set_castle", "set_piece",
                                             "set_is_capture", "by_moving_from_to", "by_castling", "test"]}, complete=True),
    dict(file=NOTATION, path=[H("mod san"), H("impl TryFromNotation<MoveQuery> for San")], self="San",
         fns={"try_from_notation": "San.try_from_notation"}, complete=True, mod="san"),
    # ---- target 4: coordinate notation (writer)
    dict(file=NOTATION, path=[H("pub mod lan"), H("impl IntoNotation<Move> for Lan")], self="Lan",
         fns={"into_notation": "Lan.into_notation"}, complete=True, mod="lan"),
    dict(file=NOTATION, path=[H("pub mod lan"), H("impl IntoNotation<&[Move]> for Lan")], self="Lan",
         fns={"into_notation": "Lan.into_notation_slice"}, complete=True, mod="lan"),
]

# closures translated as functions.  `anchor`: the token sequence that ends with the closure's parameter list (exactly one
# occurrence in the file), followed by the `{ .. }` body and `closer`.  The parameter types are STATED here (a closure
# parameter carries no type in the text); the result type `Option<T>` is translated with `None` = `TRes.err`
# (`?` on an Option, `.ok()?` on a Result<_, _>, `return None`, a final `Some(v)`).
CLOSURES = [
    dict(file=UCI, anchor=H("let move_details: Vec<MoveQuery> = moves.into_iter().filter_map(|m|"), closer=H(").collect();"),
         params=[("m", "&str")], ret="Option<MoveQuery>", lean="uci.parse_move_token",
         note="uci.rs `position … moves`: the `filter_map` closure over `moves: &[&str]` (parameter `m: &&str`, stated in the table)"),
]

# every `fn` of notation.rs must be translated or named here (a new fn is a broken tie)
NOTATION_SKIP = {
    "deref": "generic plumbing `Notation<T, F>` (Deref)",
    "fmt": "generic plumbing: `Display for Notation` = `F::into_notation(self, f)` (checked textually)",
    "from": "generic plumbing `From<T> for Notation`",
    "try_from_notation@top": "generic wrapper `F::try_from_notation(s).map_err(|_| ())`",
    "into_notation@top": "generic wrapper building `Notation { Cow::Borrowed(value) }`",
    "into_notation@peg": "PEG writer (book tooling; not a property target)",
    "test_default_fen": "test", "test_round_trip": "test",
}

# struct declarations translated into Lean structures (fields prefixed `f_` as in stage 2)
STRUCT_DECLS = [(MOVES, "MoveQuery")]

TEXT_CHECKS = [
    (NOTATION, r"impl<T, F> Display for Notation<'_, T, F>\s*where\s*T: Sized \+ Clone,\s*F: IntoNotation<T>,\s*\{\s*fn fmt\(&self, f: &mut std::fmt::Formatter<'_>\) -> std::fmt::Result \{\s*F::into_notation\(self, f\)\s*\}\s*\}",
     "Display for Notation forwards to F::into_notation"),
    (NOTATION, r"fn try_from_notation\(notation: &str\) -> Result<Value, Self::Error>;", "trait TryFromNotation"),
    (NOTATION, r"pub fn into_notation<T, F>\(value: &T\) -> Notation<'_, T, F>\s*where\s*T: Sized \+ Clone,\s*F: IntoNotation<T>,\s*\{\s*Notation \{\s*value: Cow::Borrowed\(value\),\s*_marker: PhantomData,\s*\}\s*\}",
     "free fn into_notation wraps the borrowed value in a Notation (whose Display forwards to F::into_notation)"),
    (NOTATION, r"fn into_notation\(value: &Value, f: &mut std::fmt::Formatter<'_>\) -> std::fmt::Result;", "trait IntoNotation"),
    (STATE, r"pub struct Clock \{\s*pub halfmove_clock: usize,\s*pub fullmove_number: usize,\s*\}", "struct Clock"),
    (STATE, r"pub struct CastleRights \{\s*pub kingside: bool,\s*pub queenside: bool,\s*\}", "struct CastleRights"),
    (BOARD, r"#\[derive\([^)]*\bDefault\b[^)]*\)\]\s*pub struct BitBoard\(u64\);", "BitBoard derives Default (= 0)"),
    (UCI, r"let parts: Vec<&str> = cmd\.split_ascii_whitespace\(\)\.collect\(\);\s*match parts\.split_first\(\) \{", "uci.rs: the command line is split into `&str` words (`parts: Vec<&str>`, matched by `split_first`)"),
    (UCI, r"Some\(\(&\"position\", args\)\) => \{", "uci.rs: `args` of the `position` command are the remaining words"),
    (UCI, r"let \(pos, moves\) = args\s*\.split_once\(\|arg\| arg == &\"moves\"\)\s*\.unwrap_or\(\(args, &\[\]\)\);", "uci.rs: `moves` is the slice of words after `moves`"),
]

INT_LEAN = {"u8": "UInt8", "u32": "UInt32", "u64": "UInt64", "usize": "UInt64", "i8": "Int8", "i32": "Int32"}
NEWTYPES = dict(R.NEWTYPES)          # Square/Rank/File/PieceIndex -> u8 (transparent), Move -> BitSet
ENUMS = R.ENUMS


# ----------------------------------------------------------------------------------------------------------------------
# types: tuples  ('u8',) ('char',) ('str',) ('Option', T) ('Result', T) ('ArrayMap', K, V) ('tuple', T..) ('slice', T)
#                ('iter', T) ('fmt',) ('regex',) ('captures',) ('unit',) ('Piece',) ... holes ('?', n)
# ----------------------------------------------------------------------------------------------------------------------
class TyParser:
    def __init__(self, toks, self_ty, fname):
        self.t, self.i, self.self_ty, self.fname = toks, 0, self_ty, fname

    def peek(self):
        return self.t[self.i].s if self.i < len(self.t) else None

    def eat(self, s=None):
        if self.i >= len(self.t):
            fail(f"{self.fname}: unexpected end of type")
        tok = self.t[self.i]
        if s is not None and tok.s != s:
            fail(f"{self.fname}:{tok.line}: expected `{s}`, found `{tok.s}`")
        self.i += 1
        return tok

    def ty(self):
        p = self.peek()
        if p == "&":
            self.eat()
            if self.i < len(self.t) and self.t[self.i].k == "life":
                self.eat()
            if self.peek() == "mut":
                self.eat()
            return self.ty()
        if p == "&&":
            self.eat()
            return self.ty()
        if p == "(":
            self.eat()
            items = []
            while self.peek() != ")":
                items.append(self.ty())
                if self.peek() == ",":
                    self.eat()
            self.eat(")")
            if not items:
                return ("unit",)
            return ("tuple",) + tuple(items)
        if p == "[":
            self.eat()
            t = self.ty()
            if self.peek() == ";":
                while self.peek() != "]":
                    self.eat()
            self.eat("]")
            return ("slice", t)
        tok = self.eat()
        if tok.k != "id":
            fail(f"{self.fname}:{tok.line}: type `{tok.s}` not supported")
        segs = [tok.s]
        while self.peek() == "::":
            self.eat()
            segs.append(self.eat().s)
        args = []
        if self.peek() == "<":
            self.eat()
            while self.peek() != ">":
                if self.t[self.i].k == "life":
                    self.eat()
                else:
                    args.append(self.ty())
                if self.peek() == ",":
                    self.eat()
            self.eat(">")
        name = segs[-1]
        if segs == ["Self", "Error"]:
            return ("unit",)
        if segs[:-1] and segs[-2] == "fmt" and name == "Result":
            return ("fmtresult",)
        if name == "Self":
            if self.self_ty is None:
                fail(f"{self.fname}:{tok.line}: `Self` outside an impl")
            return self.self_ty
        if name in ("str", "String"):
            return ("str",)
        if name == "Formatter":
            return ("fmt",)
        if name in ("Option", "Vec"):
            return ("Option" if name == "Option" else "slice", args[0])
        if name == "Result":
            return ("Result", args[0])
        if name == "ArrayMap":
            return ("ArrayMap", args[0], args[1])
        if args:
            fail(f"{self.fname}:{tok.line}: generic type `{name}<..>` not supported")
        return (name,)


def parse_ty_str(s, self_ty=None):
    s = s.replace("slice<", "Vec<")
    p = TyParser(lex(s, "<type>"), self_ty, "<type>")
    t = p.ty()
    if p.i != len(p.t):
        fail(f"cannot parse type `{s}`")
    return t


def show(t):
    if t[0] == "?":
        return "_"
    if len(t) == 1:
        return t[0]
    if t[0] == "tuple":
        return "(" + ", ".join(show(x) for x in t[1:]) + ")"
    return t[0] + "<" + ", ".join(show(x) for x in t[1:]) + ">"


def tyname(t):
    """name fragment used in overloaded lean names"""
    return show(t).replace("<", "_").replace(">", "").replace(", ", "_").replace("(", "").replace(")", "")


# ----------------------------------------------------------------------------------------------------------------------
# parser for function bodies (AST = tuples)
# ----------------------------------------------------------------------------------------------------------------------
BINPREC = [["||"], ["&&"], ["==", "!=", "<", ">", "<=", ">="], ["|"], ["^"], ["&"], ["<<", ">>"], ["+", "-"], ["*", "/", "%"]]
ASSIGN_OPS = {"=", "+=", "-=", "|=", "&="}


def unescape(body, line):
    out, i = [], 0
    while i < len(body):
        c = body[i]
        if c == "\\":
            n = body[i + 1]
            m = {"n": "\n", "t": "\t", "r": "\r", "0": "\0", "\\": "\\", "'": "'", '"': '"'}
            if n in m:
                out.append(m[n])
                i += 2
                continue
            fail(f"line {line}: escape `\\{n}` not supported")
        out.append(c)
        i += 1
    return "".join(out)


class BodyParser(TyParser):
    def kind(self):
        return self.t[self.i].k if self.i < len(self.t) else None

    def line(self):
        return self.t[min(self.i, len(self.t) - 1)].line

    def err(self, msg):
        fail(f"{self.fname}:{self.line()}: {msg}")

    # ---- blocks and statements
    def block(self):
        self.eat("{")
        stmts, tail = [], None
        while self.peek() != "}":
            if self.peek() == ";":
                self.eat()
                continue
            p = self.peek()
            ln = self.line()
            if p == "let":
                self.eat()
                pat = self.pattern()
                ty = None
                if self.peek() == ":":
                    self.eat()
                    ty = self.ty()
                if self.peek() != "=":
                    self.err("`let` without initialiser")
                self.eat("=")
                init = self.expr()
                if self.peek() == "else":
                    self.err("`let … else` not supported")
                self.eat(";")
                stmts.append(("let", pat, ty, init, ln))
                continue
            if p == "const":
                self.eat()
                name = self.eat().s
                self.eat(":")
                ty = self.ty()
                self.eat("=")
                init = self.expr()
                self.eat(";")
                stmts.append(("let", ("pbind", name), ty, init, ln))
                continue
            if p == "for":
                self.eat()
                pat = self.pattern()
                self.eat("in")
                it = self.expr(nostruct=True)
                body = self.block()
                stmts.append(("expr", ("for", pat, it, body, ln), ln))
                continue
            if p in ("while", "loop", "unsafe", "fn", "struct", "impl", "use", "static"):
                self.err(f"`{p}` not supported")
            e = self.expr(stmt=True)
            if self.peek() == ";":
                self.eat()
                stmts.append(("expr", e, ln))
            elif self.peek() == "}":
                tail = e
            elif e[0] in ("if", "iflet", "match", "block"):
                stmts.append(("expr", e, ln))
            else:
                self.err(f"expected `;` or `}}`, found `{self.peek()}`")
        self.eat("}")
        return ("block", stmts, tail)

    # ---- patterns
    def pattern(self):
        alts = [self.pattern1()]
        while self.peek() == "|":
            self.eat()
            alts.append(self.pattern1())
        return alts[0] if len(alts) == 1 else ("por", alts)

    def pattern1(self):
        p, k = self.peek(), self.kind()
        if p == "&":
            self.eat()
            return self.pattern1()
        if p == "mut":
            self.eat()
            return self.pattern1()
        if p == "_":
            self.eat()
            return ("pwild",)
        if p == "(":
            self.eat()
            items = []
            while self.peek() != ")":
                items.append(self.pattern())
                if self.peek() == ",":
                    self.eat()
            self.eat(")")
            return ("ptuple", items)
        if k in ("chr", "str", "int"):
            lo = self.literal()
            if self.peek() in ("..=", ".."):
                incl = self.eat().s == "..="
                hi = self.literal()
                return ("prange", lo, hi, incl)
            return ("plit", lo)
        if k == "id":
            segs = [self.eat().s]
            while self.peek() == "::":
                self.eat()
                segs.append(self.eat().s)
            if self.peek() == "(":
                self.eat()
                items = []
                while self.peek() != ")":
                    items.append(self.pattern())
                    if self.peek() == ",":
                        self.eat()
                self.eat(")")
                return ("pctor", segs, items)
            if self.peek() == "{":
                self.err("struct patterns not supported")
            if self.peek() == "@":
                self.err("`@` patterns not supported")
            if len(segs) == 1 and segs[0] not in ("None",) and (segs[0][0].islower() or segs[0][0] == "_"):
                return ("pbind", segs[0])
            return ("ppath", segs)
        self.err(f"pattern `{p}` not supported")

    def literal(self):
        tok = self.eat()
        if tok.k == "chr":
            if tok.s.startswith("b"):
                self.err("byte literals not supported")
            c = unescape(tok.s[1:-1], tok.line)
            if len(c) != 1:
                self.err(f"char literal {tok.s}")
            return ("char", c)
        if tok.k == "str":
            if tok.s.startswith("b"):
                self.err("byte strings not supported")
            return ("str", unescape(tok.s[1:-1], tok.line))
        if tok.k == "rstr":
            m = re.match(r'r(#*)"(.*)"\1$', tok.s, re.S)
            return ("str", m.group(2))
        if tok.k == "int":
            return ("int", tok.s)
        self.err(f"literal `{tok.s}` not supported")

    # ---- expressions
    def expr(self, stmt=False, nostruct=False, level=0):
        if level == 0:
            if self.peek() == "return":
                self.eat()
                if self.peek() in (";", "}", ","):
                    return ("return", None)
                return ("return", self.expr(nostruct=nostruct))
            if self.peek() == "break":
                self.eat()
                if self.peek() not in (";", "}", ","):
                    self.err("`break` with a label or value not supported")
                return ("break",)
            if self.peek() == "continue":
                self.err("`continue` not supported")
            lhs = self.expr(stmt, nostruct, 1)
            if self.peek() in ASSIGN_OPS:
                op = self.eat().s
                rhs = self.expr(nostruct=nostruct)
                return ("assign", op, lhs, rhs)
            if self.peek() == ".." and lhs[0] == "int":
                self.eat()
                rhs = self.expr(False, nostruct, 1)
                if rhs[0] != "int":
                    self.err("range: only `<int literal>..<int literal>`")
                return ("range", lhs, rhs)
            if self.peek() in ("^=", "*=", "/=", "%=", "<<=", ">>=", "..", "..="):
                self.err(f"operator `{self.peek()}` not supported here")
            return lhs
        if level > len(BINPREC):
            return self.cast(stmt, nostruct)
        lhs = self.expr(stmt, nostruct, level + 1)
        if stmt and lhs[0] in ("if", "iflet", "match", "block", "for"):
            return lhs
        while self.peek() in BINPREC[level - 1]:
            op = self.eat().s
            rhs = self.expr(False, nostruct, level + 1)
            lhs = ("binary", op, lhs, rhs)
        return lhs

    def cast(self, stmt, nostruct):
        e = self.unary(stmt, nostruct)
        while self.peek() == "as":
            self.eat()
            e = ("cast", e, self.ty())
        return e

    def unary(self, stmt, nostruct):
        p = self.peek()
        if p in ("!", "-"):
            self.eat()
            return ("unary", p, self.unary(False, nostruct))
        if p in ("*", "&", "&&"):
            self.eat()
            if self.peek() == "mut":
                self.eat()
            return self.unary(False, nostruct)
        return self.postfix(stmt, nostruct)

    def args(self):
        self.eat("(")
        out = []
        while self.peek() != ")":
            out.append(self.expr())
            if self.peek() == ",":
                self.eat()
        self.eat(")")
        return out

    def postfix(self, stmt, nostruct):
        e = self.primary(nostruct)
        if stmt and e[0] in ("if", "iflet", "match", "block"):
            return e
        while True:
            p = self.peek()
            if p == "?":
                self.eat()
                e = ("try", e)
            elif p == ".":
                self.eat()
                tok = self.eat()
                if tok.k == "int":
                    e = ("field", e, tok.s)
                    continue
                if tok.s == "await":
                    self.err("`.await` not supported")
                gen = None
                if self.peek() == "::":
                    self.eat()
                    self.eat("<")
                    gen = []
                    while self.peek() != ">":
                        gen.append(self.ty())
                        if self.peek() == ",":
                            self.eat()
                    self.eat(">")
                if self.peek() == "(":
                    e = ("mcall", e, tok.s, self.args(), gen, tok.line)
                else:
                    e = ("field", e, tok.s)
            elif p == "[":
                self.eat()
                ix = self.expr()
                self.eat("]")
                e = ("index", e, ix, self.line())
            elif p == "(":
                ln = self.line()
                e = ("call", e, self.args(), ln)
            else:
                return e

    def primary(self, nostruct):
        p, k = self.peek(), self.kind()
        ln = self.line()
        if k in ("chr", "str", "rstr", "int"):
            return self.literal()
        if p == "(":
            self.eat()
            items = []
            trailing = False
            while self.peek() != ")":
                items.append(self.expr())
                trailing = False
                if self.peek() == ",":
                    self.eat()
                    trailing = True
            self.eat(")")
            if not items:
                return ("unit",)
            if len(items) == 1 and not trailing:
                return items[0]
            return ("tuple", items)
        if p == "{":
            return self.block()
        if p == "if":
            self.eat()
            if self.peek() == "let":
                self.eat()
                pat = self.pattern()
                self.eat("=")
                scrut = self.expr(nostruct=True)
                then = self.block()
                els = None
                if self.peek() == "else":
                    self.eat()
                    els = self.primary(nostruct) if self.peek() == "if" else self.block()
                return ("iflet", pat, scrut, then, els, ln)
            cond = self.expr(nostruct=True)
            then = self.block()
            els = None
            if self.peek() == "else":
                self.eat()
                els = self.primary(nostruct) if self.peek() == "if" else self.block()
            return ("if", cond, then, els, ln)
        if p == "match":
            self.eat()
            scrut = self.expr(nostruct=True)
            self.eat("{")
            arms = []
            while self.peek() != "}":
                pat = self.pattern()
                if self.peek() == "if":
                    self.err("match guards not supported")
                self.eat("=>")
                body = self.expr(stmt=True)
                if self.peek() == ",":
                    self.eat()
                arms.append((pat, body))
            self.eat("}")
            return ("match", scrut, arms, ln)
        if p == "|" or p == "||":
            params = []
            if p == "||":
                self.eat()
            else:
                self.eat()
                while self.peek() != "|":
                    params.append(self.pattern1())
                    if self.peek() == ":":
                        self.err("typed closure parameters not supported")
                    if self.peek() == ",":
                        self.eat()
                self.eat("|")
            body = self.expr()
            return ("closure", params, body, ln)
        if p in ("move", "while", "loop", "unsafe", "for", "async"):
            self.err(f"`{p}` not supported here")
        if k == "id":
            segs = [self.eat().s]
            gens = {}
            while self.peek() == "::":
                self.eat()
                if self.peek() == "<":
                    self.eat()
                    g = []
                    while self.peek() != ">":
                        g.append(("?", "_") if self.peek() == "_" and self.eat() else self.ty())
                        if self.peek() == ",":
                            self.eat()
                    self.eat(">")
                    gens[len(segs) - 1] = g
                else:
                    segs.append(self.eat().s)
            if self.peek() == "!":
                self.eat()
                name = segs[-1]
                if name == "write":
                    self.eat("(")
                    f = self.expr()
                    self.eat(",")
                    fm = self.literal()
                    if fm[0] != "str":
                        self.err("write!: format must be a string literal")
                    args = []
                    while self.peek() == ",":
                        self.eat()
                        if self.peek() == ")":
                            break
                        args.append(self.expr())
                    self.eat(")")
                    return ("write", f, fm[1], args, ln)
                if name == "debug_assert":
                    a = self.args()
                    return ("debug_assert", a[0], ln)
                self.err(f"macro `{name}!` not supported")
            if self.peek() == "{" and not nostruct and segs[-1][0].isupper() and len(segs) == 1:
                self.eat()
                fields = []
                while self.peek() != "}":
                    fname = self.eat().s
                    if fname == "..":
                        self.err("struct update syntax not supported")
                    if self.peek() == ":":
                        self.eat()
                        fields.append((fname, self.expr()))
                    else:
                        fields.append((fname, ("path", [fname], {}, ln)))
                    if self.peek() == ",":
                        self.eat()
                self.eat("}")
                return ("struct", segs[0], fields, ln)
            return ("path", segs, gens, ln)
        self.err(f"expression starting with `{p}` not supported")


# ----------------------------------------------------------------------------------------------------------------------
# registry of callable items
# ----------------------------------------------------------------------------------------------------------------------
def scan_items_tolerant(toks, lo, hi, fname):
    """like rs2lean.scan_items, but a generic `fn f<..>(..)` is recorded with `generic = True` instead of failing"""
    fns, consts = [], []
    attrs = []
    i = lo
    while i < hi:
        t = toks[i]
        if t.s == "#" and i + 1 < hi and toks[i + 1].s == "[":
            c = match_close(toks, i + 1, "[", "]")
            attrs.append(" ".join(x.s for x in toks[i + 2:c]))
            i = c + 1
            continue
        if t.s == "fn":
            name = toks[i + 1].s
            p = i + 2
            generic = toks[p].s == "<"
            while toks[p].s != "(":
                p += 1
            pc = match_close(toks, p, "(", ")")
            j = pc + 1
            while toks[j].s not in ("{", ";"):
                j += 1
            if toks[j].s == ";":
                i = j + 1
                attrs = []
                continue
            bc = match_close(toks, j, "{", "}")
            raw = R.RawFn(name, attrs, toks[p:j], toks[j:bc + 1], t.line, (j, bc))
            raw.generic = generic
            fns.append(raw)
            attrs = []
            i = bc + 1
            continue
        if t.s == "const" and toks[i + 1].k == "id" and toks[i + 2].s == ":":
            j = i
            while toks[j].s != ";":
                if toks[j].s in ("{", "(", "["):
                    j = match_close(toks, j, toks[j].s, {"{": "}", "(": ")", "[": "]"}[toks[j].s])
                j += 1
            consts.append((toks[i + 1].s, toks[i + 3:j], t.line, attrs))
            attrs = []
            i = j + 1
            continue
        if t.s == "{":
            i = match_close(toks, i, "{", "}") + 1
            attrs = []
            continue
        if t.s == ";":
            attrs = []
        i += 1
    return fns, consts


def lex_prefix(text):
    """tokens of the longest prefix of `text` the stage-1 lexer accepts (files of the engine crate use literals it does not know)"""
    out, i, line = [], 0, 1
    while i < len(text):
        m = R.TOK.match(text, i)
        if not m:
            break
        k, s0 = m.lastgroup, m.group(0)
        if k not in ("ws", "lc", "bc"):
            out.append(R.Tok(k, s0, line))
        line += s0.count("\n")
        i = m.end()
    return out


class Entry:
    def __init__(self, lean, params, ret, kind, mutparam=None, has_self=False, seam=False, rust=""):
        self.lean, self.params, self.ret, self.kind = lean, params, ret, kind
        self.mutparam, self.has_self, self.seam, self.rust = mutparam, has_self, seam, rust


def lean_ty(t, atom=False):
    h = t[0]
    if h == "?":
        fail("internal: unresolved type in a signature")
    if h in INT_LEAN:
        return INT_LEAN[h]
    simple = {"bool": "Bool", "char": "Char", "unit": "Unit", "regex": "(List Char)", "str": "(List Char)", "fmt": "(List Char)",
              "fmtresult": "Unit", "captures": "RegexGroups"}
    if h in simple:
        return simple[h]
    if h in ("Option", "slice", "iter", "ArrayMap"):
        inner = lean_ty(t[-1], True)
        s = {"Option": "Option", "slice": "List", "iter": "List", "ArrayMap": "Array"}[h] + " " + inner
        return f"({s})" if atom else s
    if h == "Result":
        return lean_ty(t[1], atom)
    if h == "tuple":
        return "(" + " × ".join(lean_ty(x, True) for x in t[1:]) + ")"
    return h


def char_lit(c):
    o = ord(c)
    if c in "'\\" or o < 32 or o > 126:
        return f"(Char.ofNat {o})"
    return f"'{c}'"


def chars_lit(s):
    return "[" + ", ".join(char_lit(c) for c in s) + "]"


def P(s):
    s = s.strip()
    if re.fullmatch(r"[\w.'«»]+", s) or (s[0] in "([" and R.Translator.balanced(s)) or re.fullmatch(r"'.'", s):
        return s
    return f"({s})"


class Mode:
    def __init__(self, kind, vars=(), ty=None):
        self.kind, self.vars, self.ty = kind, list(vars), ty


def tup(vs):
    if not vs:
        return "()"
    return vs[0] if len(vs) == 1 else "(" + ", ".join(vs) + ")"


def proj(base, i, n):
    """i-th component of a right-nested n-tuple"""
    if n == 1:
        return base
    s = base + ".2" * i
    return s + (".1" if i < n - 1 else "")


class Text:
    def __init__(self, repo):
        self.repo = repo
        self.t1 = R.Translator(repo)
        self.t1.run()
        R2.install()
        self.e3 = R3.Emitter3(repo, self.t1)
        self.e3.run3()
        self.src, self.toks = {}, {}
        self.reg = {}            # (type head | None, name) -> [Entry]
        self.consts = {}         # (owner, name) -> (lean, ty)
        self.structs = {}        # name -> [(field, ty)]
        self.holes = {}
        self.nhole = 0
        self.ntmp = 0
        self.notes = []
        self.items = []          # (kind, text)
        self.mut_names = {"next"}
        self.import_stages()

    # ---- stages 1-3 as vocabulary
    def import_stages(self):
        seen = set()
        for fn in list(self.t1.fns) + list(self.e3.fns):
            if fn.lean in seen:
                continue
            seen.add(fn.lean)
            try:
                params = [(p[0], parse_ty_str(R3.show_ty3(p[1]))) for p in fn.params]
                ret = parse_ty_str(R3.show_ty3(fn.out_ty())) if R3.show_ty3(fn.out_ty()) != "unit" else ("unit",)
            except TieBroken:
                continue
            if fn.name in ("try_from", "try_from_primitive") and ret[0] == "Option":
                ret = ("Result", ret[1])
            has_self = bool(params) and params[0][0] == "self"
            mp = None
            if getattr(fn, "mutparam", None):
                mp = [i for i, p in enumerate(params) if p[0] == fn.mutparam][0]
                if has_self and mp == 0:
                    self.mut_names.add(fn.name)
            head = fn.self_ty if isinstance(fn.self_ty, str) else None
            if head is not None:
                head = parse_ty_str(head)[0] if re.fullmatch(r"\w+", head) else None
                if head is None:
                    continue
            e = Entry(fn.lean, params, ret, "panics" if fn.may_panic else "pure", mp, has_self, rust=fn.rust_path)
            self.reg.setdefault((head, fn.name), []).append(e)
        for (owner, name), c in self.e3.consts.items():
            try:
                ty = parse_ty_str(R3.show_ty3(c.ty))
            except TieBroken:
                continue
            self.consts[(owner, name)] = (c.lean, ty)
        for rel, name, fields, derives in self.e3.structs:
            try:
                self.structs[name] = [(f, parse_ty_str(t if isinstance(t, str) else R3.show_ty3(t))) for f, t in fields]
            except TieBroken:
                pass

    def load(self, rel):
        if rel not in self.src:
            path = os.path.join(self.repo, rel)
            if not os.path.exists(path):
                fail(f"{rel}: file not found")
            with open(path) as f:
                self.src[rel] = f.read()
            self.toks[rel] = lex(self.src[rel], rel)
        return self.toks[rel]

    # ---- holes
    def hole(self):
        self.nhole += 1
        return ("?", self.nhole)

    def prune(self, t):
        if t[0] == "?":
            b = self.holes.get(t[1])
            return self.prune(b) if b is not None else t
        return (t[0],) + tuple(self.prune(x) for x in t[1:])

    def unify(self, a, b):
        a, b = self.prune(a), self.prune(b)
        if a == b:
            return True
        if a[0] == "?":
            self.holes[a[1]] = b
            return True
        if b[0] == "?":
            self.holes[b[1]] = a
            return True
        if a[0] != b[0] or len(a) != len(b):
            return False
        return all(self.unify(x, y) for x, y in zip(a[1:], b[1:]))

    def fresh(self, env):
        while True:
            self.ntmp += 1
            n = f"t_{self.ntmp}"
            if n not in env:
                return n

    def err(self, line, msg):
        fail(f"{self.cur_file}:{line}: fn {self.cur_fn}: {msg}")

    # ------------------------------------------------------------------------------------------------------------------
    # assigned-variable analysis (over-approximation is harmless: the variable is merely threaded through)
    # ------------------------------------------------------------------------------------------------------------------
    def root(self, e):
        while e[0] in ("field", "index"):
            e = e[1]
        if e[0] == "path" and len(e[1]) == 1:
            return e[1][0]
        return None

    def pat_names(self, p, acc):
        if p[0] == "pbind":
            acc.add(p[1])
        elif p[0] in ("ptuple", "por"):
            for q in p[1]:
                self.pat_names(q, acc)
        elif p[0] == "pctor":
            for q in p[2]:
                self.pat_names(q, acc)

    def assigned(self, e, local, acc):
        """names of variables NOT in `local` that `e` assigns, in order of first occurrence"""
        def add(n):
            if n is not None and n not in local and n not in acc:
                acc.append(n)
        k = e[0]
        if k == "block":
            loc = set(local)
            for st in e[1]:
                if st[0] == "let":
                    self.assigned(st[3], loc, acc)
                    names = set()
                    self.pat_names(st[1], names)
                    for n in names:
                        if n in acc and n not in loc:
                            fail(f"{self.cur_file}:{st[4]}: `{n}` is assigned and then re-declared in the same block")
                    loc |= names
                else:
                    self.assigned(st[1], loc, acc)
            if e[2] is not None:
                self.assigned(e[2], loc, acc)
        elif k == "assign":
            self.assigned(e[3], local, acc)
            add(self.root(e[2]))
        elif k == "write":
            add(self.root(e[1]))
            for a in e[3]:
                self.assigned(a, local, acc)
        elif k == "mcall":
            self.assigned(e[1], local, acc)
            for a in e[3]:
                self.assigned(a, local, acc)
            if e[2] in self.mut_names:
                add(self.root(e[1]))
        elif k == "for":
            loc = set(local)
            self.pat_names(e[1], loc)
            self.assigned(e[2], local, acc)
            self.assigned(e[3], loc, acc)
        elif k == "if":
            self.assigned(e[1], local, acc)
            self.assigned(e[2], local, acc)
            if e[3] is not None:
                self.assigned(e[3], local, acc)
        elif k == "iflet":
            loc = set(local)
            self.pat_names(e[1], loc)
            self.assigned(e[2], local, acc)
            self.assigned(e[3], loc, acc)
            if e[4] is not None:
                self.assigned(e[4], local, acc)
        elif k == "match":
            self.assigned(e[1], local, acc)
            for pat, body in e[2]:
                loc = set(local)
                self.pat_names(pat, loc)
                self.assigned(body, loc, acc)
        elif k == "closure":
            inner = []
            self.assigned(e[2], set(), inner)
            if inner:
                fail(f"{self.cur_file}:{e[3]}: a closure that assigns variables is not supported")
        elif k in ("call",):
            self.assigned(e[1], local, acc)
            for a in e[2]:
                self.assigned(a, local, acc)
        elif k in ("field", "try", "cast", "return", "debug_assert"):
            if e[1] is not None:
                self.assigned(e[1], local, acc)
        elif k == "index":
            self.assigned(e[1], local, acc)
            self.assigned(e[2], local, acc)
        elif k == "unary":
            self.assigned(e[2], local, acc)
        elif k == "binary":
            self.assigned(e[2], local, acc)
            self.assigned(e[3], local, acc)
        elif k == "tuple":
            for a in e[1]:
                self.assigned(a, local, acc)
        elif k == "struct":
            for _, a in e[2]:
                self.assigned(a, local, acc)
        return acc

    # ------------------------------------------------------------------------------------------------------------------
    # expressions: `ex` appends the bindings an expression needs to `out` (A-normal form, Rust's evaluation order) and
    # returns (atom, type).  An atom of type Result<T> is an UNBOUND `TRes T` computation (consumed by `?` or as a tail).
    # ------------------------------------------------------------------------------------------------------------------
    def unify_probe(self, a, b):
        saved = dict(self.holes)
        ok = self.unify(a, b)
        self.holes = saved
        return ok

    def bind(self, env, out, ind, rhs, pure=False):
        n = self.fresh(env)
        out.append(f"{ind}let {n} {':=' if pure else '←'} {rhs}")
        return n

    def ty_of_name(self, name, line):
        if name == "Self":
            if self.self_ty is None:
                self.err(line, "`Self` outside an impl")
            return self.self_ty
        return (name,)

    def lookup(self, head, name, argtys, exp, line, what):
        cands = self.reg.get((head, name), [])
        ok = []
        for c in cands:
            ps = c.params[1:] if c.has_self else c.params
            if len(ps) != len(argtys):
                continue
            saved = dict(self.holes)
            good = all(self.unify(p[1], a) for p, a in zip(ps, argtys))
            if good and name in ("into", "from", "try_from") and exp is not None and len(cands) > 1:
                r = c.ret[1] if (c.ret[0] == "Result" and exp[0] != "Result") else c.ret
                good = self.unify(r, exp)
            self.holes = saved
            if good:
                ok.append(c)
        if len(ok) != 1:
            self.err(line, f"{what}: {len(ok)} translated candidates for `{head}::{name}({', '.join(show(self.prune(a)) for a in argtys)})`")
        c = ok[0]
        ps = c.params[1:] if c.has_self else c.params
        for p, a in zip(ps, argtys):
            self.unify(p[1], a)
        return c

    def apply(self, c, atoms, env, out, ind):
        """call entry `c` on atoms (self first); returns (atom, type)"""
        pre = ["rx"] if c.seam else []
        term = " ".join([c.lean] + pre + [P(a) for a in atoms])
        if c.kind == "pure":
            if c.ret[0] == "Result":
                return f"(TRes.okOr {P(term)})", c.ret
            return f"({term})" if atoms else term, c.ret
        if c.kind == "panics":
            if c.ret[0] == "Result":
                fail(f"call of `{c.lean}` (a panicking stage-1..3 function returning Result) not supported")
            return self.bind(env, out, ind, f"TRes.ofPanics ({term})"), c.ret
        if c.ret[0] == "Result":
            return f"({term})", c.ret
        return self.bind(env, out, ind, term), c.ret

    def int_lit(self, text, exp, line):
        m = re.fullmatch(r"(0x[0-9a-fA-F_]+|0b[01_]+|\d[\d_]*)(u8|u16|u32|u64|usize|i8|i16|i32|i64|isize)?", text)
        v = int(m.group(1).replace("_", ""), 0)
        if m.group(2):
            ty = (m.group(2),)
        else:
            ty = self.prune(exp) if exp is not None else None
            if ty is None or ty[0] not in INT_LEAN:
                self.err(line, f"integer literal `{text}` of undetermined type")
        if ty[0] not in INT_LEAN:
            self.err(line, f"integer type {ty[0]} not supported")
        return f"({v} : {INT_LEAN[ty[0]]})", ty

    def ex(self, e, env, out, ind, exp=None):
        k = e[0]
        if k == "int":
            return self.int_lit(e[1], exp, 0)
        if k == "char":
            return char_lit(e[1]), ("char",)
        if k == "str":
            return chars_lit(e[1]), ("str",)
        if k == "unit":
            return "()", ("unit",)
        if k == "path":
            return self.ex_path(e, env, out, ind, exp)
        if k == "tuple":
            exps = list(self.prune(exp)[1:]) if exp is not None and self.prune(exp)[0] == "tuple" else [None] * len(e[1])
            parts = [self.ex(a, env, out, ind, x) for a, x in zip(e[1], exps)]
            return "(" + ", ".join(p[0] for p in parts) + ")", ("tuple",) + tuple(p[1] for p in parts)
        if k == "field":
            return self.ex_field(e, env, out, ind)
        if k == "index":
            return self.ex_index(e, env, out, ind)
        if k == "unary":
            if e[1] == "!":
                a, t = self.ex(e[2], env, out, ind, ("bool",))
                if self.prune(t) != ("bool",):
                    self.err(0, "`!` on a non-bool")
                return f"(!{P(a)})", ("bool",)
            self.err(0, f"unary `{e[1]}` not supported")
        if k == "binary":
            return self.ex_binary(e, env, out, ind, exp)
        if k == "cast":
            return self.ex_cast(e, env, out, ind)
        if k == "try":
            a, t = self.ex(e[1], env, out, ind, ("Result", exp) if exp is not None else None)
            t = self.prune(t)
            if t[0] == "fmtresult":
                return "()", ("unit",)
            if getattr(self, "opt_fn", False) and t[0] == "Option":
                return self.bind(env, out, ind, f"(TRes.okOr {P(a)})"), t[1]
            if getattr(self, "opt_fn", False) and t[0] == "OkOpt":
                return self.bind(env, out, ind, a), t[1]
            if t[0] != "Result":
                self.err(0, f"`?` on a value of type {show(t)} (only Result<_, ()>; use .ok_or(()) on an Option)")
            return self.bind(env, out, ind, a), t[1]
        if k == "call":
            return self.ex_call(e, env, out, ind, exp)
        if k == "mcall":
            return self.ex_mcall(e, env, out, ind, exp)
        if k == "struct":
            name = e[1]
            ty = self.ty_of_name(name, e[3])
            fields = self.structs.get(ty[0])
            if fields is None:
                self.err(e[3], f"struct `{ty[0]}` unknown")
            if [f for f, _ in fields] != [f for f, _ in e[2]]:
                if sorted(f for f, _ in fields) != sorted(f for f, _ in e[2]):
                    self.err(e[3], f"struct literal `{ty[0]}`: fields differ from the declaration")
            parts = []
            fd = dict(fields)
            for f, a in e[2]:                       # Rust evaluates the field initialisers in the order written
                at, tt = self.ex(a, env, out, ind, fd[f])
                if not self.unify(tt, fd[f]):
                    self.err(e[3], f"field `{f}`: expected {show(fd[f])}, found {show(self.prune(tt))}")
                parts.append(f"f_{f} := {at}")
            return "({ " + ", ".join(parts) + " } : " + lean_ty(ty) + ")", ty
        if k in ("if", "iflet", "match", "block"):
            h = self.hole()
            if exp is not None:
                self.unify(h, exp)
            sub = []
            self.ctrl(e, dict(env), sub, ind + "    ", Mode("value", ty=h))
            n = self.fresh(env)
            out.append(f"{ind}let {n} ← (do")
            out.extend(sub)
            out[-1] += ")"
            return n, h
        if k in ("return", "break"):
            self.err(0, f"`{k}` in this position not supported")
        self.err(0, f"expression `{k}` not supported here")

    def ex_path(self, e, env, out, ind, exp):
        segs, gens, line = e[1], e[2], e[3]
        if len(segs) == 1:
            n = segs[0]
            if n in env:
                return mangle(n), env[n]
            if n == "None":
                return "Option.none", ("Option", self.hole())
            if n in ("true", "false"):
                return n, ("bool",)
            if (self.cur_mod, n) in self.consts:
                c = self.consts[(self.cur_mod, n)]
                return c[0], c[1]
            self.err(line, f"unknown identifier `{n}`")
        if len(segs) == 2:
            o, n = segs
            if o == "Self":
                o = self.self_ty[0]
            if o in ENUMS and n in ENUMS[o]:
                return ENUMS[o][n], (o,)
            if (o, n) in self.consts:
                c = self.consts[(o, n)]
                return c[0], c[1]
        self.err(line, f"path `{'::'.join(segs)}` not supported")

    def ex_field(self, e, env, out, ind):
        a, t = self.ex(e[1], env, out, ind)
        t = self.prune(t)
        f = e[2]
        if f.isdigit():
            if t[0] in NEWTYPES and f == "0":
                inner = NEWTYPES[t[0]]
                inner = R.ALIASES.get(inner, inner)
                return a, (inner,)
            if t[0] == "tuple" and int(f) < len(t) - 1:
                return f"{P(a)}{proj('', int(f), len(t) - 1)}", t[1 + int(f)]
            self.err(0, f"`.{f}` on {show(t)}")
        fields = self.structs.get(t[0])
        if fields is None or f not in dict(fields):
            self.err(0, f"field `.{f}` of {show(t)} unknown")
        return f"{P(a)}.f_{f}", dict(fields)[f]

    def index_key(self, kt, katom):
        c = [x for x in self.reg.get(("Index", "from"), []) if self.prune(x.params[0][1]) == self.prune(kt)]
        if len(c) != 1:
            fail(f"{self.cur_file}: fn {self.cur_fn}: no translated `impl From<{show(self.prune(kt))}> for Index`")
        return f"({c[0].lean} {P(katom)})"

    def ex_index(self, e, env, out, ind):
        a, t = self.ex(e[1], env, out, ind)
        t = self.prune(t)
        if t[0] == "captures":
            if e[2][0] != "int":
                self.err(e[3], "capture group index must be a literal")
            n = int(e[2][1])
            return self.bind(env, out, ind, f"TRes.ofPanics (Captures.index {P(a)} {n})"), ("str",)
        if t[0] == "ArrayMap":
            i, it = self.ex(e[2], env, out, ind, t[1])
            if not self.unify(it, t[1]):
                self.err(e[3], f"ArrayMap key: expected {show(t[1])}, found {show(self.prune(it))}")
            return self.bind(env, out, ind, f"TRes.ofPanics (ArrayMap.index {P(a)} {self.index_key(t[1], i)})"), t[2]
        if t[0] == "slice":
            i, it = self.ex(e[2], env, out, ind, ("usize",))
            if self.prune(it) != ("usize",):
                self.err(e[3], "slice index must be usize")
            return self.bind(env, out, ind, f"TRes.ofPanics (slice.index {P(a)} {P(i)})"), t[1]
        self.err(e[3], f"indexing a {show(t)} not supported")

    def ex_binary(self, e, env, out, ind, exp):
        op, l, r = e[1], e[2], e[3]
        if op in ("&&", "||"):
            a, ta = self.ex(l, env, out, ind, ("bool",))
            sub = []
            b, tb = self.ex(r, env, sub, ind + "    ", ("bool",))
            if self.prune(ta) != ("bool",) or self.prune(tb) != ("bool",):
                self.err(0, f"`{op}` on non-bools")
            if not sub:
                return f"({P(a)} {op} {P(b)})", ("bool",)
            n = self.fresh(env)
            other = "pure false" if op == "&&" else "pure true"
            out.append(f"{ind}let {n} ← (if {a if op == '&&' else '!' + P(a)} then (do")
            out.extend(sub)
            out.append(f"{ind}    pure {b})")
            out.append(f"{ind}  else {other})")
            return n, ("bool",)
        if l[0] == "int" and r[0] != "int":
            b, tb = self.ex(r, env, out, ind)          # a literal has no effects: order is immaterial
            a, ta = self.ex(l, env, out, ind, tb)
        else:
            a, ta = self.ex(l, env, out, ind, exp if op in ("+", "-", "*") else None)
            b, tb = self.ex(r, env, out, ind, ta)
        if not self.unify(ta, tb):
            self.err(0, f"`{op}`: operands of types {show(self.prune(ta))} and {show(self.prune(tb))}")
        t = self.prune(ta)
        if op in ("==", "!="):
            return f"({P(a)} {op} {P(b)})", ("bool",)
        if op in ("<", ">", "<=", ">="):
            if t[0] not in INT_LEAN and t[0] != "char":
                self.err(0, f"`{op}` on {show(t)} not supported")
            lop = {"<": "<", ">": ">", "<=": "≤", ">=": "≥"}[op]
            return f"(decide ({a} {lop} {b}))", ("bool",)
        if op in ("+", "-", "*"):
            if t[0] not in INT_LEAN:
                self.err(0, f"`{op}` on {show(t)} not supported")
            fn = {"+": "checked_add", "-": "checked_sub", "*": "checked_mul"}[op]
            return self.bind(env, out, ind, f"TRes.ofPanics ({INT_LEAN[t[0]]}.{fn} {P(a)} {P(b)})"), t
        self.err(0, f"operator `{op}` not supported")

    def ex_cast(self, e, env, out, ind):
        a, t = self.ex(e[1], env, out, ind)
        t, d = self.prune(t), e[2]
        table = {("char", "u8"): "char.as_u8", ("u8", "char"): "u8.as_char", ("u32", "u8"): "UInt32.toUInt8",
                 ("u8", "usize"): "UInt8.toUInt64", ("usize", "u8"): "UInt64.toUInt8", ("u8", "u32"): "UInt8.toUInt32"}
        if (t[0], d[0]) in table:
            return f"({table[(t[0], d[0])]} {P(a)})", d
        if t[0] in ("Piece", "Color") and d[0] == "usize":
            return f"(UInt8.toUInt64 ({t[0]}.into_u8 {P(a)}))", d
        if t == d:
            return a, d
        self.err(0, f"cast {show(t)} as {show(d)} not supported")

    def closure(self, e, env, argtys, ind, exp=None):
        """monadic lambda `fun x => (do …)`; returns (term, result type)"""
        if e[0] != "closure":
            self.err(0, "expected a closure literal")
        if len(e[1]) != len(argtys):
            self.err(e[3], "closure arity")
        env2 = dict(env)
        names = []
        for p, t in zip(e[1], argtys):
            if p[0] == "pbind":
                env2[p[1]] = t
                names.append(mangle(p[1]))
            elif p[0] == "pwild":
                names.append("_")
            else:
                self.err(e[3], "closure parameter pattern not supported")
        h = self.hole()
        if exp is not None:
            self.unify(h, exp)
        body = e[2] if e[2][0] == "block" else ("block", [], e[2])
        sub = self.do_block(body, env2, ind + "    ", Mode("value", ty=h))
        return "(fun " + " ".join(names) + " => (do\n" + "\n".join(sub) + "))", h

    def ex_call(self, e, env, out, ind, exp):
        callee, args, line = e[1], e[2], e[3]
        if callee[0] != "path":
            self.err(line, "call of a computed callee not supported")
        segs, gens = callee[1], callee[2]
        if len(segs) == 1:
            n = segs[0]
            if n == "Some" and len(args) == 1:
                ex1 = self.prune(exp)[1] if exp is not None and self.prune(exp)[0] == "Option" else None
                a, t = self.ex(args[0], env, out, ind, ex1)
                return f"(Option.some {P(a)})", ("Option", t)
            if n in ("Ok", "Err"):
                self.err(line, f"`{n}(..)` only as the result of a function / branch or after `return`")
            if n == "into_notation" and len(args) == 1 and 0 in gens and len(gens[0]) == 2:
                # `into_notation::<_, F>(&x)`: a `Notation<T, F>` borrowing x; only its Display (= F::into_notation) is used
                a, t = self.ex(args[0], env, out, ind)
                fty = self.prune(gens[0][1])
                if len(fty) != 1 or not self.reg.get((fty[0], "into_notation")):
                    self.err(line, f"into_notation::<_, {show(fty)}>: no translated `impl IntoNotation for {show(fty)}`")
                if gens[0][0][0] != "?" and not self.unify(gens[0][0], t):
                    self.err(line, "into_notation::<T, F>: T is not the type of the argument")
                return a, ("notation", fty, t)
            ty = self.ty_of_name(n, line)
            if ty[0] in NEWTYPES and len(args) == 1:
                inner = R.ALIASES.get(NEWTYPES[ty[0]], NEWTYPES[ty[0]])
                a, t = self.ex(args[0], env, out, ind, (inner,))
                if self.prune(t) != (inner,):
                    self.err(line, f"`{ty[0]}(..)` of a {show(self.prune(t))}")
                return a, ty
            self.err(line, f"call of `{n}` not supported")
        if len(segs) != 2:
            self.err(line, f"call of `{'::'.join(segs)}` not supported")
        o, n = segs
        if o == "Into" and n == "into" and 0 in gens and len(args) == 1:
            return self.ex_mcall(("mcall", args[0], "into", [], None, line), env, out, ind, gens[0][0])
        oty = self.ty_of_name(o, line) if o != "ArrayMap" else ("ArrayMap",)
        if o == "Self" and self.self_ty[0] == "ArrayMap":
            oty = self.self_ty
        if o == "Regex" and n == "new" and len(args) == 1:
            a, t = self.ex(args[0], env, out, ind)
            if self.prune(t) != ("str",):
                self.err(line, "Regex::new of a non-string")
            self.uses_regex = True
            return f"(Regex.new {P(a)})", ("Result", ("regex",))
        if oty[0] == "ArrayMap" and n in ("filled", "default"):
            kt, vt = self.hole(), self.hole()
            if 0 in gens:
                kt, vt = gens[0][0], gens[0][1]
            elif len(oty) == 3:
                kt, vt = oty[1], oty[2]
            elif exp is not None and self.prune(exp)[0] == "ArrayMap":
                kt, vt = self.prune(exp)[1], self.prune(exp)[2]
            if n == "filled":
                if len(args) != 1:
                    self.err(line, "ArrayMap::filled arity")
                a, t = self.ex(args[0], env, out, ind, vt)
                if not self.unify(t, vt):
                    self.err(line, "ArrayMap::filled: value type")
            else:
                if args:
                    self.err(line, "ArrayMap::default arity")
                v = self.prune(vt)
                if v != ("BitBoard",):
                    self.err(line, f"ArrayMap::default() for values of type {show(v)} not supported (annotate the `let`)")
                a = "BitBoard.ZERO"
            self.nhole += 1
            tag = f"⟪K{self.nhole}⟫"
            self.counts.append((tag, kt, line))
            return f"(Array.replicate {tag} {P(a)})", ("ArrayMap", kt, vt)
        # associated function of a translated type
        head = oty[0]
        ats = [self.ex(a, env, out, ind) for a in args]
        c = self.lookup(head, n, [t for _, t in ats], exp, line, "call")
        if c.has_self:
            self.err(line, "method called as an associated function not supported")
        # literals etc. were typed without expectation: re-check
        return self.apply(c, [a for a, _ in ats], env, out, ind)

    def ex_mcall(self, e, env, out, ind, exp):
        recv, name, args, gen, line = e[1], e[2], e[3], e[4], e[5]
        if gen is not None and not (name == "parse" and len(gen) == 1):
            self.err(line, "turbofish on a method not supported")
        a, t = self.ex(recv, env, out, ind, exp if name == "map_err" else None)
        t = self.prune(t)
        h = t[0]

        def noargs():
            if args:
                self.err(line, f"`.{name}` takes no arguments")

        if name == "clone" and not args:
            return a, t
        if h == "char":
            m = {"is_ascii_digit": "Char.isDigit", "is_ascii_uppercase": "Char.isUpper", "is_ascii_lowercase": "Char.isLower"}
            if name in m:
                noargs()
                return f"({m[name]} {P(a)})", ("bool",)
            m = {"to_ascii_uppercase": "Char.toUpper", "to_ascii_lowercase": "Char.toLower"}
            if name in m:
                noargs()
                return f"({m[name]} {P(a)})", ("char",)
            if name == "to_digit":
                if len(args) != 1 or args[0][0] != "int" or int(args[0][1]) != 10:
                    self.err(line, "to_digit: only radix 10")
                return f"(char.to_digit10 {P(a)})", ("Option", ("u32",))
        if h == "str":
            if name == "starts_with" and len(args) == 1:
                b, tb = self.ex(args[0], env, out, ind)
                if self.prune(tb) != ("str",):
                    self.err(line, "starts_with: only a string pattern")
                return f"(str.starts_with {P(a)} {P(b)})", ("bool",)
            if name == "chars":
                noargs()
                return a, ("iter", ("char",))
            if name == "len":
                noargs()
                return f"(str.len {P(a)})", ("usize",)
            if name == "get" and len(args) == 1 and args[0][0] == "range":
                lo, _ = self.int_lit(args[0][1][1], ("usize",), line)
                hi, _ = self.int_lit(args[0][2][1], ("usize",), line)
                return f"(str.get_range {P(a)} {lo} {hi})", ("Option", ("str",))
            if name == "as_bytes":
                noargs()
                if recv[0] != "str" or any(ord(c) > 127 for c in recv[1]):
                    self.err(line, "as_bytes: only on an ASCII string literal")
                return f"(str.ascii_bytes {P(a)})", ("slice", ("u8",))
            if name == "parse":
                noargs()
                target = gen[0] if gen else (self.prune(exp) if exp is not None else None)
                if target is not None and target[0] == "Result":
                    target = self.prune(target[1])
                if target != ("usize",):
                    self.err(line, f"str::parse: only at type usize (found {show(target) if target else 'unknown'})")
                return f"(str.parse_usize {P(a)})", ("Result", ("usize",))
        if h in ("iter", "slice"):
            el = t[1]
            if name == "iter":
                noargs()
                return a, ("iter", el)
            if h == "slice" and name == "len":
                noargs()
                return f"(slice.len {P(a)})", ("usize",)
            if h == "iter" and name == "enumerate":
                noargs()
                return f"(iter.enumerate {P(a)})", ("iter", ("tuple", ("usize",), el))
            if h == "iter":
                if name == "rev":
                    noargs()
                    return f"(List.reverse {P(a)})", t
                if name == "peekable":
                    noargs()
                    return a, t
                if name == "peek":
                    noargs()
                    return f"(List.head? {P(a)})", ("Option", el)
                if name == "nth" and len(args) == 1:
                    b, tb = self.ex(args[0], env, out, ind, ("usize",))
                    if self.root(recv) is not None:
                        self.err(line, "`.nth` on a named iterator (it advances it) not supported")
                    return f"(iter.nth {P(a)} {P(b)})", ("Option", el)
                if name == "all" and len(args) == 1:
                    f, rt = self.closure(args[0], env, [el], ind, ("bool",))
                    return self.bind(env, out, ind, f"iter.all {P(a)} {f}"), ("bool",)
                if name == "next":
                    self.err(line, "`.next()` whose value is used is not supported (only as a statement)")
        if h == "Option":
            el = t[1]
            if name in ("is_some", "is_none"):
                noargs()
                return f"(Option.{'isSome' if name == 'is_some' else 'isNone'} {P(a)})", ("bool",)
            if name == "copied":
                noargs()
                return a, t
            if name == "unwrap_or" and len(args) == 1:
                b, tb = self.ex(args[0], env, out, ind, el)
                if not self.unify(tb, el):
                    self.err(line, "unwrap_or: type")
                return f"(Option.getD {P(a)} {P(b)})", el
            if name == "unwrap":
                noargs()
                return self.bind(env, out, ind, f"TRes.ofPanics {P(a)}"), el
            if name == "ok_or" and len(args) == 1:
                if args[0][0] != "unit":
                    self.err(line, "ok_or: only `ok_or(())`")
                return f"(TRes.okOr {P(a)})", ("Result", el)
            if name == "map" and len(args) == 1:
                f, rt = self.closure(args[0], env, [el], ind)
                return self.bind(env, out, ind, f"Option.mapT {P(a)} {f}"), ("Option", rt)
        if h == "Result":
            if name == "ok" and not args and getattr(self, "opt_fn", False):
                return a, ("OkOpt", t[1])       # only `?` knows this type: `.ok()?` = `Err(_)` becomes `None`
            if name == "map_err" and len(args) == 1:
                c = args[0]
                if c[0] != "closure" or c[2][0] != "unit" or len(c[1]) != 1 or c[1][0][0] != "pwild":
                    self.err(line, "map_err: only `map_err(|_| ())`")
                return a, t
            if name == "unwrap" and t[1] == ("regex",):
                noargs()
                self.notes.append(f"`Regex::new(..).unwrap()` ({self.cur_fn}): the literal is assumed to compile (it is parsed by `FenRegex_parsed`)")
                return self.bind(env, out, ind, a), t[1]
        if h == "regex" and name == "captures" and len(args) == 1:
            b, tb = self.ex(args[0], env, out, ind)
            if self.prune(tb) != ("str",):
                self.err(line, "captures: argument must be a &str")
            return f"(rx {P(a)} {P(b)})", ("Option", ("captures",))
        if h == "u8" and name == "checked_add" and len(args) == 1:
            b, tb = self.ex(args[0], env, out, ind, ("u8",))
            if self.prune(tb) != ("u8",):
                self.err(line, "checked_add: operand type")
            return f"(UInt8.checked_add {P(a)} {P(b)})", ("Option", ("u8",))
        if name == "into" and not args:
            target = self.prune(exp) if exp is not None else None
            cands = [c for c in self.reg.get((h, "into"), []) if target is None or self.prune(c.ret) == target]
            if len(cands) != 1:
                self.err(line, f"`.into()` from {show(t)} to {show(target) if target else 'an unknown type'}: {len(cands)} candidates")
            return self.apply(cands[0], [a], env, out, ind)
        # method of a translated type
        ats = [self.ex(x, env, out, ind) for x in args]
        c = self.lookup(h, name, [tt for _, tt in ats], exp, line, "method call")
        if not c.has_self:
            self.err(line, f"`{name}` is not a method")
        if c.mutparam is not None:
            self.err(line, f"`&mut self` method `{name}` used as a value")
        return self.apply(c, [a] + [x for x, _ in ats], env, out, ind)

    # ------------------------------------------------------------------------------------------------------------------
    # statements
    # ------------------------------------------------------------------------------------------------------------------
    def display(self, atom, t, f, env, out, ind, line):
        t = self.prune(t)
        if t[0] == "char":
            out.append(f"{ind}let {f} := {f} ++ [{atom}]")
        elif t[0] == "str":
            out.append(f"{ind}let {f} := {f} ++ {P(atom)}")
        elif t[0] in ("i32", "usize", "u8", "u32"):
            out.append(f"{ind}let {f} := {f} ++ {t[0]}.display {P(atom)}")
        elif t[0] == "notation":
            c = [x for x in self.reg.get((t[1][0], "into_notation"), []) if x.kind == "tres" and x.mutparam == 1
                 and len(x.params) == 2 and self.unify_probe(x.params[0][1], t[2])]
            if len(c) != 1:
                self.err(line, f"write!: {len(c)} translated `impl IntoNotation<{show(self.prune(t[2]))}> for {t[1][0]}`")
            out.append(f"{ind}let {f} ← {c[0].lean} {P(atom)} {f}")
        else:
            c = [x for x in self.reg.get((t[0], "fmt"), []) if x.kind == "tres"]
            if len(c) != 1:
                self.err(line, f"write!: no translated `impl Display for {show(t)}`")
            out.append(f"{ind}let {f} ← {c[0].lean} {P(atom)} {f}")

    def stmt_write(self, e, env, out, ind):
        f, fmt, args, line = e[1], e[2], e[3], e[4]
        fa, ft = self.ex(f, env, out, ind)
        if self.prune(ft) != ("fmt",) or self.root(f) is None or fa != mangle(self.root(f)):
            self.err(line, "write!: the sink must be the `&mut Formatter` variable")
        pieces = fmt.split("{}")
        if any(("{" in p or "}" in p) for p in pieces):
            self.err(line, f"write!: format string {fmt!r} — only `{{}}` placeholders are supported")
        if len(pieces) - 1 != len(args):
            self.err(line, "write!: number of arguments")
        for i, p in enumerate(pieces):
            if p:
                out.append(f"{ind}let {fa} := {fa} ++ {chars_lit(p)}")
            if i < len(args):
                a, t = self.ex(args[i], env, out, ind)
                self.display(a, t, fa, env, out, ind, line)

    def place_update(self, place, env, out, ind, line, upd):
        """`upd(old_atom, old_type)` -> new atom (may append to out); writes the new value back into the place"""
        k = place[0]
        if k == "path" and len(place[1]) == 1 and place[1][0] in env:
            n = place[1][0]
            new = upd(mangle(n), env[n])
            out.append(f"{ind}let {mangle(n)} := {new}")
            return
        if k == "field" and not place[2].isdigit():
            def upd2(old, t):
                t = self.prune(t)
                fields = self.structs.get(t[0])
                if fields is None or place[2] not in dict(fields):
                    self.err(line, f"field `.{place[2]}` of {show(t)} unknown")
                new = upd(f"{P(old)}.f_{place[2]}", dict(fields)[place[2]])
                return "{ " + old + " with f_" + place[2] + " := " + new + " }"
            self.place_update(place[1], env, out, ind, line, upd2)
            return
        if k == "index":
            def upd2(old, t):
                t = self.prune(t)
                if t[0] != "ArrayMap":
                    self.err(line, f"assignment through an index of a {show(t)} not supported")
                i, it = self.ex(place[2], env, out, ind, t[1])
                if not self.unify(it, t[1]):
                    self.err(line, "ArrayMap key type")
                key = self.index_key(t[1], i)
                self.cur_index = (old, key, t[2])
                new = upd(None, t[2])
                return self.bind(env, out, ind, f"TRes.ofPanics (ArrayMap.set {P(old)} {key} {P(new)})")
            self.place_update(place[1], env, out, ind, line, upd2)
            return
        self.err(line, "assignment to this place not supported")

    def stmt_assign(self, e, env, out, ind):
        op, place, rhs = e[1], e[2], e[3]

        def upd(old, t):
            if old is None:                      # indexed place: read the element only when it is needed
                if op != "=":
                    arr, key, _ = self.cur_index
                    old = self.bind(env, out, ind, f"TRes.ofPanics (ArrayMap.index {P(arr)} {key})")
            if op == "=":
                a, ta = self.ex(rhs, env, out, ind, t)
                if not self.unify(ta, t):
                    self.err(0, f"assignment: expected {show(self.prune(t))}, found {show(self.prune(ta))}")
                return a
            if op in ("+=", "-="):
                a, ta = self.ex(rhs, env, out, ind, t)
                tt = self.prune(t)
                if not self.unify(ta, t) or tt[0] not in INT_LEAN:
                    self.err(0, f"`{op}` on {show(tt)}")
                fn = "checked_add" if op == "+=" else "checked_sub"
                return self.bind(env, out, ind, f"TRes.ofPanics ({INT_LEAN[tt[0]]}.{fn} {P(old)} {P(a)})")
            self.err(0, f"`{op}` not supported")
        # a field of an indexed element needs the old element
        if place[0] == "field" and place[1][0] == "index":
            ixp = place[1]

            def upd_el(old, t):
                arr, key, _ = self.cur_index
                el = self.bind(env, out, ind, f"TRes.ofPanics (ArrayMap.index {P(arr)} {key})")
                tt = self.prune(t)
                fields = self.structs.get(tt[0])
                if fields is None or place[2] not in dict(fields):
                    self.err(0, f"field `.{place[2]}` of {show(tt)} unknown")
                new = upd(f"{el}.f_{place[2]}", dict(fields)[place[2]])
                return "{ " + el + " with f_" + place[2] + " := " + new + " }"
            self.place_update(ixp, env, out, ind, 0, upd_el)
            return
        self.place_update(place, env, out, ind, 0, upd)

    def stmt(self, e, env, out, ind):
        """an expression in statement position (value discarded)"""
        k = e[0]
        if k == "unit":
            return
        if k == "try" and e[1][0] == "write":
            return self.stmt_write(e[1], env, out, ind)
        if k == "write":
            return self.stmt_write(e, env, out, ind)
        if k == "assign":
            return self.stmt_assign(e, env, out, ind)
        if k == "debug_assert":
            a, t = self.ex(e[1], env, out, ind, ("bool",))
            out.append(f"{ind}TRes.assert {P(a)}")
            return
        if k == "mcall" and e[2] in self.mut_names:
            recv, name, args, line = e[1], e[2], e[3], e[5]
            rt = None
            r = self.root(recv)
            if r is not None and r in env and recv[0] == "path" and self.prune(env[r])[0] == "iter" and name == "next" and not args:
                out.append(f"{ind}let {mangle(r)} := List.tail {mangle(r)}")
                return

            def upd(old, t):
                if old is None:
                    arr, key, _ = self.cur_index
                    old = self.bind(env, out, ind, f"TRes.ofPanics (ArrayMap.index {P(arr)} {key})")
                ats = [self.ex(x, env, out, ind) for x in args]
                c = self.lookup(self.prune(t)[0], name, [tt for _, tt in ats], None, line, "method call")
                if not c.has_self or c.mutparam != 0:
                    self.err(line, f"`{name}`: expected a `&mut self` method")
                term = " ".join([c.lean, P(old)] + [P(x) for x, _ in ats])
                return self.bind(env, out, ind, f"TRes.ofPanics ({term})" if c.kind == "panics" else (term if c.kind == "tres" else f"pure ({term})"))
            self.place_update(recv, env, out, ind, line, upd)
            return
        if k in ("if", "iflet", "match", "block", "for"):
            vs = [v for v in self.assigned(e, set(), []) if v in env]
            pat = tup([mangle(v) for v in vs]) if vs else "_"
            sub = []
            if k == "for":
                self.emit_for(e, env, sub, ind + "    ", vs)
            else:
                self.ctrl(e, dict(env), sub, ind + "    ", Mode("state", vs))
            out.append(f"{ind}let {pat} ← (do")
            out.extend(sub)
            out[-1] += ")"
            return
        if k in ("return", "break"):
            self.err(0, f"`{k}` must be the last statement of its block")
        a, t = self.ex(e, env, out, ind)       # evaluated for its effects (panics / errors), value discarded
        if self.prune(t)[0] == "Result":
            self.err(0, "a Result that is neither `?`-ed nor returned")

    def emit_for(self, e, env, out, ind, vs):
        pat, it, body, line = e[1], e[2], e[3], e[4]
        a, t = self.ex(it, env, out, ind)
        t = self.prune(t)
        if t[0] not in ("iter", "slice"):
            self.err(line, f"`for` over a {show(t)} not supported")
        env2 = dict(env)
        lines = []
        ind2 = ind + "    "
        for i, v in enumerate(vs):
            lines.append(f"{ind2}let {mangle(v)} := {proj('st', i, len(vs))}")
        if pat[0] == "pbind":
            env2[pat[1]] = t[1]
            x = mangle(pat[1])
        elif pat[0] == "ptuple" and t[1][0] == "tuple" and len(pat[1]) == len(t[1]) - 1 and all(p[0] == "pbind" for p in pat[1]):
            x = "x"
            for i, p in enumerate(pat[1]):
                env2[p[1]] = t[1][1 + i]
                lines.append(f"{ind2}let {mangle(p[1])} := {proj('x', i, len(pat[1]))}")
        else:
            self.err(line, "`for` pattern not supported")
        lines.extend(self.do_block(body, env2, ind2, Mode("loop", vs)))
        out.append(f"{ind}for_loop {P(a)} {tup([mangle(v) for v in vs])} (fun st {x} => (do")
        out.extend(lines)
        out[-1] += "))"

    # ------------------------------------------------------------------------------------------------------------------
    # control flow in tail position of a do-block; `mode` says what the block must produce
    # ------------------------------------------------------------------------------------------------------------------
    def final(self, env, out, ind, mode):
        if mode.kind == "state":
            out.append(f"{ind}pure {tup([mangle(v) for v in mode.vars])}")
        elif mode.kind == "loop":
            out.append(f"{ind}pure (Flow.cont {tup([mangle(v) for v in mode.vars])})")
        elif mode.kind == "fn" and self.cur_mut is not None:
            out.append(f"{ind}pure {mangle(self.cur_mut)}")
        else:
            if not self.unify(mode.ty, ("unit",)):
                self.err(0, f"a branch yields no value but {show(self.prune(mode.ty))} is expected")
            out.append(f"{ind}pure ()")

    def as_block(self, e):
        return e if e[0] == "block" else ("block", [], e)

    def is_err(self, e):
        if getattr(self, "opt_fn", False) and e[0] == "path" and e[1] == ["None"]:
            return True
        return e[0] == "call" and e[1][0] == "path" and e[1][1] == ["Err"] and len(e[2]) == 1 and e[2][0][0] == "unit"

    def finish(self, tail, env, out, ind, mode):
        if tail is None:
            return self.final(env, out, ind, mode)
        k = tail[0]
        if k == "return":
            if tail[1] is not None and self.is_err(tail[1]):
                if self.cur_ret[0] != "Result":
                    self.err(0, "`return Err(())` in a function that does not return Result")
                out.append(f"{ind}TRes.err")
                return
            if mode.kind != "fn" or self.cur_mut is not None or tail[1] is None:
                self.err(0, "`return` of a value is supported only on the function's own control path (not inside a loop or a nested statement)")
            return self.finish(tail[1], env, out, ind, mode)
        if k == "break":
            if mode.kind != "loop":
                self.err(0, "`break` is supported only as the last statement on a path of the loop body")
            out.append(f"{ind}pure (Flow.brk {tup([mangle(v) for v in mode.vars])})")
            return
        valued = mode.kind == "value" or (mode.kind == "fn" and self.cur_mut is None)
        if not valued:
            if k == "call" and tail[1][0] == "path" and tail[1][1] == ["Ok"] and len(tail[2]) == 1 and tail[2][0][0] == "unit":
                return self.final(env, out, ind, mode)
            if k in ("if", "iflet", "match", "block"):
                return self.ctrl(tail, env, out, ind, mode)
            self.stmt(tail, env, out, ind)
            return self.final(env, out, ind, mode)
        if k in ("if", "iflet", "match", "block"):
            return self.ctrl(tail, env, out, ind, mode)
        if mode.kind == "fn" and self.cur_ret[0] == "Result":
            if self.is_err(tail):
                out.append(f"{ind}TRes.err")
                return
            if k == "call" and tail[1][0] == "path" and tail[1][1] == (["Some"] if getattr(self, "opt_fn", False) else ["Ok"]) \
                    and len(tail[2]) == 1:
                a, t = self.ex(tail[2][0], env, out, ind, self.cur_ret[1])
                if not self.unify(t, self.cur_ret[1]):
                    self.err(0, f"`Ok(..)`: expected {show(self.cur_ret[1])}, found {show(self.prune(t))}")
                out.append(f"{ind}pure {a}")
                return
            a, t = self.ex(tail, env, out, ind, self.cur_ret)
            if not self.unify(t, self.cur_ret):
                self.err(0, f"result: expected {show(self.cur_ret)}, found {show(self.prune(t))}")
            out.append(f"{ind}{a}")
            return
        a, t = self.ex(tail, env, out, ind, mode.ty)
        if self.prune(t)[0] == "Result":
            self.err(0, "a Result value in this position is not supported")
        if not self.unify(t, mode.ty):
            self.err(0, f"value: expected {show(self.prune(mode.ty))}, found {show(self.prune(t))}")
        out.append(f"{ind}pure {a}")

    def returns_value(self, b):
        """block whose last statement is `return <non-Err value>`"""
        last = b[2] if b[2] is not None else (b[1][-1][1] if b[1] and b[1][-1][0] == "expr" else None)
        return last is not None and last[0] == "return" and last[1] is not None and not self.is_err(last[1])

    def do_block(self, b, env, ind, mode):
        out = []
        env = dict(env)
        stmts, tail = list(b[1]), b[2]
        if tail is None and stmts and stmts[-1][0] == "expr" and stmts[-1][1][0] in ("return", "break"):
            tail = stmts.pop()[1]
        for i, st in enumerate(stmts):
            if st[0] == "let":
                pat, ty, init, line = st[1], st[2], st[3], st[4]
                self.cur_line = line
                a, t = self.ex(init, env, out, ind, ty)
                if ty is not None and not self.unify(t, ty):
                    self.err(line, f"let: declared {show(ty)}, found {show(self.prune(t))}")
                if self.prune(t)[0] == "Result":
                    self.err(line, "binding a Result (use `?`)")
                names = set()
                self.pat_names(pat, names)
                if mode.kind in ("state", "loop") and names & set(mode.vars):
                    self.err(line, f"`let` shadows `{sorted(names & set(mode.vars))[0]}`, which an enclosing statement assigns")
                if pat[0] == "pbind":
                    env[pat[1]] = t
                    if a != mangle(pat[1]):
                        out.append(f"{ind}let {mangle(pat[1])} := {a}")
                elif pat[0] == "ptuple" and all(p[0] == "pbind" for p in pat[1]) and self.prune(t)[0] == "tuple" \
                        and len(self.prune(t)) - 1 == len(pat[1]):
                    for j, p in enumerate(pat[1]):
                        env[p[1]] = self.prune(t)[1 + j]
                        out.append(f"{ind}let {mangle(p[1])} := {P(a)}{proj('', j, len(pat[1]))}")
                elif pat[0] == "pwild":
                    pass
                else:
                    self.err(line, "`let` pattern not supported")
                continue
            e, line = st[1], st[2]
            self.cur_line = line
            # `if c { …; return v; }` on the function's own control path: the rest of the block is the else branch
            if e[0] == "if" and mode.kind == "fn" and self.cur_mut is None:
                chain, x = [], e
                while x is not None and x[0] == "if":
                    chain.append(x)
                    x = x[3]
                if x is None and all(self.returns_value(c[2]) for c in chain):
                    rest = ("block", stmts[i + 1:], tail)
                    new = rest
                    for c in reversed(chain):
                        new = ("if", c[1], c[2], new, c[4])
                    self.ctrl(new, env, out, ind, mode)
                    return out
            self.stmt(e, env, out, ind)
        self.finish(tail, env, out, ind, mode)
        return out

    def branch(self, b, env, out, ind, mode, head):
        out.append(f"{ind}{head} (do")
        if b is None:
            sub = []
            self.final(env, sub, ind + "    ", mode)
        elif b[0] == "block":
            sub = self.do_block(b, env, ind + "    ", mode)
        else:
            sub = []
            self.ctrl(b, dict(env), sub, ind + "    ", mode)
        out.extend(sub)
        out[-1] += ")"

    def pat_cond(self, p, s, st, env, out, ind):
        """Bool test `s matches p` for literal / range / constant patterns"""
        if p[0] == "plit":
            a, t = self.ex(p[1], env, out, ind, st)
            if not self.unify(t, st):
                self.err(0, "pattern type")
            return f"({s} == {a})"
        if p[0] == "prange":
            lo, t1 = self.ex(p[1], env, out, ind, st)
            hi, t2 = self.ex(p[2], env, out, ind, st)
            if not (self.unify(t1, st) and self.unify(t2, st)) or self.prune(st)[0] not in ("char", "u8", "u32", "usize", "i32"):
                self.err(0, "range pattern type")
            return f"(decide ({lo} ≤ {s}) && decide ({s} {'≤' if p[3] else '<'} {hi}))"
        if p[0] == "ppath":
            a, t = self.ex(("path", p[1], {}, 0), env, out, ind)
            if not self.unify(t, st):
                self.err(0, "constant pattern type")
            return f"({s} == {a})"
        if p[0] == "por":
            return "(" + " || ".join(self.pat_cond(q, s, st, env, out, ind) for q in p[1]) + ")"
        self.err(0, "pattern not supported in a match on a char / string / integer")

    def lean_pat(self, p, st, env):
        """Lean pattern for enum / Option / tuple scrutinees; binds names into env"""
        st = self.prune(st)
        if p[0] == "pwild":
            return "_"
        if p[0] == "pbind":
            env[p[1]] = st
            return mangle(p[1])
        if p[0] == "ppath":
            segs = p[1]
            if segs == ["None"] and st[0] == "Option":
                return "Option.none"
            if len(segs) == 2 and segs[0] in ENUMS and segs[1] in ENUMS[segs[0]] and st == (segs[0],):
                return "." + ENUMS[segs[0]][segs[1]].split(".")[1]
        if p[0] == "pctor" and p[1] == ["Some"] and st[0] == "Option" and len(p[2]) == 1:
            return f"Option.some {P(self.lean_pat(p[2][0], st[1], env))}"
        if p[0] == "ptuple" and st[0] == "tuple" and len(p[1]) == len(st) - 1:
            return "(" + ", ".join(self.lean_pat(q, t, env) for q, t in zip(p[1], st[1:])) + ")"
        self.err(0, f"pattern not supported on a {show(st)}")

    def ctrl(self, e, env, out, ind, mode):
        k = e[0]
        if k == "block":
            out.extend(self.do_block(e, env, ind, mode))
            return
        if k == "if":
            c, t = self.ex(e[1], env, out, ind, ("bool",))
            if self.prune(t) != ("bool",):
                self.err(e[4], "condition is not a bool")
            self.branch(e[2], env, out, ind, mode, f"if {c} then")
            self.branch(e[3], env, out, ind, mode, "else")
            return
        if k == "iflet":
            s, st = self.ex(e[2], env, out, ind)
            st = self.prune(st)
            if st[0] != "Option" or e[1][0] != "pctor" or e[1][1] != ["Some"]:
                self.err(e[5], "`if let`: only `Some(x)` on an Option")
            env2 = dict(env)
            lp = self.lean_pat(e[1], st, env2)
            out.append(f"{ind}match {s} with")
            self.branch(e[3], env2, out, ind, mode, f"| {lp} =>")
            self.branch(e[4], env, out, ind, mode, "| Option.none =>")
            return
        if k == "match":
            s, st = self.ex(e[1], env, out, ind)
            st = self.prune(st)
            arms = e[2]
            if st[0] in ("char", "str", "u8", "u32", "usize", "i32"):
                if not re.fullmatch(r"[\w.']+", s):
                    s = self.bind(env, out, ind, s, pure=True)
                n_if = 0
                closed = False
                for pat, body in arms:
                    if closed:
                        self.err(e[3], "match arm after a catch-all arm")
                    if pat[0] in ("pwild", "pbind"):
                        env2 = dict(env)
                        pre = []
                        if pat[0] == "pbind":
                            env2[pat[1]] = st
                            if mode.kind in ("state", "loop") and pat[1] in mode.vars:
                                self.err(e[3], "arm binder shadows an assigned variable")
                            if mangle(pat[1]) != s:
                                pre.append(f"let {mangle(pat[1])} := {s}")
                        if n_if == 0:
                            out.extend(ind + x for x in pre)
                            out.extend(self.do_block(self.as_block(body), env2, ind, mode))
                        else:
                            out.append(f"{ind}else (do")
                            out.extend(ind + "    " + x for x in pre)
                            out.extend(self.do_block(self.as_block(body), env2, ind + "    ", mode))
                            out[-1] += ")"
                        closed = True
                    else:
                        pre = []
                        c = self.pat_cond(pat, s, st, env, pre, ind)
                        if pre:
                            self.err(e[3], "pattern with effects")
                        head = f"if {c} then" if n_if == 0 else f"else (if {c} then"
                        self.branch(self.as_block(body), env, out, ind, mode, head)
                        n_if += 1
                if not closed:
                    self.err(e[3], "match on a char / string / integer without a catch-all arm")
                out[-1] += ")" * max(0, n_if - 1)
                return
            if st[0] in ("Option", "tuple") or st[0] in ENUMS:
                out.append(f"{ind}match {s} with")
                seen_all = False
                for pat, body in arms:
                    env2 = dict(env)
                    lp = self.lean_pat(pat, st, env2)
                    self.branch(self.as_block(body), env2, out, ind, mode, f"| {lp} =>")
                return
            self.err(e[3], f"match on a {show(st)} not supported")
        self.err(0, f"`{k}` not supported here")

    # ------------------------------------------------------------------------------------------------------------------
    # items
    # ------------------------------------------------------------------------------------------------------------------
    def locate(self, cont):
        toks = self.load(cont["file"])
        lo, hi = 0, len(toks)
        for header in cont["path"]:
            lo, hi = find_container(toks, lo, hi, header, cont["file"])
        return toks, lo, hi

    def signature(self, raw, self_ty, fname):
        p = BodyParser(raw.sig, self_ty, fname)
        p.eat("(")
        params = []
        mut = None
        while p.peek() != ")":
            if p.peek() in ("&", "self", "mut"):
                save = p.i
                isref = ismut = False
                if p.peek() == "&":
                    p.eat()
                    isref = True
                    if p.kind() == "life":
                        p.eat()
                if p.peek() == "mut":
                    p.eat()
                    ismut = True
                if p.peek() == "self":
                    p.eat()
                    if self_ty is None:
                        fail(f"{fname}: fn {raw.name}: `self` outside an impl")
                    params.append(("self", self_ty))
                    if isref and ismut:
                        mut = "self"
                    if p.peek() == ",":
                        p.eat()
                    continue
                p.i = save
                if p.peek() == "mut":
                    p.eat()
            name = p.eat().s
            p.eat(":")
            refmut = p.peek() == "&" and p.t[p.i + 1].s == "mut"
            ty = p.ty()
            params.append((name, ty))
            if refmut:
                if mut is not None:
                    fail(f"{fname}: fn {raw.name}: more than one `&mut` parameter")
                mut = name
            if p.peek() == ",":
                p.eat()
        p.eat(")")
        ret = ("unit",)
        if p.peek() == "->":
            p.eat()
            ret = p.ty()
        if p.i != len(p.t):
            fail(f"{fname}:{raw.line}: fn {raw.name}: `{p.peek()}` in the signature not supported")
        return params, ret, mut

    def collect(self):
        self.pending = []
        for rel, pat, what in TEXT_CHECKS:
            if rel not in self.src and rel in {c["file"] for c in CLOSURES}:
                path = os.path.join(self.repo, rel)
                if not os.path.exists(path):
                    fail(f"{rel}: file not found")
                with open(path) as f:
                    self.src[rel] = f.read()        # text only: the stage-1 lexer does not read every file of the engine crate
            text = re.sub(r"//[^\n]*", "", self.src.get(rel) or (self.load(rel) and self.src[rel]))
            if not re.search(pat, text):
                fail(f"{rel}: expected declaration not found: {what}")
        for rel, name in STRUCT_DECLS:
            toks = self.load(rel)
            derives, fields = R2.find_struct(toks, name, rel)
            fl = []
            for fld in fields:
                tp = TyParser(list(fld[1]), None, rel)
                fl.append((fld[0], tp.ty()))
            self.structs[name] = fl
            self.items.append(("struct", rel, name, fl, derives))
        self.structs.setdefault("State", [("board", ("Board",)), ("turn_to_move", ("Color",)),
                                          ("castle_rights", ("ArrayMap", ("Color",), ("CastleRights",))),
                                          ("en_passant_target", ("Option", ("Square",))), ("clock", ("Clock",))])
        text = re.sub(r"//[^\n]*", "", self.src[STATE])
        if not re.search(r"pub struct State \{\s*board: Board,\s*turn_to_move: Color,\s*castle_rights: ArrayMap<Color, CastleRights>,\s*en_passant_target: Option<Square>,\s*clock: Clock,\s*\}", text):
            fail(f"{STATE}: `struct State` differs from the translated declaration")
        for cont in CONTAINERS:
            toks, lo, hi = self.locate(cont)
            self_ty = parse_ty_str(cont["self"]) if cont.get("self") else None
            fns, consts = scan_items_tolerant(toks, lo, hi, cont["file"])
            names = [f.name for f in fns]
            for n in cont["fns"]:
                if names.count(n) != 1:
                    fail(f"{cont['file']}: `{' / '.join(' '.join(h) for h in cont['path'])}`: expected exactly one `fn {n}`")
            if cont.get("complete"):
                for n in names:
                    if n not in cont["fns"] and n not in cont.get("skip", {}):
                        fail(f"{cont['file']}: `{' '.join(cont['path'][-1])}`: new fn `{n}` is not in the translation table")
            if cont.get("consts"):
                for name, etoks, line, attrs in consts:
                    if cont.get("only_consts") and name not in cont["only_consts"]:
                        continue
                    p = BodyParser(etoks, self_ty, cont["file"])
                    ty = p.ty()
                    p.eat("=")
                    lit = p.expr()
                    if p.i != len(p.t) or lit[0] not in ("char", "str"):
                        fail(f"{cont['file']}:{line}: const {name}: only char / string literals")
                    lean = f"{cont['consts']}.{name}"
                    self.consts[(cont["consts"], name)] = (lean, ("char",) if lit[0] == "char" else ("str",))
                    if cont["consts"] == "fen":
                        self.consts[("fen", name)] = (lean, ("str",))
                    val = char_lit(lit[1]) if lit[0] == "char" else chars_lit(lit[1])
                    self.items.append(("const", cont["file"], lean, "Char" if lit[0] == "char" else "List Char", val, line))
                for n in cont.get("only_consts", []):
                    if n not in [c[0] for c in consts]:
                        fail(f"{cont['file']}: const {n} not found")
            by = {f.name: f for f in fns}
            for n, lean in cont["fns"].items():
                raw = by[n]
                if raw.generic:
                    fail(f"{cont['file']}: fn {n}: generic functions are not supported")
                if any("cfg" in a for a in raw.attrs):
                    fail(f"{cont['file']}: fn {n}: cfg-gated")
                params, ret, mut = self.signature(raw, self_ty, cont["file"])
                if ret[0] == "fmtresult" and mut is None:
                    fail(f"{cont['file']}: fn {n}: fmt::Result without a `&mut Formatter`")
                mp = [i for i, p in enumerate(params) if p[0] == mut][0] if mut else None
                eff_ret = params[mp][1] if mut else ret
                if mut and ret not in (("unit",), ("fmtresult",)):
                    fail(f"{cont['file']}: fn {n}: `&mut` parameter together with a return value")
                has_self = bool(params) and params[0][0] == "self"
                ent = Entry(lean, params, eff_ret, "tres", mp, has_self,
                            rust=" / ".join(" ".join(h) for h in cont["path"]) + " :: " + n)
                head = self_ty[0] if self_ty else None
                self.reg.setdefault((head, n), []).append(ent)
                if has_self and mp == 0:
                    self.mut_names.add(n)
                self.pending.append((cont, raw, ent, self_ty, ret, mut))
        for cl in CLOSURES:
            anchor = cl["anchor"]
            path = os.path.join(self.repo, cl["file"])
            if not os.path.exists(path):
                fail(f"{cl['file']}: file not found")
            with open(path) as f:
                text = f.read()
            self.src[cl["file"]] = text
            if len(re.findall(r"\s*".join(re.escape(a) for a in anchor), text)) != 1:
                fail(f"{cl['file']}: closure `{cl['lean']}`: expected exactly one occurrence of `{' '.join(anchor)}` in the text")
            toks = lex_prefix(text)         # the file as far as the stage-1 lexer reads it (the closure must lie in that part)
            hits = [i for i in range(len(toks) - len(anchor)) if [t.s for t in toks[i:i + len(anchor)]] == anchor]
            if len(hits) != 1:
                fail(f"{cl['file']}: closure `{cl['lean']}`: expected exactly one occurrence of `{' '.join(anchor)}`, found {len(hits)}")
            j = hits[0] + len(anchor)
            if toks[j].s != "{":
                fail(f"{cl['file']}:{toks[j].line}: closure `{cl['lean']}`: the body must be a block")
            bc = match_close(toks, j, "{", "}")
            if [t.s for t in toks[bc + 1:bc + 1 + len(cl["closer"])]] != cl["closer"]:
                fail(f"{cl['file']}:{toks[bc].line}: closure `{cl['lean']}`: expected `{' '.join(cl['closer'])}` after the body")
            raw = R.RawFn(cl["lean"], [], [], toks[j:bc + 1], toks[hits[0]].line, (j, bc))
            raw.generic = False
            params = [(n, parse_ty_str(t)) for n, t in cl["params"]]
            rt = parse_ty_str(cl["ret"])
            if rt[0] != "Option":
                fail(f"closure `{cl['lean']}`: only closures returning Option<_>")
            ret = ("Result", rt[1])
            ent = Entry(cl["lean"], params, ret, "tres", None, False, rust="closure " + " ".join(anchor) + " { .. }")
            self.notes.append(cl["note"])
            self.pending.append((dict(file=cl["file"], mod=None, opt=True), raw, ent, None, ret, None))
        # every fn of notation.rs is accounted for
        toks = self.load(NOTATION)
        found = {}
        for i, t in enumerate(toks):
            if t.s == "fn" and toks[i + 1].k == "id":
                found[toks[i + 1].s] = found.get(toks[i + 1].s, 0) + 1
        expect = {"into_notation": 6, "try_from_notation": 4, "try_parse": 3, "deref": 1, "fmt": 1, "from": 1,
                  "test_default_fen": 1, "test_round_trip": 1}
        if found != expect:
            fail(f"{NOTATION}: the set of functions changed: found {sorted(found.items())}, translated/skipped set is {sorted(expect.items())}")

    def emit_fn(self, cont, raw, ent, self_ty, ret, mut):
        self.cur_file, self.cur_fn, self.cur_mod = cont["file"], raw.name, cont.get("mod")
        self.self_ty, self.cur_ret, self.cur_mut = self_ty, ret, mut
        self.uses_regex = False
        self.opt_fn = bool(cont.get("opt"))
        self.counts = []
        self.ntmp = 0
        p = BodyParser(raw.body, self_ty, cont["file"])
        body = p.block()
        env = {n: t for n, t in ent.params}
        mode = Mode("fn", ty=ret if ret[0] != "Result" else ret[1])
        lines = self.do_block(body, env, "  ", mode)
        text = "\n".join(lines)
        for tag, kt, line in self.counts:
            k = self.prune(kt)
            if k[0] == "?" or k[0] not in self.e3.key_count:
                self.err(line, f"ArrayMap::filled/default: key type {show(k)} undetermined or without `impl ArrayKey` (COUNT)")
            text = text.replace(tag, str(self.e3.key_count[k[0]]))
        ent.seam = self.uses_regex
        ps = "".join(f" ({mangle(n)} : {lean_ty(self.prune(t))})" for n, t in ent.params)
        if ent.seam:
            ps = " (rx : RegexCaptures)" + ps
        rt = lean_ty(self.prune(ent.ret if mut else (ret[1] if ret[0] == "Result" else ret)), True)
        head = f"/-- `{ent.rust}` ({cont['file']}:{raw.line}) -/\ndef {ent.lean}{ps} : TRes {rt} := do"
        return head + "\n" + text

    def run(self):
        self.collect()
        fn_texts = []
        for item in self.pending:
            fn_texts.append(self.emit_fn(*item))
        files = sorted({c["file"] for c in CONTAINERS} | {c["file"] for c in CLOSURES})
        out = ["-- GENERATED by tools/rs2lean_text.py from " + ", ".join(files) + "; do not edit.",
               "import Wee.Gen.GenMoves",
               "/-!",
               "# Lean definitions translated from the Rust source text, stage 3d (text notations: FEN writer / reader, SAN, MoveQuery)",
               "",
               "Every `def`/`structure` below the prelude is produced from the text of one Rust item; the prelude is the fixed, trusted",
               "vocabulary.  `Wee/Proofs/TextFnsBridge.lean` proves these functions equal to the hand-written model (`Wee/Model/Fen.lean`,",
               "`Wee/Model/San.lean`).  Functions of stages 1-3a (`MoveFns.lean`, `CoreFns.lean`, `GenMoves.lean`) are used by name.",
               "-/",
               "set_option linter.unusedVariables false",
               "namespace Wee.GenFns",
               "open Wee",
               PRELUDE.strip("\n"),
               "",
               "/-! ## Translated struct declarations, constants -/",
               ""]
        for it in self.items:
            if it[0] == "struct":
                _, rel, name, fl, derives = it
                out.append(f"/-- `struct {name}` ({rel}) -/")
                out.append(f"structure {name} where")
                for f, t in fl:
                    out.append(f"  f_{f} : {lean_ty(t)}")
                out.append("deriving DecidableEq, Repr")
                out.append("")
            else:
                _, rel, lean, ty, val, line = it
                out.append(f"/-- `const {lean.split('.')[-1]}` ({rel}:{line}) -/")
                out.append(f"def {lean} : {ty} := {val}")
                out.append("")
        out.append("/-! ## Translated functions -/")
        out.append("")
        for t in fn_texts:
            out.append(t)
            out.append("")
        out.append("/-! ## Side conditions checked by the translator")
        for n in sorted(set(self.notes)):
            out.append(f"* {n}")
        for k, v in sorted(NOTATION_SKIP.items()):
            out.append(f"* notation.rs `{k}` not translated: {v}")
        out.append("-/")
        out.append("end Wee.GenFns")
        return "\n".join(out) + "\n"


PRELUDE = r'''
/-! ## Prelude: the trusted vocabulary of stage 3d -/

/-- outcome of a translated function: a value, `Err(())`, or a panic (debug profile: overflow checks on) -/
inductive TRes (α : Type) where
  | ok (a : α)
  | err
  | panic
deriving Repr, DecidableEq

instance : Monad TRes where
  pure := TRes.ok
  bind r f := match r with
    | .ok a => f a
    | .err => .err
    | .panic => .panic

/-- a stage 1-3a function (`Panics α = Option α`, `none` = panic) -/
def TRes.ofPanics {α : Type} : Option α → TRes α
  | some a => .ok a
  | none => .panic
/-- `.ok_or(())?` / a `Result<_, E>` of stages 1-3a (`Option`, payload dropped) followed by `.map_err(|_| ())` -/
def TRes.okOr {α : Type} : Option α → TRes α
  | some a => .ok a
  | none => .err
/-- `debug_assert!` -/
def TRes.assert (c : Bool) : TRes Unit := if c then .ok () else .panic

/-- what one pass of a loop body says: go on / `break` (with the values of the variables the loop assigns) -/
inductive Flow (σ : Type) where
  | cont (s : σ)
  | brk (s : σ)

/-- `for x in items { body }` with `break`; `?` / `return Err(())` / panics leave through `TRes` -/
def for_loop {α σ : Type} : List α → σ → (σ → α → TRes (Flow σ)) → TRes σ
  | [], s, _ => .ok s
  | x :: xs, s, f =>
    match f s x with
    | .ok (.cont s') => for_loop xs s' f
    | .ok (.brk s') => .ok s'
    | .err => .err
    | .panic => .panic

/-- `Iterator::all` (stops at the first `false`) -/
def iter.all {α : Type} : List α → (α → TRes Bool) → TRes Bool
  | [], _ => .ok true
  | x :: xs, p =>
    match p x with
    | .ok true => iter.all xs p
    | .ok false => .ok false
    | .err => .err
    | .panic => .panic
/-- `Option::map` with a closure that may panic -/
def Option.mapT {α β : Type} : Option α → (α → TRes β) → TRes (Option β)
  | Option.none, _ => .ok Option.none
  | Option.some a, f =>
    match f a with
    | .ok b => .ok (Option.some b)
    | .err => .err
    | .panic => .panic
/-- `iter.nth(n)` on a fresh iterator -/
def iter.nth {α : Type} (l : List α) (n : UInt64) : Option α := l[n.toNat]?
/-- `slice[i]` -/
def slice.index {α : Type} (l : List α) (i : UInt64) : Panics α := l[i.toNat]?
/-- `slice.len()` -/
def slice.len {α : Type} (l : List α) : UInt64 := l.length.toUInt64
/-- `iter.enumerate()` (`usize` indices from 0) -/
def iter.enumerate {α : Type} (l : List α) : List (UInt64 × α) := ((List.range l.length).map Nat.toUInt64).zip l

/-! strings: `&str` / `String` / `Formatter` sink are `List Char`; `chars()` is the list itself, `peekable()` the list
of the items not yet consumed (`peek` = `head?`, `next` = `tail`) -/
def str.starts_with (s p : List Char) : Bool := p.isPrefixOf s
/-- `str::len`: the UTF-8 byte length -/
def str.len (s : List Char) : UInt64 := (String.ofList s).utf8ByteSize.toUInt64
/-- `"…".as_bytes()` of an ASCII literal (the translator checks that the literal is ASCII) -/
def str.ascii_bytes (s : List Char) : List UInt8 := s.map (fun c => c.toNat.toUInt8)
/-- `c as u8` (truncates) -/
def char.as_u8 (c : Char) : UInt8 := c.toNat.toUInt8
/-- `b as char` -/
def u8.as_char (b : UInt8) : Char := Char.ofNat b.toNat
/-- `s.get(a..b)` (`str::get::<Range<usize>>`): the sub-slice of the BYTES `a..b` of the UTF-8 encoding; `None` when the range
is out of bounds or an end is not on a `char` boundary -/
def str.get_range (s : List Char) (a b : UInt64) : Option (List Char) :=
  let bytes := (String.ofList s).toUTF8
  if b.toNat > bytes.size ∨ a.toNat > b.toNat then Option.none
  else
    let isBoundary (i : Nat) : Bool := i == bytes.size || (bytes[i]!.toNat &&& 0xC0) != 0x80
    if !(isBoundary a.toNat && isBoundary b.toNat) then Option.none
    else (String.fromUTF8? (bytes.extract a.toNat b.toNat)).map String.toList
/-- `c.to_digit(10)`: ASCII digits only -/
def char.to_digit10 (c : Char) : Option UInt32 := if c.isDigit then Option.some (c.toNat - 48).toUInt32 else Option.none
/-- `Display` of the integer types: decimal, `-` for negative values -/
def i32.display (x : Int32) : List Char := (toString x.toInt).toList
def usize.display (x : UInt64) : List Char := (toString x.toNat).toList
def u8.display (x : UInt8) : List Char := (toString x.toNat).toList
def u32.display (x : UInt32) : List Char := (toString x.toNat).toList
/-- `str::parse::<usize>()` (`usize::from_str`): an optional leading `+`, then at least one ASCII digit, nothing else;
a value `≥ 2^64` is `Err` (PosOverflow) -/
def str.parse_usize (s : List Char) : TRes UInt64 :=
  let digits := match s with
    | '+' :: r => r
    | _ => s
  if digits.isEmpty then .err else
  match digits.foldl (fun (acc : Option Nat) c => match acc with
      | Option.none => Option.none
      | Option.some v =>
        if c.isDigit then
          let v' := v * 10 + (c.toNat - 48)
          if v' < 2 ^ 64 then Option.some v' else Option.none
        else Option.none) (Option.some 0) with
  | Option.some v => .ok v.toUInt64
  | Option.none => .err

/-! the `regex` crate is a SEAM: `Regex::new(p)` is the pattern text, `re.captures(text)` is the parameter `rx` of the
translated function (pattern → text → capture groups); `&groups[i]` panics when group `i` did not participate.
The semantics of the pattern is formalised in `Wee/Spec/Regex.lean` + `Wee/Props/FenRegex.lean`. -/
abbrev RegexGroups := Nat → Option (List Char)
abbrev RegexCaptures := List Char → List Char → Option RegexGroups
def Captures.index (g : RegexGroups) (i : Nat) : Panics (List Char) := g i
def Regex.new (p : List Char) : TRes (List Char) := .ok p
'''


def main():
    ap = argparse.ArgumentParser()
    ap.add_argument("--repo", default=os.environ.get("WEE_REPO", "/repo"))
    ap.add_argument("--out", default=DEFAULT_OUT)
    ap.add_argument("--check", action="store_true", help="do not write; exit 1 if the file would change")
    a = ap.parse_args()
    try:
        text = Text(a.repo).run()
    except TieBroken as ex:
        msg = str(ex)
        print(f"TIE-BROKEN rs2lean_text: {msg}")
        sys.exit(2)
    old = None
    if os.path.exists(a.out):
        with open(a.out) as f:
            old = f.read()
    changed = old != text
    if a.check:
        print('{"changed": %s}' % ("true" if changed else "false"))
        sys.exit(1 if changed else 0)
    if changed:
        os.makedirs(os.path.dirname(a.out), exist_ok=True)
        with open(a.out, "w") as f:
            f.write(text)
    print('{"changed": [%s]}' % ('"TextFns.lean"' if changed else ""))


if __name__ == "__main__":
    main()
