#!/usr/bin/env python3
"""Tie (a) for FUNCTIONS: regenerate Lean DEFINITIONS from the Rust source text of the simple,
straight-line, bit-level functions (packed moves and the small helpers they call).

    python3 tools/rs2lean.py [--repo DIR] [--out FILE] [--check]

Reads the Rust sources below `--repo` (default $WEE_REPO or /repo), translates exactly the items of the
table `CONTAINERS` (file, module/impl path, function names) and writes `lean/Wee/Gen/MoveFns.lean` (namespace
`Wee.GenFns`) -- only when the content changed, so an untouched tree triggers no Lean rebuild.  Anything outside the supported subset
fails CLOSED:  `TIE-BROKEN rs2lean: <reason>` on stdout and exit status 2.

What is generated is compared with the hand-written model by *theorems* (`Wee/Proofs/MoveFnsBridge.lean`),
so an edit of a translated function either leaves the bridge proofs intact (harmless) or breaks them.

======================================================================================================
TRUSTED PART 1 -- semantics given to the Rust subset
------------------------------------------------------------------------------------------------------
 Rust                                 Lean
 u8 u32 i8 i32 usize bool             UInt8 UInt32 Int8 Int32 UInt64 (64-bit target) Bool
 struct T(U) (tuple newtype)          `abbrev T := U`;  `x.0` = x ; `T(e)` = e        (representation only)
 type BitSet = u32                    `abbrev BitSet := UInt32`
 Option<T>, Result<T, E>              `Option T`  (Ok = some, Err(_) = none; the error payload is dropped)
 &T, &mut T, *x, &x, &mut x           values; a `&mut` parameter (or `&mut self`) of a function that returns
                                      `()` becomes the RETURNED value; a call `f(place, ..)` / `place.m(..)`
                                      rebinds `place` (a local, `self`, or `local.0`)
 let / let mut / shadowing            `let x : T := e` (Lean shadowing)
 *p |= e  *p &= e  *p ^= e  p = e     rebinding `let p := p ||| e` ...
 & | ^ ! on integers                  &&& ||| ^^^ ~~~
 a << b, a >> b                       `a <<< b'`, `a >>> b'` (b' = b converted to the width of a).  The amount
                                      must be a literal / named constant / parameter whose every call site passes
                                      a literal or named constant, and be < bit width (checked here by evaluation;
                                      then debug and release profile agree and Lean's `mod width` is not reached)
 a / k, a % k  (k literal != 0, unsigned)  / %
 a + b, a - b, a * b, -a, .abs()      CHECKED (`UInt8.checked_add` ...): overflow = panic, as in the debug profile;
                                      plain `+ - *` only when both operands are constants and the tool has evaluated
                                      the result to be in range ("by literal inspection", e.g. `ONE_PAWN.0 * -100`)
 a + b, a * b on a newtype            the translated `impl Add<..>/Sub<..>/Mul<..> for T` function (`T.add_U` ...)
 (a, b), p.0, p.1  (pairs only)       `(a, b)`, `Prod.fst p`, `Prod.snd p`
 struct Offset { file, rank }         Lean `structure Offset` (prelude; declaration checked textually); `o.file`
 debug_assert!(c)                     panic if `c` is false, as in the debug profile
                                      (a result `some v` therefore means: no profile panics and both compute v)
 e as T                               `UIntN.toUIntM`, `UInt8.toInt8`, `Int8.toUInt8` ... (wrapping / truncating)
 == != < <= > >=                      `==` `!=` `decide (a < b)` ...        (Bool); ordering only on integers and on
                                      newtypes whose derive(PartialOrd, Ord) is checked textually (`Evaluation`)
 && || ! on bool                      && || !  ; short circuit kept when the right operand can panic
 if c { a } else { b }                `if c then a else b`
 x.unwrap()                           panic when `x` is none
 .is_some() .is_none() .unwrap_or(d)  Option.isSome Option.isNone Option.getD   (`d` evaluated eagerly, as in Rust)
 .map(|p| e)                          Option.map (fun p => e)       (closure body must not panic)
 Some(e) None Ok(e) Err(e)            Option.some e, Option.none, Option.some e, Option.none
 functions that can panic             return `Panics T` (= `Option T`, none = panic), written in `do` notation;
                                      evaluation order of Rust (receiver, arguments left to right) is kept

TRUSTED PART 2 -- primitive mappings (things NOT translated but mapped to the model's vocabulary).  The
Rust declarations they rest on are CHECKED textually by this tool (enum variants + discriminants, derives,
newtype declarations); a change there is a broken tie.
------------------------------------------------------------------------------------------------------
 enum Piece {None=0..King=6}          `Wee.Piece` (none pawn knight bishop rook queen king)
 enum Color {White, Black}            `Wee.Color` (white black)        enum Side {King, Queen}  `Wee.Side`
 Piece::try_from_primitive(x: u8)     `Piece.ofCode? x.toNat`          (num_enum derive TryFromPrimitive)
 u8::from(p: Piece), p.into(): u8     `(Piece.code p).toUInt8`         (num_enum derive IntoPrimitive)
 Color::try_from_primitive(x: u8)     `Color.try_from_primitive` : 0 -> white, 1 -> black, else none
 i32::max(a, b)                       `i32_max a b` = if a <= b then b else a
 u8::from(c: Color)                   `(Color.idx c).toUInt8`
 common::KING_ORIGINS[c]              `(Gen.kingOrigins[c.idx]!).toUInt8`       (constants extracted by extract.py)
 common::CASTLE_DESTS[c][s]           `(Gen.castleDests[c.idx]![s.idx]!).toUInt8`
 ==, != on enums / Option<enum>       derive(PartialEq) = structural equality
======================================================================================================
"""
import argparse
import os
import re
import sys

VERIF = os.path.dirname(os.path.dirname(os.path.abspath(__file__)))
DEFAULT_OUT = os.path.join(VERIF, "lean", "Wee", "Gen", "MoveFns.lean")

# ----------------------------------------------------------------------------------------------------
# TABLES: what is translated
# ----------------------------------------------------------------------------------------------------
MOVES = "weechess-core/src/moves.rs"
PIECE = "weechess-core/src/piece.rs"
COLOR = "weechess-core/src/color.rs"
BOARD = "weechess-core/src/board.rs"
EVAL = "weechess-engine/src/eval/mod.rs"

# textual facts that the primitive mappings / newtype representations rest on: (file, regex, what)
DECLS = [
    (MOVES, r"pub struct Move\(compact::BitSet\);", "struct Move(compact::BitSet)"),
    (MOVES, r"#\[derive\(([^)]*\bPartialEq\b[^)]*)\)\]\s*pub struct Move\(", "derive(PartialEq) on Move"),
    (MOVES, r"(?<!pub )mod compact \{", "private mod compact"),
    (MOVES, r"pub type BitSet = u32;", "type BitSet = u32"),
    (PIECE, r"#\[repr\(u8\)\]\s*#\[derive\(IntoPrimitive, TryFromPrimitive,[^)]*\bPartialEq\b[^)]*\)\]\s*pub enum Piece \{\s*"
            r"None = 0,\s*Pawn = 1,\s*Knight = 2,\s*Bishop = 3,\s*Rook = 4,\s*Queen = 5,\s*King = 6,\s*\}",
     "enum Piece (repr u8, num_enum derives, discriminants 0..6)"),
    (PIECE, r"pub struct PieceIndex\(pub u8\);", "struct PieceIndex(pub u8)"),
    (COLOR, r"#\[repr\(u8\)\]\s*#\[derive\(IntoPrimitive, TryFromPrimitive,[^)]*\bPartialEq\b[^)]*\)\]\s*pub enum Color \{\s*"
            r"White,\s*Black,\s*\}", "enum Color (repr u8, num_enum derives, White, Black)"),
    (BOARD, r"#\[derive\([^)]*\bPartialEq\b[^)]*\)\]\s*pub enum Side \{\s*King,\s*Queen,\s*\}", "enum Side {King, Queen}"),
    (BOARD, r"pub struct Square\(u8\);", "struct Square(u8)"),
    (BOARD, r"pub struct Rank\(u8\);", "struct Rank(u8)"),
    (BOARD, r"pub struct File\(u8\);", "struct File(u8)"),
    (EVAL, r"#\[derive\(Debug, Clone, Copy, PartialEq, PartialOrd, Eq, Ord\)\]\s*pub struct Evaluation\(i32\);",
     "struct Evaluation(i32) with derive(PartialEq, PartialOrd, Eq, Ord)"),
    (BOARD, r"pub struct Offset \{\s*pub file: i8,\s*pub rank: i8,\s*\}", "struct Offset { file: i8, rank: i8 }"),
]

# newtypes (transparent) and aliases
NEWTYPES = {"Move": "BitSet", "Square": "u8", "Rank": "u8", "File": "u8", "PieceIndex": "u8", "Evaluation": "i32"}
ORD_NEWTYPES = {"Evaluation"}      # newtypes with derive(PartialOrd, Ord): `<`, `<=` ... compare the field
ALIASES = {"BitSet": "u32"}
STRUCTS = {"Offset": [("file", "i8"), ("rank", "i8")]}      # structs with named fields: Lean structures (prelude)
ENUMS = {
    "Piece": {"None": "Piece.none", "Pawn": "Piece.pawn", "Knight": "Piece.knight", "Bishop": "Piece.bishop",
              "Rook": "Piece.rook", "Queen": "Piece.queen", "King": "Piece.king"},
    "Color": {"White": "Color.white", "Black": "Color.black"},
    "Side": {"King": "Side.king", "Queen": "Side.queen"},
}

# THE TABLE: (file, module/impl path, function names).  Each entry: `file`, `path` = header token sequences leading to
# the block, `self` = the Self type, `ns` = Lean namespace, `mod` = module whose free functions / constants are in
# scope, `fns` = exactly the functions translated; `complete` = any OTHER `fn` in the block is a broken tie unless it
# is named in `skip` (with the reason); `consts` = also translate the `const` items; `trait` = (method, type argument).
BITSET_FNS = ["piece", "set_piece", "origin", "set_origin", "dest", "set_dest", "capture", "set_capture", "promotion",
              "set_promotion", "en_passant", "set_en_passant", "double_pawn", "set_double_pawn", "castle_queenside",
              "set_castle_queenside", "castle_kingside", "set_castle_kingside", "color", "set_color"]
MOVE_FNS = ["by_moving", "by_capturing", "by_promoting", "by_capture_promoting", "by_en_passant", "by_castling",
            "origin", "destination", "is_capture", "is_promotion", "is_en_passant", "is_double_pawn", "is_any_castle",
            "is_castle", "castle_side", "color", "piece", "capture", "promotion", "resulting_piece",
            "is_simple_non_capture", "as_raw"]
CONTAINERS = [
    dict(file=BOARD, path=[["impl", "Square"]], self="Square", ns="Square", mod=None, complete=False,
         fns=["file", "rank", "offset", "flip_rank", "white_at_bottom_index", "manhattan_distance_to"]),
    dict(file=BOARD, path=[["impl", "Rank"]], self="Rank", ns="Rank", mod=None, complete=False,
         fns=["abs_distance_to", "opposing_rank"]),
    dict(file=BOARD, path=[["impl", "From", "<", "(", "Rank", ",", "File", ")", ">", "for", "Square"]], self="Square",
         ns="Square", mod=None, complete=True, fns=["from"], trait=("from", ("tuple", ("Rank", "File")))),
    dict(file=BOARD, path=[["impl", "From", "<", "(", "File", ",", "Rank", ")", ">", "for", "Square"]], self="Square",
         ns="Square", mod=None, complete=True, fns=["from"], trait=("from", ("tuple", ("File", "Rank")))),
    dict(file=BOARD, path=[["impl", "File"]], self="File", ns="File", mod=None, complete=False,
         fns=["abs_distance_to"]),
    dict(file=BOARD, path=[["impl", "Into", "<", "u8", ">", "for", "Square"]], self="Square", ns="Square",
         mod=None, complete=True, fns=["into"], trait=("into", "u8")),
    dict(file=BOARD, path=[["impl", "TryFrom", "<", "u8", ">", "for", "Square"]], self="Square", ns="Square",
         mod=None, complete=True, fns=["try_from"], trait=("try_from", "u8")),
    dict(file=PIECE, path=[["impl", "TryFrom", "<", "PieceIndex", ">", "for", "Piece"]], self="Piece", ns="Piece",
         mod=None, complete=True, fns=["try_from"], trait=("try_from", "PieceIndex")),
    dict(file=COLOR, path=[["impl", "TryFrom", "<", "PieceIndex", ">", "for", "Color"]], self="Color", ns="Color",
         mod=None, complete=True, fns=["try_from"], trait=("try_from", "PieceIndex")),
    dict(file=PIECE, path=[["impl", "PieceIndex"]], self="PieceIndex", ns="PieceIndex", mod=None, complete=False,
         fns=["new", "color", "piece"]),
    dict(file=MOVES, path=[["mod", "compact"]], self=None, ns="compact", mod="compact", complete=True, consts=True,
         fns=["store", "load", "bit", "set_bit"]),
    dict(file=MOVES, path=[["mod", "compact"], ["impl", "BitSetExt", "for", "BitSet"]], self="BitSet", ns="BitSetExt",
         mod="compact", complete=True, fns=BITSET_FNS),
    dict(file=MOVES, path=[["impl", "Move"]], self="Move", ns="Move", mod=None, complete=True, consts=True,
         fns=MOVE_FNS, skip={"from_raw": "verification hook (cfg(weechess_verif)), `Self(raw)`"}),
    dict(file=EVAL, path=[["impl", "Add", "<", "Evaluation", ">", "for", "Evaluation"]], self="Evaluation",
         ns="Evaluation", mod=None, complete=True, fns=["add"], trait=("add", "Evaluation")),
    dict(file=EVAL, path=[["impl", "Mul", "<", "i32", ">", "for", "Evaluation"]], self="Evaluation",
         ns="Evaluation", mod=None, complete=True, fns=["mul"], trait=("mul", "i32")),
    dict(file=EVAL, path=[["impl", "Evaluation"]], self="Evaluation", ns="Evaluation", mod=None, complete=False,
         consts=True, fns=["mate_in_ply", "is_terminal"]),
]

LEAN_KEYWORDS = {"from", "at", "end", "open", "then", "else", "do", "fun", "show", "have", "by", "in", "if", "let",
                 "match", "with", "where", "def", "theorem", "instance", "structure", "class", "namespace", "section",
                 "import", "export", "private", "protected", "partial", "mutual", "deriving", "extends", "Type",
                 "Prop", "Sort", "forall", "exists", "using", "calc", "return", "for", "unless", "try", "catch",
                 "finally", "macro", "syntax", "notation", "infix", "prefix", "postfix", "local", "scoped", "mut",
                 "abbrev", "example", "inductive", "axiom", "universe", "variable", "set_option", "attribute",
                 "nomatch", "nofun", "suffices", "obtain", "true", "false", "some", "none", "pure", "bind", "id"}

INT_TYPES = {"u8": ("UInt8", 8, False), "u32": ("UInt32", 32, False), "usize": ("UInt64", 64, False),
             "i8": ("Int8", 8, True), "i32": ("Int32", 32, True)}


class TieBroken(Exception):
    pass


def fail(msg):
    raise TieBroken(msg)


# ----------------------------------------------------------------------------------------------------
# lexer
# ----------------------------------------------------------------------------------------------------
TOK = re.compile(r"""
  (?P<ws>\s+)
 |(?P<lc>//[^\n]*)
 |(?P<bc>/\*.*?\*/)
 |(?P<rstr>r\#*"(?:.|\n)*?"\#*)
 |(?P<str>b?"(?:\\.|[^"\\])*")
 |(?P<chr>b?'(?:\\[^'][^']*|[^\\'])')
 |(?P<life>'[A-Za-z_]\w*)
 |(?P<int>(?:0x[0-9a-fA-F_]+|0b[01_]+|\d[\d_]*)(?:u8|u16|u32|u64|usize|i8|i16|i32|i64|isize)?(?![A-Za-z0-9_]))
 |(?P<id>[A-Za-z_]\w*)
 |(?P<op><<=|>>=|\.\.=|\.\.\.|<<|>>|==|!=|<=|>=|&&|\|\||\|=|&=|\^=|\+=|-=|\*=|/=|%=|->|=>|::|\.\.|[-+*/%&|^!<>=.,;:(){}\[\]\#?@$~])
""", re.X | re.S)


class Tok:
    __slots__ = ("k", "s", "line")

    def __init__(self, k, s, line):
        self.k, self.s, self.line = k, s, line

    def __repr__(self):
        return f"{self.s!r}@{self.line}"


def lex(text, fname):
    out, i, line = [], 0, 1
    n = len(text)
    while i < n:
        m = TOK.match(text, i)
        if not m:
            fail(f"{fname}:{line}: cannot lex {text[i:i+20]!r}")
        k = m.lastgroup
        s = m.group(0)
        if k not in ("ws", "lc", "bc"):
            out.append(Tok(k, s, line))
        line += s.count("\n")
        i = m.end()
    return out


# ----------------------------------------------------------------------------------------------------
# item finder (works on the token list)
# ----------------------------------------------------------------------------------------------------
def match_close(toks, i, open_s, close_s):
    """toks[i] is `open_s`; return index of the matching close"""
    depth = 0
    j = i
    while j < len(toks):
        if toks[j].s == open_s:
            depth += 1
        elif toks[j].s == close_s:
            depth -= 1
            if depth == 0:
                return j
        j += 1
    fail(f"unbalanced {open_s} at line {toks[i].line}")


def find_container(toks, lo, hi, header, fname):
    hits = []
    i = lo
    while i < hi:
        t = toks[i]
        if t.s == "{":
            i = match_close(toks, i, "{", "}") + 1
            continue
        if [x.s for x in toks[i:i + len(header)]] == header and i + len(header) < hi and toks[i + len(header)].s == "{":
            o = i + len(header)
            c = match_close(toks, o, "{", "}")
            hits.append((o + 1, c))
            i = c + 1
            continue
        i += 1
    if len(hits) != 1:
        fail(f"{fname}: expected exactly one `{' '.join(header)} {{`, found {len(hits)}")
    return hits[0]


class RawFn:
    def __init__(self, name, attrs, sig, body, line, span):
        self.name, self.attrs, self.sig, self.body, self.line, self.span = name, attrs, sig, body, line, span


def scan_items(toks, lo, hi, fname):
    """fns and consts declared directly in toks[lo:hi]"""
    fns, consts = [], []
    attrs = []
    i = lo
    while i < hi:
        t = toks[i]
        if t.s == "#" and i + 1 < hi and toks[i + 1].s == "[":
            c = match_close(toks, i + 1, "[", "]")
            attrs.append(" ".join(x.s for x in toks[i + 2:c]))
            i = c + 1
            continue
        if t.s == "fn":
            name = toks[i + 1].s
            p = i + 2
            if toks[p].s != "(":
                fail(f"{fname}:{t.line}: generic fn `{name}` not supported")
            pc = match_close(toks, p, "(", ")")
            j = pc + 1
            while toks[j].s not in ("{", ";"):
                j += 1
            if toks[j].s == ";":
                i = j + 1
                attrs = []
                continue
            bc = match_close(toks, j, "{", "}")
            fns.append(RawFn(name, attrs, toks[p:j], toks[j:bc + 1], t.line, (j, bc)))
            attrs = []
            i = bc + 1
            continue
        if t.s == "const" and toks[i + 1].k == "id" and toks[i + 2].s == ":":
            j = i
            while toks[j].s != ";":
                if toks[j].s in ("{", "(", "["):
                    j = match_close(toks, j, toks[j].s, {"{": "}", "(": ")", "[": "]"}[toks[j].s])
                j += 1
            consts.append((toks[i + 1].s, toks[i + 3:j], t.line, attrs))
            attrs = []
            i = j + 1
            continue
        if t.s == "{":
            i = match_close(toks, i, "{", "}") + 1
            attrs = []
            continue
        if t.s == ";":
            attrs = []
        i += 1
    return fns, consts


# ----------------------------------------------------------------------------------------------------
# AST + parser
# ----------------------------------------------------------------------------------------------------
class N:
    def __init__(self, k, line, **kw):
        self.k = k
        self.line = line
        self.ty = None
        self.__dict__.update(kw)

    def __repr__(self):
        return f"N({self.k}, {', '.join(f'{a}={v!r}' for a, v in self.__dict__.items() if a not in ('k', 'line', 'ty'))})"


ASSIGN_OPS = {"=", "|=", "&=", "^=", "+=", "-=", "*=", "/=", "%=", "<<=", ">>="}
BINPREC = [  # low -> high
    ["||"], ["&&"], ["==", "!=", "<", ">", "<=", ">="], ["|"], ["^"], ["&"], ["<<", ">>"], ["+", "-"], ["*", "/", "%"],
]


class Parser:
    def __init__(self, toks, fname, self_ty):
        self.t, self.i, self.fname, self.self_ty = toks, 0, fname, self_ty

    def peek(self, o=0):
        return self.t[self.i + o].s if self.i + o < len(self.t) else None

    def tok(self):
        return self.t[self.i]

    def line(self):
        return self.t[min(self.i, len(self.t) - 1)].line

    def err(self, msg):
        fail(f"{self.fname}:{self.line()}: {msg}")

    def eat(self, s=None):
        if self.i >= len(self.t):
            self.err(f"unexpected end, wanted {s}")
        t = self.t[self.i]
        if s is not None and t.s != s:
            self.err(f"expected `{s}`, found `{t.s}`")
        self.i += 1
        return t

    # ---- types
    def ty(self):
        s = self.peek()
        if s == "&":
            self.eat()
            if self.peek() == "mut":
                self.eat()
                return ("refmut", self.ty())
            if self.tok().k == "life":
                self.eat()
            return ("ref", self.ty())
        if s == "(":
            self.eat()
            items = []
            while self.peek() != ")":
                items.append(self.ty())
                if self.peek() == ",":
                    self.eat()
            self.eat(")")
            if not items:
                return "unit"
            return ("tuple", tuple(items))
        if self.tok().k != "id":
            self.err(f"type expected, found `{s}`")
        segs = [self.eat().s]
        while self.peek() == "::":
            self.eat()
            segs.append(self.eat().s)
        args = []
        if self.peek() == "<":
            self.eat()
            while True:
                args.append(self.ty())
                if self.peek() == ",":
                    self.eat()
                    continue
                break
            if self.peek() == ">>":      # split `>>`
                self.t[self.i] = Tok("op", ">", self.tok().line)
            else:
                self.eat(">")
        name = segs[-1]
        if segs == ["Self", "Error"]:
            return "error"
        if segs == ["Self", "Output"]:
            if self.self_ty is None:
                self.err("`Self` outside an impl")
            return self.self_ty
        if name == "Self":
            if self.self_ty is None:
                self.err("`Self` outside an impl")
            return self.self_ty
        if name == "Option":
            return ("Option", args[0])
        if name == "Result":
            return ("Option", args[0])          # Result<T, E> ~ Option T
        if args:
            self.err(f"generic type `{name}<..>` not supported")
        return name

    # ---- signature:  ( params ) [-> ty]
    def signature(self):
        self.eat("(")
        params = []
        while self.peek() != ")":
            mode = "val"
            if self.peek() == "&":
                self.eat()
                mode = "ref"
                if self.peek() == "mut":
                    self.eat()
                    mode = "refmut"
                self.eat("self")
                params.append(("self", self.self_ty, mode))
            elif self.peek() == "self":
                self.eat()
                params.append(("self", self.self_ty, "val"))
            else:
                if self.peek() == "mut":
                    self.eat()
                name = self.eat().s
                self.eat(":")
                t = self.ty()
                if isinstance(t, tuple) and t[0] in ("ref", "refmut"):
                    mode, t = t[0], t[1]
                params.append((name, t, mode))
            if self.peek() == ",":
                self.eat()
        self.eat(")")
        ret = "unit"
        if self.peek() == "->":
            self.eat()
            ret = self.ty()
        if self.i != len(self.t):
            self.err(f"unsupported signature tail `{self.peek()}`")
        return params, ret

    # ---- blocks / statements
    def block(self):
        ln = self.line()
        self.eat("{")
        stmts, tail = [], None
        while self.peek() != "}":
            s = self.peek()
            if s == "let":
                self.eat()
                mut = False
                if self.peek() == "mut":
                    self.eat()
                    mut = True
                if self.tok().k != "id":
                    self.err("only `let <ident>` patterns are supported")
                name = self.eat().s
                ann = None
                if self.peek() == ":":
                    self.eat()
                    ann = self.ty()
                self.eat("=")
                init = self.expr()
                self.eat(";")
                stmts.append(N("let", ln, name=name, mut=mut, ann=ann, init=init))
                continue
            if s in ("return", "while", "for", "loop", "match", "break", "continue", "unsafe"):
                self.err(f"`{s}` is outside the supported subset")
            if s == "debug_assert" and self.peek(1) == "!":
                l2 = self.line()
                self.eat()
                self.eat("!")
                self.eat("(")
                c = self.expr()
                self.eat(")")
                self.eat(";")
                stmts.append(N("dassert", l2, cond=c))
                continue
            if self.tok().k == "id" and self.peek(1) == "!":
                self.err(f"macro `{s}!` is outside the supported subset")
            l2 = self.line()
            e = self.expr(stmt=True)
            if self.peek() in ASSIGN_OPS:
                op = self.eat().s
                rhs = self.expr()
                self.eat(";")
                stmts.append(N("assign", l2, place=e, op=op, rhs=rhs))
            elif self.peek() == ";":
                self.eat()
                stmts.append(N("exprstmt", l2, e=e))
            elif e.k == "if" and self.peek() != "}":
                stmts.append(N("exprstmt", l2, e=e))
            else:
                tail = e
                if self.peek() != "}":
                    self.err(f"expected `;` or `}}`, found `{self.peek()}`")
        self.eat("}")
        return N("block", ln, stmts=stmts, tail=tail)

    # ---- expressions
    def expr(self, stmt=False, level=0):
        if level == len(BINPREC):
            return self.cast()
        lhs = self.expr(level=level + 1)
        while self.peek() in BINPREC[level]:
            # `a < b` vs generic: not an issue in expression position
            ln = self.line()
            op = self.eat().s
            rhs = self.expr(level=level + 1)
            if level == 2 and self.peek() in BINPREC[2]:
                self.err("chained comparison")
            lhs = N("bin", ln, op=op, l=lhs, r=rhs)
        return lhs

    def cast(self):
        e = self.unary()
        while self.peek() == "as":
            ln = self.line()
            self.eat()
            e = N("cast", ln, e=e, to=self.ty())
        return e

    def unary(self):
        s = self.peek()
        ln = self.line()
        if s in ("!", "-", "*"):
            self.eat()
            return N("un", ln, op=s, e=self.unary())
        if s == "&":
            self.eat()
            if self.peek() == "mut":
                self.eat()
            return N("un", ln, op="&", e=self.unary())
        if s == "&&":
            self.err("`&&` reference")
        return self.postfix()

    def args(self):
        self.eat("(")
        out = []
        while self.peek() != ")":
            out.append(self.expr())
            if self.peek() == ",":
                self.eat()
            elif self.peek() != ")":
                self.err(f"expected `,` or `)`, found `{self.peek()}`")
        self.eat(")")
        return out

    def postfix(self):
        e = self.primary()
        while True:
            s = self.peek()
            ln = self.line()
            if s == ".":
                self.eat()
                t = self.eat()
                if t.k == "int":
                    e = N("field", ln, e=e, name=t.s)
                elif t.k == "id":
                    if self.peek() == "(":
                        e = N("mcall", ln, recv=e, name=t.s, args=self.args())
                    elif self.peek() == "::":
                        self.err("turbofish")
                    else:
                        e = N("field", ln, e=e, name=t.s)
                else:
                    self.err(f"unexpected `{t.s}` after `.`")
            elif s == "(":
                if e.k != "path":
                    self.err("call of a non-path expression")
                e = N("call", ln, fn=e.segs, args=self.args())
            elif s == "[":
                self.eat()
                ix = self.expr()
                self.eat("]")
                e = N("index", ln, e=e, ix=ix)
            elif s == "?":
                self.err("`?` operator is outside the supported subset")
            else:
                return e

    def primary(self):
        t = self.tok()
        ln = t.line
        if t.k == "int":
            self.eat()
            m = re.match(r"(0x[0-9a-fA-F_]+|0b[01_]+|\d[\d_]*)(\w*)$", t.s)
            body, suf = m.group(1).replace("_", ""), m.group(2)
            return N("lit", ln, v=int(body, 0), text=body, suf=suf or None)
        if t.s == "(":
            self.eat()
            if self.peek() == ")":
                self.eat()
                return N("unitv", ln)
            e = self.expr()
            if self.peek() == ",":
                items = [e]
                while self.peek() == ",":
                    self.eat()
                    if self.peek() == ")":
                        break
                    items.append(self.expr())
                self.eat(")")
                if len(items) != 2:
                    self.err("only pairs are supported")
                return N("tuple", ln, items=items)
            self.eat(")")
            return N("paren", ln, e=e)
        if t.s == "if":
            self.eat()
            if self.peek() == "let":
                self.err("`if let` is outside the supported subset")
            c = self.expr()
            th = self.block()
            el = None
            if self.peek() == "else":
                self.eat()
                if self.peek() == "if":
                    l3 = self.line()
                    inner = self.primary()
                    el = N("block", l3, stmts=[], tail=inner)
                else:
                    el = self.block()
            return N("if", ln, c=c, th=th, el=el)
        if t.s == "|":
            self.eat()
            ps = []
            while self.peek() != "|":
                ps.append(self.eat().s)
                if self.peek() == ",":
                    self.eat()
            self.eat("|")
            return N("closure", ln, params=ps, body=self.expr())
        if t.s == "{":
            self.err("block expressions are outside the supported subset")
        if t.s in ("true", "false"):
            self.eat()
            return N("boollit", ln, v=(t.s == "true"))
        if t.k == "id":
            if t.s in ("match", "while", "for", "loop", "return", "unsafe", "move"):
                self.err(f"`{t.s}` is outside the supported subset")
            segs = [self.eat().s]
            while self.peek() == "::":
                self.eat()
                if self.peek() == "<":
                    self.err("turbofish / qualified path")
                segs.append(self.eat().s)
            return N("path", ln, segs=segs)
        self.err(f"unexpected token `{t.s}`")


# ----------------------------------------------------------------------------------------------------
# types
# ----------------------------------------------------------------------------------------------------
class TVar:
    n = 0

    def __init__(self, intonly=False):
        TVar.n += 1
        self.id = TVar.n
        self.ref = None
        self.intonly = intonly

    def __repr__(self):
        return f"?{'i' if self.intonly else 't'}{self.id}"


def prune(t):
    while isinstance(t, TVar) and t.ref is not None:
        t = t.ref
    if isinstance(t, tuple):
        if t[0] in ("ref", "refmut"):
            return prune(t[1])
        if t[0] == "Option":
            return ("Option", prune(t[1]))
        if t[0] == "tuple":
            return ("tuple", tuple(prune(x) for x in t[1]))
    if isinstance(t, str):
        return ALIASES.get(t, t)
    return t


def under(t):
    return prune(NEWTYPES[t])


def show_ty(t):
    t = prune(t)
    if isinstance(t, tuple):
        if t[0] == "tuple":
            return "(" + ", ".join(show_ty(x) for x in t[1]) + ")"
        return f"Option<{show_ty(t[1])}>"
    return str(t)


def has_tvar(t):
    t = prune(t)
    if isinstance(t, TVar):
        return True
    if isinstance(t, tuple):
        if t[0] == "tuple":
            return any(has_tvar(x) for x in t[1])
        return has_tvar(t[1])
    return False


def ty_suffix(t):
    t = prune(t)
    if isinstance(t, tuple) and t[0] == "tuple":
        return "_".join(ty_suffix(x) for x in t[1])
    if isinstance(t, tuple):
        return "Option_" + ty_suffix(t[1])
    return str(t)


def lean_ty(t, atom=False):
    t = prune(t)
    if isinstance(t, TVar):
        fail("internal: unresolved type variable at emission")
    if isinstance(t, tuple):
        if t[0] == "Option":
            s = f"Option {lean_ty(t[1], True)}"
            return f"({s})" if atom else s
        if t[0] == "tuple" and len(t[1]) == 2:
            return f"({lean_ty(t[1][0], True)} × {lean_ty(t[1][1], True)})"
        fail(f"type {show_ty(t)} not supported")
    if t in INT_TYPES:
        return INT_TYPES[t][0]
    if t == "bool":
        return "Bool"
    if t == "unit":
        return "Unit"
    if t in NEWTYPES or t in ENUMS or t in STRUCTS:
        return t
    fail(f"type `{t}` is outside the supported subset")


def mangle(name):
    return name + "_" if name in LEAN_KEYWORDS or re.fullmatch(r"tmp\d+", name) else name


# ----------------------------------------------------------------------------------------------------
# registry of translated functions / constants
# ----------------------------------------------------------------------------------------------------
class Fn:
    def __init__(self, raw, cont, params, ret, body, lean):
        self.name, self.cont, self.params, self.ret, self.body, self.lean = raw.name, cont, params, ret, body, lean
        self.file, self.line = cont["file"], raw.line
        self.mod, self.self_ty = cont["mod"], cont["self"]
        muts = [p for p in params if p[2] == "refmut"]
        if len(muts) > 1:
            fail(f"{self.file}: fn {raw.name}: more than one `&mut` parameter")
        self.mutparam = muts[0][0] if muts else None
        if self.mutparam and prune(ret) != "unit":
            fail(f"{self.file}: fn {raw.name}: `&mut` parameter together with a return value")
        self.callees = []
        self.may_panic = None
        def tidy(h):
            t = " ".join(h)
            for x, y in ((" <", "<"), ("< ", "<"), (" >", ">"), ("( ", "("), (" )", ")"), (" ,", ",")):
                t = t.replace(x, y)
            return t
        self.rust_path = " / ".join(tidy(h) for h in cont["path"]) + " :: " + raw.name

    def out_ty(self):
        if self.mutparam:
            return [p[1] for p in self.params if p[0] == self.mutparam][0]
        return self.ret


class Const:
    def __init__(self, name, lean, ty, expr, owner, file):
        self.name, self.lean, self.ty, self.expr, self.owner, self.file = name, lean, ty, expr, owner, file
        self.value = None


PRIMS = {
    # key -> (lean template, arg types, result type)        (TRUSTED PART 2 of the header)
    ("Piece", "try_from_primitive"): ("Piece.try_from_primitive {0}", ["u8"], ("Option", "Piece")),
    ("Color", "try_from_primitive"): ("Color.try_from_primitive {0}", ["u8"], ("Option", "Color")),
    ("u8", "from", "Piece"): ("Piece.into_u8 {0}", ["Piece"], "u8"),
    ("u8", "from", "Color"): ("Color.into_u8 {0}", ["Color"], "u8"),
    ("Piece", "into", "u8"): ("Piece.into_u8 {0}", ["Piece"], "u8"),
    ("Color", "into", "u8"): ("Color.into_u8 {0}", ["Color"], "u8"),
    ("i32", "max"): ("i32_max {0} {1}", ["i32", "i32"], "i32"),
    ("index", "KING_ORIGINS"): ("common.KING_ORIGINS {0}", ["Color"], "Square"),
    ("index", "CASTLE_DESTS"): ("common.CASTLE_DESTS {0} {1}", ["Color", "Side"], "Square"),
}

PRELUDE = r'''
/-! ## Prelude: the fixed vocabulary of the translation (see the tables at the top of `tools/rs2lean.py`) -/

/-- a computation that may panic; `none` = panic (`unwrap` on `None`/`Err`, arithmetic overflow or a failed
`debug_assert!` in the debug profile).  `some v` means: no profile panics, both compute `v`. -/
abbrev Panics (α : Type) := Option α
/-- `x.unwrap()` -/
@[reducible, inline] def unwrap {α : Type} (x : Option α) : Panics α := x
/-- `debug_assert!(c)` -/
@[inline] def debug_assert (c : Bool) : Panics Unit := if c then some () else none

/-! transparent newtypes: `struct T(U)` is its field -/
abbrev BitSet := UInt32
abbrev Move := BitSet
abbrev Square := UInt8
abbrev Rank := UInt8
abbrev File := UInt8
abbrev PieceIndex := UInt8
abbrev Evaluation := Int32
/-- `struct Offset { pub file: i8, pub rank: i8 }` -/
structure Offset where
  file : Int8
  rank : Int8
deriving DecidableEq

/-! checked arithmetic (debug profile: overflow panics) -/
def UInt8.checked_add (a b : UInt8) : Panics UInt8 := if a.toNat + b.toNat < 2 ^ 8 then some (a + b) else none
def UInt8.checked_sub (a b : UInt8) : Panics UInt8 := if b.toNat ≤ a.toNat then some (a - b) else none
def UInt8.checked_mul (a b : UInt8) : Panics UInt8 := if a.toNat * b.toNat < 2 ^ 8 then some (a * b) else none
def UInt32.checked_add (a b : UInt32) : Panics UInt32 := if a.toNat + b.toNat < 2 ^ 32 then some (a + b) else none
def UInt32.checked_sub (a b : UInt32) : Panics UInt32 := if b.toNat ≤ a.toNat then some (a - b) else none
def UInt32.checked_mul (a b : UInt32) : Panics UInt32 := if a.toNat * b.toNat < 2 ^ 32 then some (a * b) else none
def UInt64.checked_add (a b : UInt64) : Panics UInt64 := if a.toNat + b.toNat < 2 ^ 64 then some (a + b) else none
def UInt64.checked_sub (a b : UInt64) : Panics UInt64 := if b.toNat ≤ a.toNat then some (a - b) else none
def UInt64.checked_mul (a b : UInt64) : Panics UInt64 := if a.toNat * b.toNat < 2 ^ 64 then some (a * b) else none
def Int8.checked_add (a b : Int8) : Panics Int8 :=
  if -2 ^ 7 ≤ a.toInt + b.toInt ∧ a.toInt + b.toInt < 2 ^ 7 then some (a + b) else none
def Int8.checked_sub (a b : Int8) : Panics Int8 :=
  if -2 ^ 7 ≤ a.toInt - b.toInt ∧ a.toInt - b.toInt < 2 ^ 7 then some (a - b) else none
def Int8.checked_mul (a b : Int8) : Panics Int8 :=
  if -2 ^ 7 ≤ a.toInt * b.toInt ∧ a.toInt * b.toInt < 2 ^ 7 then some (a * b) else none
def Int8.checked_neg (a : Int8) : Panics Int8 := if a.toInt = -2 ^ 7 then none else some (-a)
def Int8.checked_abs (a : Int8) : Panics Int8 := if a.toInt = -2 ^ 7 then none else some a.abs
def Int32.checked_add (a b : Int32) : Panics Int32 :=
  if -2 ^ 31 ≤ a.toInt + b.toInt ∧ a.toInt + b.toInt < 2 ^ 31 then some (a + b) else none
def Int32.checked_sub (a b : Int32) : Panics Int32 :=
  if -2 ^ 31 ≤ a.toInt - b.toInt ∧ a.toInt - b.toInt < 2 ^ 31 then some (a - b) else none
def Int32.checked_mul (a b : Int32) : Panics Int32 :=
  if -2 ^ 31 ≤ a.toInt * b.toInt ∧ a.toInt * b.toInt < 2 ^ 31 then some (a * b) else none
def Int32.checked_neg (a : Int32) : Panics Int32 := if a.toInt = -2 ^ 31 then none else some (-a)
def Int32.checked_abs (a : Int32) : Panics Int32 := if a.toInt = -2 ^ 31 then none else some a.abs

/-! primitive mappings to the model's vocabulary (`Wee/Model/Types.lean`) -/
/-- `Piece::try_from_primitive` (num_enum) -/
def Piece.try_from_primitive (x : UInt8) : Option Piece := Piece.ofCode? x.toNat
/-- `u8::from(piece)` / `piece.into()` (num_enum) -/
def Piece.into_u8 (p : Piece) : UInt8 := (Piece.code p).toUInt8
/-- `Color::try_from_primitive` (num_enum; `White = 0`, `Black = 1`) -/
def Color.try_from_primitive (x : UInt8) : Option Color :=
  if x == 0 then some Color.white else if x == 1 then some Color.black else none
/-- `u8::from(color)` (num_enum) -/
def Color.into_u8 (c : Color) : UInt8 := (Color.idx c).toUInt8
/-- `i32::max(a, b)` (`Ord::max`) -/
def i32_max (a b : Int32) : Int32 := if a ≤ b then b else a
/-- `common::KING_ORIGINS[color]` (`ArrayMap` indexed by `color as usize`; constants via `tools/extract.py`) -/
def common.KING_ORIGINS (c : Color) : Square := (Gen.kingOrigins[Color.idx c]!).toUInt8
/-- `common::CASTLE_DESTS[color][side]` -/
def common.CASTLE_DESTS (c : Color) (s : Side) : Square := (Gen.castleDests[Color.idx c]![Side.idx s]!).toUInt8
'''


# ----------------------------------------------------------------------------------------------------
# the translator
# ----------------------------------------------------------------------------------------------------
OPTION_METHODS = {"is_some", "is_none", "unwrap", "unwrap_or", "map"}


def children(e):
    k = e.k
    if k in ("paren", "cast", "un", "field"):
        return [e.e]
    if k == "bin":
        return [e.l, e.r]
    if k == "call":
        return list(e.args)
    if k == "mcall":
        return [e.recv] + list(e.args)
    if k == "index":
        return [e.e, e.ix]
    if k == "tuple":
        return list(e.items)
    if k == "if":
        return [e.c, e.th] + ([e.el] if e.el else [])
    if k == "closure":
        return [e.body]
    if k == "block":
        return list(e.stmts) + ([e.tail] if e.tail else [])
    if k == "let":
        return [e.init]
    if k == "assign":
        return [e.place, e.rhs]
    if k == "exprstmt":
        return [e.e]
    if k == "dassert":
        return [e.cond]
    return []


def walk(e):
    yield e
    for c in children(e):
        yield from walk(c)


class Translator:
    def __init__(self, repo):
        self.repo = repo
        self.src = {}
        self.toks = {}
        self.fns = []
        self.methods = {}
        self.assoc = {}
        self.free = {}
        self.consts = {}
        self.const_list = []
        self.notes = []
        self.untranslated = []
        self.spans = {}      # file -> list of (lo, hi) token spans of translated fn bodies

    # ---- input
    def load(self, rel):
        if rel not in self.src:
            p = os.path.join(self.repo, rel)
            try:
                with open(p) as f:
                    self.src[rel] = f.read()
            except OSError as ex:
                fail(f"cannot read {rel}: {ex}")
            self.toks[rel] = lex(self.src[rel], rel)
        return self.toks[rel]

    def check_decls(self):
        for rel, pat, what in DECLS:
            self.load(rel)
            text = re.sub(r"//[^\n]*", "", self.src[rel])
            if len(re.findall(pat, text)) != 1:
                fail(f"{rel}: declaration `{what}` not found exactly once (a primitive mapping rests on it)")

    def collect(self):
        for cont in CONTAINERS:
            rel = cont["file"]
            toks = self.load(rel)
            lo, hi = 0, len(toks)
            for header in cont["path"]:
                lo, hi = find_container(toks, lo, hi, header, rel)
            raws, rconsts = scan_items(toks, lo, hi, rel)
            if cont.get("consts"):
                for name, etoks, line, attrs in rconsts:
                    colon_ty_end = None
                    # etoks = <type> = <expr>
                    for j, t in enumerate(etoks):
                        if t.s == "=":
                            colon_ty_end = j
                            break
                    if colon_ty_end is None:
                        fail(f"{rel}:{line}: const {name} without initialiser")
                    tp = Parser(etoks[:colon_ty_end], rel, cont["self"])
                    ty = tp.ty()
                    ep = Parser(etoks[colon_ty_end + 1:], rel, cont["self"])
                    ex = ep.expr()
                    if ep.i != len(ep.t):
                        fail(f"{rel}:{line}: const {name}: trailing tokens")
                    owner = cont["mod"] if cont["self"] is None else cont["self"]
                    c = Const(name, f"{cont['ns']}.{name}", ty, ex, owner, rel)
                    self.consts[(owner, name)] = c
                    self.const_list.append((c, cont))
            only = cont["fns"]
            skip = cont.get("skip", {})
            for raw in raws:
                if raw.name in skip:
                    self.notes.append(f"skipped {rel} {cont['ns']}::{raw.name}: {skip[raw.name]}")
                    continue
                if raw.name not in only:
                    if cont["complete"]:
                        fail(f"{rel}:{raw.line}: fn `{raw.name}` of `{' '.join(cont['path'][-1])}` is not in the table of "
                             f"translated functions (add it to the table and give it a bridge theorem, or to `skip`)")
                    self.untranslated.append(f"{cont['ns']}::{raw.name}")
                    continue
                if any(a.startswith("cfg") for a in raw.attrs):
                    fail(f"{rel}:{raw.line}: fn {raw.name} is cfg-gated; add it to the skip list or translate it explicitly")
                sp = Parser(raw.sig, rel, cont["self"])
                params, ret = sp.signature()
                bp = Parser(raw.body, rel, cont["self"])
                body = bp.block()
                if bp.i != len(bp.t):
                    fail(f"{rel}:{raw.line}: fn {raw.name}: trailing tokens")
                lean = f"{cont['ns']}.{raw.name}"
                if cont.get("trait"):
                    lean = f"{cont['ns']}.{raw.name}_{ty_suffix(cont['trait'][1])}"
                fn = Fn(raw, cont, params, ret, body, lean)
                self.fns.append(fn)
                self.spans.setdefault(rel, []).append(raw.span)
                st = prune(cont["self"]) if cont["self"] else None
                has_self = bool(params) and params[0][0] == "self"
                if cont.get("trait"):
                    tname, targ = cont["trait"]
                    if raw.name != tname:
                        fail(f"{rel}:{raw.line}: unexpected fn {raw.name} in trait impl")
                    if has_self:
                        self.methods[(st, raw.name, prune(targ))] = fn
                    else:
                        self.assoc[(st, raw.name, prune(targ))] = fn
                elif has_self:
                    self.methods[(st, raw.name)] = fn
                elif cont["self"]:
                    self.assoc[(st, raw.name)] = fn
                else:
                    self.free[(cont["mod"], raw.name)] = fn
            missing = [n for n in only if n not in [r.name for r in raws]]
            if missing:
                fail(f"{rel}: `{' '.join(cont['path'][-1])}`: function(s) {missing} of the table not found")
        names = [f.lean for f in self.fns]
        if len(set(names)) != len(names):
            fail("duplicate Lean names")

    # ---- unification
    def unify(self, a, b, e):
        a, b = prune(a), prune(b)
        if a is b or a == b:
            return
        if isinstance(a, TVar):
            if a.intonly and not (isinstance(b, TVar) or b in INT_TYPES):
                fail(f"{self.cur.file}:{e.line}: integer literal used at type {show_ty(b)}")
            if isinstance(b, TVar) and a.intonly and not b.intonly:
                b.ref = a
            else:
                a.ref = b
            return
        if isinstance(b, TVar):
            return self.unify(b, a, e)
        if isinstance(a, tuple) and isinstance(b, tuple) and a[0] == b[0] == "tuple" and len(a[1]) == len(b[1]):
            for x, y in zip(a[1], b[1]):
                self.unify(x, y, e)
            return
        if isinstance(a, tuple) and isinstance(b, tuple) and a[0] == b[0] and a[0] != "tuple":
            return self.unify(a[1], b[1], e)
        fail(f"{self.cur.file}:{e.line}: type mismatch {show_ty(a)} vs {show_ty(b)} (outside the supported subset?)")

    # ---- inference
    def infer(self, e, env, exp=None):
        t = self._infer(e, env, exp)
        if exp is not None:
            self.unify(t, exp, e)
        e.ty = t
        return t

    def err(self, e, msg):
        fail(f"{self.cur.file}:{e.line}: in fn {self.cur.name}: {msg}")

    def place_var(self, p):
        if p.k == "path" and len(p.segs) == 1:
            return p.segs[0]
        if p.k == "paren" or (p.k == "un" and p.op in ("*", "&")):
            return self.place_var(p.e)
        if p.k == "field" and p.name == "0":
            return self.place_var(p.e)
        self.err(p, "unsupported place expression for a `&mut` argument / assignment")

    def resolve_self(self, name):
        if name == "Self":
            if self.cur.self_ty is None:
                fail(f"{self.cur.file}: `Self` outside impl")
            return self.cur.self_ty
        return name

    def call_fn(self, e, fn, args, env, recv=None, typed=()):
        params = list(fn.params)
        actual = ([recv] if recv is not None else []) + list(args)
        if len(actual) != len(params):
            self.err(e, f"call of {fn.lean}: {len(actual)} arguments for {len(params)} parameters")
        for a, (pn, pt, pm) in zip(actual, params):
            if a is recv or any(a is t for t in typed):
                self.unify(a.ty, pt, e)
            else:
                self.infer(a, env, pt)
        e.target = fn
        e.actual = actual
        e.mut_var = None
        if fn.mutparam:
            idx = [p[0] for p in params].index(fn.mutparam)
            e.mut_var = self.place_var(actual[idx])
            if e.mut_var not in env:
                self.err(e, f"`&mut` argument `{e.mut_var}` is not a local")
            e.mut_ty = env[e.mut_var]
        self.cur.callees.append(fn)
        self.callsites.append((self.cur, fn, e))
        return fn.ret

    def _infer(self, e, env, exp):
        k = e.k
        if k == "lit":
            if e.suf:
                if e.suf not in INT_TYPES:
                    self.err(e, f"integer type {e.suf} not supported")
                return e.suf
            return TVar(intonly=True)
        if k == "boollit":
            return "bool"
        if k == "unitv":
            return "unit"
        if k == "paren":
            return self.infer(e.e, env, exp)
        if k == "path":
            segs = e.segs
            if len(segs) == 1:
                n = segs[0]
                if n in env:
                    e.ref = ("local", n)
                    return env[n]
                if n == "None":
                    e.ref = ("none",)
                    return ("Option", TVar())
                c = self.consts.get((self.cur.mod, n))
                if c:
                    e.ref = ("const", c)
                    return c.ty
                self.err(e, f"unknown identifier `{n}`")
            if len(segs) == 2:
                t = self.resolve_self(segs[0])
                if t in ENUMS and segs[1] in ENUMS[t]:
                    e.ref = ("enum", ENUMS[t][segs[1]])
                    return t
                c = self.consts.get((prune(t) if t in ALIASES else t, segs[1]))
                if c:
                    e.ref = ("const", c)
                    return c.ty
            self.err(e, f"unknown path `{'::'.join(segs)}`")
        if k == "call":
            segs = [self.resolve_self(s) if i == 0 else s for i, s in enumerate(e.fn)]
            if segs in (["Some"], ["Ok"]):
                if len(e.args) != 1:
                    self.err(e, "Some/Ok take one argument")
                inner = None
                pe = prune(exp) if exp is not None else None
                if isinstance(pe, tuple) and pe[0] == "Option":
                    inner = pe[1]
                e.kind2 = "some"
                return ("Option", self.infer(e.args[0], env, inner))
            if segs == ["Err"]:
                if len(e.args) != 1 or e.args[0].k != "unitv":
                    self.err(e, "only `Err(())` is supported")
                e.kind2 = "none"
                return ("Option", TVar())
            if len(segs) == 1 and segs[0] in NEWTYPES:
                if len(e.args) != 1:
                    self.err(e, "newtype constructor takes one argument")
                self.infer(e.args[0], env, under(segs[0]))
                e.kind2 = "newtype"
                return segs[0]
            if len(segs) == 1:
                fn = self.free.get((self.cur.mod, segs[0]))
                if not fn:
                    self.err(e, f"call of `{segs[0]}`: not a translated function of this module")
                e.kind2 = "fn"
                return self.call_fn(e, fn, e.args, env)
            if len(segs) == 2:
                t, n = segs
                tk = prune(t)
                if (t, n) in PRIMS:
                    return self.prim(e, PRIMS[(t, n)], e.args, env)
                if n in ("from", "try_from") and len(e.args) == 1:
                    at = prune(self.infer(e.args[0], env))
                    if isinstance(at, TVar):
                        self.err(e, f"`{t}::{n}` of an untyped literal")
                    if (t, n, at) in PRIMS:
                        return self.prim(e, PRIMS[(t, n, at)], e.args, env, typed=True)
                    fn = self.assoc.get((tk, n, at))
                    if fn:
                        e.kind2 = "fn"
                        return self.call_fn(e, fn, e.args, env)
                    self.err(e, f"`{t}::{n}({show_ty(at)})` is neither translated nor a primitive")
                fn = self.assoc.get((tk, n))
                if fn:
                    e.kind2 = "fn"
                    return self.call_fn(e, fn, e.args, env)
            self.err(e, f"call of `{'::'.join(e.fn)}` is neither translated nor a primitive")
        if k == "mcall":
            n = e.name
            if n == "into":
                if e.args:
                    self.err(e, "into() takes no arguments")
                st = prune(self.infer(e.recv, env))
                tt = prune(exp) if exp is not None else None
                if tt is None or isinstance(tt, TVar):
                    self.err(e, "`.into()` without a known target type")
                if (st, "into", tt) in PRIMS:
                    return self.prim(e, PRIMS[(st, "into", tt)], [e.recv], env, typed=True)
                fn = self.methods.get((st, "into", tt))
                if fn:
                    e.kind2 = "fn"
                    return self.call_fn(e, fn, [], env, recv=e.recv)
                self.err(e, f"`{show_ty(st)}.into() : {show_ty(tt)}` is neither translated nor a primitive")
            if n in OPTION_METHODS:
                pe = prune(exp) if exp is not None else None
                rexp = None
                if n in ("unwrap", "unwrap_or"):
                    rexp = ("Option", pe if pe is not None else TVar())
                if n == "map" and e.recv.k != "closure":
                    rexp = None
                rt = prune(self.infer(e.recv, env, rexp))
                if not (isinstance(rt, tuple) and rt[0] == "Option"):
                    self.err(e, f"`.{n}()` on a non-Option/Result value ({show_ty(rt)})")
                e.kind2 = "opt"
                if n in ("is_some", "is_none"):
                    if e.args:
                        self.err(e, "arguments")
                    return "bool"
                if n == "unwrap":
                    if e.args:
                        self.err(e, "arguments")
                    return rt[1]
                if n == "unwrap_or":
                    if len(e.args) != 1:
                        self.err(e, "arguments")
                    self.infer(e.args[0], env, rt[1])
                    return rt[1]
                if n == "map":
                    if len(e.args) != 1 or e.args[0].k != "closure" or len(e.args[0].params) != 1:
                        self.err(e, "`.map` needs a one-parameter closure")
                    cl = e.args[0]
                    env2 = dict(env)
                    env2[cl.params[0]] = rt[1]
                    cl.pty = rt[1]
                    inner = pe[1] if isinstance(pe, tuple) and pe[0] == "Option" else None
                    u = self.infer(cl.body, env2, inner)
                    cl.ty = u
                    return ("Option", u)
            rt = prune(self.infer(e.recv, env))
            if n == "abs" and not e.args:
                if rt in INT_TYPES and INT_TYPES[rt][2]:
                    e.kind2 = "abs"
                    return rt
                self.err(e, "`.abs()` on a non-signed value")
            if isinstance(rt, TVar):
                cands = sorted({key[0] for key in self.methods if len(key) == 2 and key[1] == n and key[0] in INT_TYPES})
                if len(cands) != 1:
                    self.err(e, f"method `{n}` on an untyped integer")
                self.unify(rt, cands[0], e)
                rt = cands[0]
            fn = self.methods.get((rt, n))
            if not fn:
                self.err(e, f"method `{show_ty(rt)}::{n}` is neither translated nor a primitive")
            e.kind2 = "fn"
            return self.call_fn(e, fn, e.args, env, recv=e.recv)
        if k == "tuple":
            return ("tuple", tuple(self.infer(x, env) for x in e.items))
        if k == "field":
            rt = prune(self.infer(e.e, env))
            if e.name == "0" and rt in NEWTYPES:
                e.fk = "newtype"
                return under(rt)
            if isinstance(rt, tuple) and rt[0] == "tuple" and e.name in ("0", "1"):
                e.fk = "fst" if e.name == "0" else "snd"
                return rt[1][int(e.name)]
            if rt in STRUCTS and e.name in dict(STRUCTS[rt]):
                e.fk = f"{rt}.{e.name}"
                return dict(STRUCTS[rt])[e.name]
            self.err(e, f"field `.{e.name}` of {show_ty(rt)} not supported")
        if k == "un":
            if e.op in ("*", "&"):
                return self.infer(e.e, env, exp)
            t = prune(self.infer(e.e, env, exp))
            if e.op == "!":
                if t == "bool" or t in INT_TYPES or (isinstance(t, TVar) and t.intonly):
                    return t
                self.err(e, "`!` on unsupported type")
            if e.op == "-":
                if (t in INT_TYPES and INT_TYPES[t][2]) or (isinstance(t, TVar) and t.intonly):
                    return t
                self.err(e, "unary `-` on a non-signed value")
        if k == "bin":
            op = e.op
            if op in ("&&", "||"):
                self.infer(e.l, env, "bool")
                self.infer(e.r, env, "bool")
                return "bool"
            if op in ("==", "!=", "<", ">", "<=", ">="):
                lt = self.infer(e.l, env)
                self.infer(e.r, env, lt)
                pl = prune(lt)
                if op not in ("==", "!=") and not (pl in INT_TYPES or pl in ORD_NEWTYPES or isinstance(pl, TVar)):
                    self.err(e, f"ordering comparison on {show_ty(pl)} (no derive(PartialOrd) known)")
                return "bool"
            if op in ("<<", ">>"):
                lt = self.infer(e.l, env, exp)
                if e.r.k == "lit" and not e.r.suf:
                    self.infer(e.r, env, lt)
                else:
                    self.infer(e.r, env)
                self.shifts.append((self.cur, e))
                return lt
            if op in ("+", "-", "*"):
                lt = prune(self.infer(e.l, env))
                if lt in NEWTYPES:
                    rt = prune(self.infer(e.r, env))
                    fn = self.methods.get((lt, {"+": "add", "-": "sub", "*": "mul"}[op], rt))
                    if not fn:
                        self.err(e, f"operator `{op}` on ({show_ty(lt)}, {show_ty(rt)}): no translated trait impl")
                    e.kind2 = "fn"
                    e.recv = e.l
                    return self.call_fn(e, fn, [e.r], env, recv=e.l, typed=(e.r,))
                if exp is not None:
                    self.unify(lt, exp, e)
                self.infer(e.r, env, lt)
                return lt
            lt = self.infer(e.l, env, exp)
            self.infer(e.r, env, lt)
            return lt
        if k == "cast":
            self.infer(e.e, env)
            t = prune(e.to)
            if t not in INT_TYPES:
                self.err(e, f"cast to {show_ty(t)} not supported")
            return t
        if k == "if":
            self.infer(e.c, env, "bool")
            t = self.infer_block(e.th, env, exp)
            if e.el is not None:
                self.infer_block(e.el, env, t)
            else:
                self.unify(t, "unit", e)
            return t
        if k == "index":
            if e.e.k == "path" and e.e.segs == ["common", "KING_ORIGINS"]:
                return self.prim(e, PRIMS[("index", "KING_ORIGINS")], [e.ix], env)
            if e.e.k == "index" and e.e.e.k == "path" and e.e.e.segs == ["common", "CASTLE_DESTS"]:
                return self.prim(e, PRIMS[("index", "CASTLE_DESTS")], [e.e.ix, e.ix], env)
            self.err(e, "index expression is not one of the primitive tables")
        if k == "block":
            return self.infer_block(e, env, exp)
        self.err(e, f"expression kind `{k}` is outside the supported subset")

    def prim(self, e, desc, args, env, typed=False):
        tmpl, ptys, rty = desc
        if len(args) != len(ptys):
            self.err(e, "primitive arity")
        for a, pt in zip(args, ptys):
            if typed and a.ty is not None:
                self.unify(a.ty, pt, e)
            else:
                self.infer(a, env, pt)
        e.kind2 = "prim"
        e.prim = (tmpl, list(args))
        return rty

    def infer_block(self, b, env, exp):
        env = dict(env)
        for s in b.stmts:
            if s.k == "let":
                t = self.infer(s.init, env, s.ann)
                if s.ann is not None:
                    t = s.ann
                env[s.name] = t
                s.vty = t
            elif s.k == "assign":
                v = self.place_var(s.place)
                if v not in env:
                    self.err(s, f"assignment to `{v}` which is not a local")
                s.var, s.vty = v, env[v]
                if s.op in ("<<=", ">>=", "/=", "%="):
                    self.err(s, f"`{s.op}` not supported")
                self.infer(s.rhs, env, env[v])
            elif s.k == "exprstmt":
                t = prune(self.infer(s.e, env))
                ok = (s.e.k in ("call", "mcall") and getattr(s.e, "mut_var", None)) or s.e.k == "if"
                if not ok:
                    self.err(s, "expression statement without a supported effect")
            elif s.k == "dassert":
                self.infer(s.cond, env, "bool")
            else:
                self.err(s, "statement kind")
        if b.tail is not None:
            t = self.infer(b.tail, env, exp)
            if prune(t) == "unit" and (b.tail.k == "if" or getattr(b.tail, "mut_var", None)):
                b.stmts.append(N("exprstmt", b.tail.line, e=b.tail))     # `if`/call statement without `;`
                b.tail = None
        else:
            t = "unit"
        b.ty = t
        b.env_out = env
        return t

    def infer_all(self):
        self.callsites = []
        self.shifts = []
        # constants first (in source order; they may refer to earlier ones)
        for c, cont in self.const_list:
            self.cur = Fn.__new__(Fn)
            self.cur.file, self.cur.name, self.cur.mod, self.cur.self_ty, self.cur.callees = \
                c.file, c.name, cont["mod"], cont["self"], []
            self.cur.lean, self.cur.params = c.lean, []
            self.infer(c.expr, {}, c.ty)
            self.zonk(c.expr)
            c.callees = list(self.cur.callees)
        for fn in self.fns:
            self.cur = fn
            env = {}
            for (n, t, m) in fn.params:
                env[n] = t
            self.infer_block(fn.body, env, fn.ret)
            self.zonk(fn.body)

    def zonk(self, root):
        for e in walk(root):
            for attr in ("ty", "vty", "mut_ty", "pty"):
                if hasattr(e, attr) and getattr(e, attr) is not None:
                    t = prune(getattr(e, attr))
                    if has_tvar(t):
                        fail(f"{self.cur.file}:{e.line}: in {self.cur.name}: type of an expression is not determined "
                             f"(Rust would default an integer literal to i32: outside the supported subset)")
                    setattr(e, attr, t)

    # ---- constant evaluation and the shift check
    def const_eval(self, e):
        k = e.k
        if k == "lit":
            return e.v
        if k == "paren":
            return self.const_eval(e.e)
        if k == "path" and getattr(e, "ref", (None,))[0] == "const":
            c = e.ref[1]
            if c.value is None:
                c.value = self.const_eval(c.expr)
                if isinstance(c.value, int):
                    t = prune(c.ty)
                    if t in INT_TYPES and not INT_TYPES[t][2] and not (0 <= c.value < 2 ** INT_TYPES[t][1]):
                        fail(f"{c.file}: const {c.name} = {c.value} does not fit {t}")
            return c.value
        if k == "bin" and e.op in ("<<", ">>", "&", "|", "^"):
            a, b = self.const_eval(e.l), self.const_eval(e.r)
            if a is None or b is None:
                return None
            w = INT_TYPES[prune(e.ty)][1]
            if e.op == "<<":
                return (a << b) % (2 ** w) if b < w else None
            if e.op == ">>":
                return a >> b if b < w else None
            return {"&": a & b, "|": a | b, "^": a ^ b}[e.op]
        if k == "call" and getattr(e, "kind2", None) == "newtype":
            return self.const_eval(e.args[0])
        if k == "field" and getattr(e, "fk", None) == "newtype":
            return self.const_eval(e.e)
        if k == "bin" and getattr(e, "kind2", None) == "fn":
            return None
        if (k == "bin" and e.op in ("+", "-", "*")) or (k == "un" and e.op == "-"):
            t = prune(e.ty)
            if t not in INT_TYPES:
                return None
            if k == "un":
                a = self.const_eval(e.e)
                v = None if a is None else -a
            else:
                a, b = self.const_eval(e.l), self.const_eval(e.r)
                v = None if a is None or b is None else {"+": a + b, "-": a - b, "*": a * b}[e.op]
            if v is None:
                return None
            _, w, signed = INT_TYPES[t]
            lo, hi = (-(2 ** (w - 1)), 2 ** (w - 1)) if signed else (0, 2 ** w)
            return v if lo <= v < hi else None
        return None

    def check_shifts(self):
        for fn, e in self.shifts:
            lt = prune(e.l.ty)
            if lt not in INT_TYPES:
                fail(f"{fn.file}:{e.line}: shift of a non-integer")
            w = INT_TYPES[lt][1]
            amt = e.r
            while amt.k == "paren":
                amt = amt.e
            v = self.const_eval(amt)
            where = f"{fn.file} {fn.lean}: `{e.op}`"
            if v is not None:
                if not (0 <= v < w):
                    fail(f"{where}: shift amount {v} is not < {w}")
                self.notes.append(f"shift check: {fn.lean}: amount {v} < {w}")
                continue
            if amt.k == "path" and getattr(amt, "ref", (None,))[0] == "local" and \
                    amt.ref[1] in [p[0] for p in fn.params] and not self.rebinds(fn, amt.ref[1]):
                pname = amt.ref[1]
                idx = [p[0] for p in fn.params].index(pname)
                sites = [(caller, ce) for (caller, callee, ce) in self.callsites if callee is fn]
                vals = []
                for caller, ce in sites:
                    av = self.const_eval(ce.actual[idx])
                    if av is None or not (0 <= av < w):
                        fail(f"{where}: shift by parameter `{pname}`: call site in {caller.lean} does not pass a "
                             f"constant < {w}")
                    vals.append(av)
                self.check_no_outside_calls(fn)
                self.notes.append(f"shift check: {fn.lean}: amount = parameter `{pname}`; all {len(sites)} call sites "
                                  f"pass constants {sorted(set(vals))} < {w}; no call outside the translated set")
                continue
            fail(f"{where}: shift amount is neither a constant nor a parameter with constant call sites")

    def rebinds(self, fn, name):
        for e in walk(fn.body):
            if e.k == "let" and e.name == name:
                return True
            if e.k == "assign" and e.var == name:
                return True
        return False

    def check_no_outside_calls(self, fn):
        """every textual call `name(` in the file lies inside a translated function body (or is the declaration)"""
        if fn.mod is None or fn.self_ty is not None:
            fail(f"{fn.file}: {fn.lean}: parameter-dependent shift in a function that is not module-private")
        toks = self.toks[fn.file]
        for i, t in enumerate(toks):
            if t.k == "id" and t.s == fn.name and i + 1 < len(toks) and toks[i + 1].s == "(":
                prev = toks[i - 1].s if i else ""
                if prev == "fn" or prev == ".":
                    continue
                if not any(lo <= i <= hi for lo, hi in self.spans[fn.file]):
                    fail(f"{fn.file}:{t.line}: call of `{fn.name}` outside the translated functions")

    # ---- effects
    def node_panics(self, e):
        k = e.k
        if k == "dassert":
            return True
        if k == "mcall" and getattr(e, "kind2", None) == "opt" and e.name == "unwrap":
            return True
        if k == "mcall" and getattr(e, "kind2", None) == "abs":
            return True
        if k == "bin" and getattr(e, "kind2", None) == "fn":
            return e.target.may_panic
        if k == "bin" and e.op in ("+", "-", "*"):
            return self.const_eval(e) is None       # constant and in range ("by literal inspection"): cannot overflow
        if k == "bin" and e.op in ("/", "%"):
            d = e.r
            while d.k == "paren":
                d = d.e
            t = prune(e.ty)
            if d.k == "lit" and d.v != 0 and t in INT_TYPES and not INT_TYPES[t][2]:
                return False
            fail(f"{self.cur.file}:{e.line}: `/`/`%` only by a non-zero literal on unsigned integers")
        if k == "un" and e.op == "-":
            return self.const_eval(e) is None
        if k == "assign" and e.op in ("+=", "-=", "*="):
            return True
        if k in ("call", "mcall", "bin") and getattr(e, "kind2", None) == "fn" and e.target.may_panic:
            return True
        return False

    def panics(self, e):
        return any(self.node_panics(x) for x in walk(e))

    def order(self):
        out, state = [], {}

        def visit(fn, stack):
            if state.get(fn) == 2:
                return
            if state.get(fn) == 1:
                fail(f"recursion through {fn.lean} is outside the supported subset")
            state[fn] = 1
            for c in fn.callees:
                visit(c, stack + [fn])
            state[fn] = 2
            self.cur = fn
            fn.may_panic = self.panics(fn.body)
            out.append(fn)

        for fn in self.fns:
            visit(fn, [])
        self.fns = out

    # ------------------------------------------------------------------------------------------------
    # emission
    # ------------------------------------------------------------------------------------------------
    def fresh(self):
        self.tmpn += 1
        return f"tmp{self.tmpn}"

    @staticmethod
    def par(s):
        if re.fullmatch(r"[A-Za-z_][\w.']*|\(.*\)", s) and (not s.startswith("(") or Translator.balanced(s)):
            return s
        return f"({s})"

    @staticmethod
    def balanced(s):
        d = 0
        for i, ch in enumerate(s):
            if ch == "(":
                d += 1
            elif ch == ")":
                d -= 1
                if d == 0 and i != len(s) - 1:
                    return False
        return d == 0

    def conv(self, src, dst, x):
        src, dst = prune(src), prune(dst)
        if src == dst:
            return x
        (ls, ws, ss), (ld, wd, sd) = INT_TYPES[src], INT_TYPES[dst]
        if ws != wd and ss != sd:
            # change the width in the signedness of the source (zero / sign extension or truncation), then reinterpret
            mid = [k for k, v in INT_TYPES.items() if v[1] == wd and v[2] == ss and k != "usize"]
            if not mid:
                fail(f"cast {src} -> {dst} not supported")
            return self.conv(mid[0], dst, self.conv(src, mid[0], x))
        return f"{ls}.to{ld} {self.par(x)}"

    def bind(self, out, ind, ty, rhs):
        if out is None:
            fail(f"internal: panicking expression in a pure context ({self.cur.lean})")
        t = self.fresh()
        out.append(f"{ind}let {t} : {lean_ty(ty)} ← {rhs}")
        return t

    def simple_if(self, e):
        """`if` expression whose branches are single panic-free expressions"""
        if e.k != "if" or e.el is None:
            return False
        for b in (e.th, e.el):
            if b.stmts or b.tail is None:
                return False
            if b.tail.k == "if" and not self.simple_if(b.tail):
                return False
        return not self.panics(e)

    def ex(self, e, out, ind):
        """Lean term for `e`; binds for panicking sub-expressions are appended to `out` (None = pure context)"""
        k = e.k
        P = self.par
        if k == "lit":
            return f"({e.text} : {lean_ty(e.ty)})"
        if k == "boollit":
            return "true" if e.v else "false"
        if k == "unitv":
            return "()"
        if k == "paren":
            return self.ex(e.e, out, ind)
        if k == "path":
            r = e.ref
            if r[0] == "local":
                return mangle(r[1])
            if r[0] == "none":
                return f"(Option.none : {lean_ty(e.ty)})"
            if r[0] == "const":
                return r[1].lean
            if r[0] == "enum":
                return r[1]
        if k in ("call", "mcall", "index"):
            k2 = e.kind2
            if k2 == "some":
                return f"Option.some {P(self.ex(e.args[0], out, ind))}"
            if k2 == "none":
                return f"(Option.none : {lean_ty(e.ty)})"
            if k2 == "newtype":
                return self.ex(e.args[0], out, ind)
            if k2 == "prim":
                tmpl, args = e.prim
                return tmpl.format(*[P(self.ex(a, out, ind)) for a in args])
            if k2 == "fn":
                fn = e.target
                if fn.mutparam:
                    self.err(e, f"call of {fn.lean} (has a `&mut` parameter) in expression position")
                args = [P(self.ex(a, out, ind)) for a in e.actual]
                s = " ".join([fn.lean] + args)
                if fn.may_panic:
                    return self.bind(out, ind, fn.ret, s)
                return s
            if k2 == "abs":
                x = self.ex(e.recv, out, ind)
                return self.bind(out, ind, e.ty, f"{INT_TYPES[prune(e.ty)][0]}.checked_abs {P(x)}")
            if k2 == "opt":
                x = self.ex(e.recv, out, ind)
                if e.name == "is_some":
                    return f"Option.isSome {P(x)}"
                if e.name == "is_none":
                    return f"Option.isNone {P(x)}"
                if e.name == "unwrap":
                    return self.bind(out, ind, e.ty, f"unwrap {P(x)}")
                if e.name == "unwrap_or":
                    d = self.ex(e.args[0], out, ind)
                    return f"Option.getD {P(x)} {P(d)}"
                if e.name == "map":
                    cl = e.args[0]
                    if self.panics(cl.body):
                        self.err(e, "closure body that can panic")
                    body = self.ex(cl.body, None, ind)
                    return f"Option.map (fun ({mangle(cl.params[0])} : {lean_ty(cl.pty)}) => {body}) {P(x)}"
        if k == "tuple":
            return "(" + ", ".join(self.ex(x, out, ind) for x in e.items) + ")"
        if k == "field":
            x = self.ex(e.e, out, ind)
            if e.fk == "newtype":
                return x
            if e.fk == "fst":
                return f"Prod.fst {P(x)}"
            if e.fk == "snd":
                return f"Prod.snd {P(x)}"
            return f"{e.fk} {P(x)}"
        if k == "un":
            x = self.ex(e.e, out, ind)
            if e.op in ("*", "&"):
                return x
            if e.op == "!":
                return f"!{P(x)}" if prune(e.ty) == "bool" else f"~~~{P(x)}"
            if e.op == "-":
                if not INT_TYPES[prune(e.ty)][2]:
                    self.err(e, "unary `-` on an unsigned value")
                if self.const_eval(e) is not None:
                    return f"-{P(x)}"
                return self.bind(out, ind, e.ty, f"{INT_TYPES[prune(e.ty)][0]}.checked_neg {P(x)}")
        if k == "bin" and getattr(e, "kind2", None) == "fn":
            fn = e.target
            args = [P(self.ex(a, out, ind)) for a in e.actual]
            t = " ".join([fn.lean] + args)
            return self.bind(out, ind, fn.ret, t) if fn.may_panic else t
        if k == "bin":
            op = e.op
            if op in ("&&", "||") and self.panics(e.r):
                a = self.ex(e.l, out, ind)
                sub = []
                b = self.ex(e.r, sub, ind + "    ")
                t = self.fresh()
                if out is None:
                    fail("internal: pure context")
                out.append(f"{ind}let {t} : Bool ← (")
                if op == "&&":
                    out.append(f"{ind}  if {a} then do")
                    out.extend(sub)
                    out.append(f"{ind}    pure {P(b)}")
                    out.append(f"{ind}  else pure false)")
                else:
                    out.append(f"{ind}  if {a} then pure true")
                    out.append(f"{ind}  else do")
                    out.extend(sub)
                    out.append(f"{ind}    pure {P(b)})")
                return t
            a = self.ex(e.l, out, ind)
            b = self.ex(e.r, out, ind)
            if op in ("&&", "||"):
                return f"{P(a)} {op} {P(b)}"
            if op in ("==", "!="):
                return f"{P(a)} {op} {P(b)}"
            if op in ("<", ">", "<=", ">="):
                lop = {"<": "<", ">": ">", "<=": "≤", ">=": "≥"}[op]
                return f"decide ({P(a)} {lop} {P(b)})"
            if op in ("&", "|", "^"):
                lop = {"&": "&&&", "|": "|||", "^": "^^^"}[op]
                return f"{P(a)} {lop} {P(b)}"
            if op in ("<<", ">>"):
                lop = "<<<" if op == "<<" else ">>>"
                return f"{P(a)} {lop} {P(self.conv(e.r.ty, e.l.ty, b))}"
            if op in ("/", "%"):
                return f"{P(a)} {op} {P(b)}"
            if op in ("+", "-", "*") and self.const_eval(e) is not None:
                return f"{P(a)} {op} {P(b)}"
            if op in ("+", "-", "*"):
                nm = {"+": "checked_add", "-": "checked_sub", "*": "checked_mul"}[op]
                return self.bind(out, ind, e.ty, f"{INT_TYPES[prune(e.ty)][0]}.{nm} {P(a)} {P(b)}")
        if k == "cast":
            x = self.ex(e.e, out, ind)
            st = prune(e.e.ty)
            if st not in INT_TYPES:
                self.err(e, f"cast from {show_ty(st)} not supported")
            return self.conv(st, e.ty, x)
        if k == "if":
            if self.simple_if(e):
                c = self.ex(e.c, None, ind)
                a = self.ex(e.th.tail, None, ind)
                b = self.ex(e.el.tail, None, ind)
                return f"if {c} then {a} else {b}"
            # hoist a complex `if` into a binding of its own
            if out is None and self.panics(e):
                fail("internal: pure context")
            t = self.fresh()
            lines = []
            self.emit_if(e, lines, ind, ("let", t, e.ty), ("value",), monadic_ctx=out is not None)
            if out is None:
                self.err(e, "nested block-`if` inside an expression of a panic-free function")
            out.extend(lines)
            return t
        self.err(e, f"cannot emit expression kind `{k}`")

    def emit_if(self, e, out, ind, binder, result, monadic_ctx):
        """binder: ("let", name, ty) | ("tail",);  result: ("value",) | ("var", v)"""
        mon = self.panics(e.th) or (e.el is not None and self.panics(e.el))
        pre = []
        c = self.ex(e.c, pre if monadic_ctx else None, ind)
        out.extend(pre)
        if binder[0] == "let":
            arrow = "←" if mon else ":="
            out.append(f"{ind}let {mangle(binder[1])} : {lean_ty(binder[2])} {arrow}")
            ind2 = ind + "  "
        else:
            if monadic_ctx and not mon:
                mon = True
            ind2 = ind
        kw = " do" if mon else ""
        out.append(f"{ind2}if {c} then{kw}")
        self.emit_block(e.th, out, ind2 + "  ", mon, result)
        if e.el is not None and not e.el.stmts and e.el.tail is not None and e.el.tail.k == "if" \
                and not self.simple_if(e.el.tail) and result[0] == "value":
            out.append(f"{ind2}else{kw}")
            self.emit_if(e.el.tail, out, ind2 + "  ", ("tail",), result, mon)
        else:
            out.append(f"{ind2}else{kw}")
            if e.el is not None:
                self.emit_block(e.el, out, ind2 + "  ", mon, result)
            else:
                v = mangle(result[1])
                out.append(f"{ind2}  {'pure ' if mon else ''}{v}")

    def assigned_vars(self, b, acc, local):
        local = set(local)
        for s in b.stmts:
            if s.k == "let":
                local.add(s.name)
            elif s.k == "assign":
                if s.var not in local and s.var not in acc:
                    acc.append(s.var)
            elif s.k == "exprstmt":
                e = s.e
                if e.k in ("call", "mcall") and getattr(e, "mut_var", None):
                    if e.mut_var not in local and e.mut_var not in acc:
                        acc.append(e.mut_var)
                elif e.k == "if":
                    self.assigned_vars(e.th, acc, local)
                    if e.el is not None:
                        self.assigned_vars(e.el, acc, local)
        return acc

    def emit_block(self, b, out, ind, mon, result):
        m = out if mon else None
        for s in b.stmts:
            if s.k == "let":
                if s.init.k == "if" and not self.simple_if(s.init):
                    self.emit_if(s.init, out, ind, ("let", s.name, s.vty), ("value",), mon)
                    continue
                x = self.ex(s.init, m, ind)
                out.append(f"{ind}let {mangle(s.name)} : {lean_ty(s.vty)} := {x}")
            elif s.k == "assign":
                x = self.ex(s.rhs, m, ind)
                v = mangle(s.var)
                T = lean_ty(s.vty)
                if s.op == "=":
                    out.append(f"{ind}let {v} : {T} := {x}")
                elif s.op in ("|=", "&=", "^="):
                    lop = {"|=": "|||", "&=": "&&&", "^=": "^^^"}[s.op]
                    out.append(f"{ind}let {v} : {T} := {v} {lop} {self.par(x)}")
                else:
                    nm = {"+=": "checked_add", "-=": "checked_sub", "*=": "checked_mul"}[s.op]
                    if m is None:
                        fail("internal: pure context")
                    out.append(f"{ind}let {v} : {T} ← {INT_TYPES[prune(s.vty)][0]}.{nm} {v} {self.par(x)}")
            elif s.k == "dassert":
                if m is None:
                    fail("internal: pure context")
                x = self.ex(s.cond, m, ind)
                out.append(f"{ind}debug_assert {self.par(x)}")
            elif s.k == "exprstmt":
                e = s.e
                if e.k == "if":
                    vs = self.assigned_vars(e.th, [], [])
                    if e.el is not None:
                        self.assigned_vars(e.el, vs, [])
                    if len(vs) != 1:
                        self.err(e, f"statement `if` must assign exactly one outer variable (assigns {vs})")
                    v = vs[0]
                    vty = b.env_out[v] if v in b.env_out else None
                    if vty is None:
                        self.err(e, f"variable {v} not in scope")
                    self.emit_if(e, out, ind, ("let", v, vty), ("var", v), mon)
                else:
                    fn = e.target
                    args = [self.par(self.ex(a, m, ind)) for a in e.actual]
                    v = mangle(e.mut_var)
                    T = lean_ty(e.mut_ty)
                    arrow = "←" if fn.may_panic else ":="
                    if fn.may_panic and m is None:
                        fail("internal: pure context")
                    out.append(f"{ind}let {v} : {T} {arrow} {' '.join([fn.lean] + args)}")
        # result
        if result[0] == "var":
            if b.tail is not None:
                self.err(b, "value in a statement block")
            out.append(f"{ind}{'pure ' if mon else ''}{mangle(result[1])}")
            return
        t = b.tail
        if t is None:
            self.err(b, "block without value")
        while t.k == "paren":
            t = t.e
        if t.k == "if" and not self.simple_if(t):
            self.emit_if(t, out, ind, ("tail",), ("value",), mon)
            return
        if mon and t.k in ("call", "mcall") and getattr(t, "kind2", None) == "fn" and t.target.may_panic \
                and not t.target.mutparam:
            args = [self.par(self.ex(a, m, ind)) for a in t.actual]
            out.append(f"{ind}{' '.join([t.target.lean] + args)}")
            return
        if mon and t.k == "mcall" and getattr(t, "kind2", None) == "opt" and t.name == "unwrap":
            x = self.ex(t.recv, m, ind)
            out.append(f"{ind}unwrap {self.par(x)}")
            return
        x = self.ex(t, m, ind)
        out.append(f"{ind}{'pure ' + self.par(x) if mon else x}")

    def emit_fn(self, fn):
        self.cur = fn
        self.tmpn = 0
        for e in walk(fn.body):
            for nm in ([e.name] if e.k == "let" else []) + (e.params if e.k == "closure" else []):
                if re.fullmatch(r"tmp\d+_?", nm):
                    fail(f"{fn.file}: identifier {nm} clashes with generated temporaries")
        ps = " ".join(f"({mangle(n)} : {lean_ty(t)})" for (n, t, m) in fn.params)
        oty = fn.out_ty()
        mon = fn.may_panic
        rty = f"Panics {lean_ty(oty, True)}" if mon else lean_ty(oty)
        head = f"def {fn.lean}{' ' + ps if ps else ''} : {rty} :={' do' if mon else ''}"
        lines = []
        result = ("var", fn.mutparam) if fn.mutparam else ("value",)
        if prune(oty) == "unit" and not fn.mutparam:
            self.err(fn.body, "function without result")
        self.emit_block(fn.body, lines, "  ", mon, result)
        sig = ", ".join(f"{n}: {'&mut ' if m == 'refmut' else '&' if m == 'ref' else ''}{show_ty(t)}"
                        for (n, t, m) in fn.params)
        doc = f"/-- `{fn.file}` — `{fn.rust_path}({sig})" + (f" -> {show_ty(fn.ret)}`" if prune(fn.ret) != "unit" else "`")
        if fn.mutparam:
            doc += f"; returns the new value of `{fn.mutparam}`"
        if mon:
            doc += "; `none` = panic"
        doc += " -/"
        return "\n".join([doc, head] + lines)

    def emit_const(self, c):
        self.cur = Fn.__new__(Fn)
        self.cur.file, self.cur.name, self.cur.lean = c.file, c.name, c.lean
        self.tmpn = 0
        if self.panics(c.expr):
            fail(f"{c.file}: const {c.name}: initialiser that can panic")
        x = self.ex(c.expr, None, "  ")
        v = self.const_eval(c.expr)
        vs = f" (= {v})" if v is not None else ""
        return f"/-- `{c.file}` — `const {c.name}: {show_ty(c.ty)}`{vs} -/\ndef {c.lean} : {lean_ty(c.ty)} := {x}"

    # ---- everything
    def run(self):
        self.check_decls()
        self.collect()
        self.infer_all()
        self.order()
        self.check_shifts()
        files = sorted({c["file"] for c in CONTAINERS})
        out = ["-- GENERATED by tools/rs2lean.py from " + ", ".join(files) + "; do not edit.",
               "import Wee.Model.Types",
               "/-!",
               "# Lean definitions translated from the Rust source text (tie (a) for functions)",
               "",
               "Every `def` below the prelude is produced from the text of one Rust item; the prelude is the fixed,",
               "trusted vocabulary.  `Wee/Proofs/MoveFnsBridge.lean` proves these functions equal to the hand-written",
               "model (`Wee/Model/Move.lean`).",
               "-/",
               "set_option linter.unusedVariables false",
               "namespace Wee.GenFns",
               PRELUDE.strip("\n"),
               "",
               "/-! ## Translated items -/",
               ""]
        # constants of a container come before the functions (in source order); functions in dependency order
        done_c = set()
        emitted = []

        for c, cont in self.const_list:
            if not c.callees:
                out.append(self.emit_const(c))
                done_c.add(c)
        out.append("")
        for fn in self.fns:
            out.append(self.emit_fn(fn))
            out.append("")
            emitted.append(fn)
        for c, cont in self.const_list:
            if c not in done_c:
                for callee in c.callees:
                    if callee not in emitted:
                        fail(f"const {c.name}: uses a function that is not emitted")
                out.append(self.emit_const(c))
                out.append("")
        out.append("/-! ## Side conditions checked by the translator")
        for n in self.notes:
            out.append(f"* {n}")
        if self.untranslated:
            out.append("* functions of partially translated containers that are NOT translated: " +
                       ", ".join(sorted(self.untranslated)))
        out.append("-/")
        out.append("end Wee.GenFns")
        return "\n".join(out) + "\n"


def main():
    ap = argparse.ArgumentParser()
    ap.add_argument("--repo", default=os.environ.get("WEE_REPO", "/repo"))
    ap.add_argument("--out", default=DEFAULT_OUT)
    ap.add_argument("--check", action="store_true", help="do not write; exit 1 if the file would change")
    a = ap.parse_args()
    try:
        text = Translator(a.repo).run()
    except TieBroken as ex:
        print(f"TIE-BROKEN rs2lean: {ex}")
        sys.exit(2)
    old = None
    if os.path.exists(a.out):
        with open(a.out) as f:
            old = f.read()
    changed = old != text
    if a.check:
        print('{"changed": %s}' % ("true" if changed else "false"))
        sys.exit(1 if changed else 0)
    if changed:
        os.makedirs(os.path.dirname(a.out), exist_ok=True)
        with open(a.out, "w") as f:
            f.write(text)
    print('{"changed": [%s]}' % ('"MoveFns.lean"' if changed else ""))


if __name__ == "__main__":
    main()
