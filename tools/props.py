"""Per-property checks: theorem registry, request generators, spec views."""
import json
import os
import random
import re

import wee

VERIF = wee.VERIF

# ------------------------------------------------------------------------------------------------
# theorem registry: loaded from lean/props.json  {Cxx: {modules:[...], theorems:[...], partial:[...], files:[fingerprint names]}}

def registry():
    return json.load(open(os.path.join(VERIF, "lean", "props.json")))


def hexs(s):
    b = s.encode("utf-8")
    return b.hex() if b else "-"


def fingerprints_changed(names):
    """which of the modelled source files differ from the baseline the model was validated against"""
    try:
        cur = json.load(open(os.path.join(wee.BUILD, "fingerprints.json")))
        base = json.load(open(os.path.join(VERIF, "fingerprints.baseline.json")))
    except OSError:
        return []
    return [n for n in names if cur.get(n) != base.get(n)]


# ------------------------------------------------------------------------------------------------
# spec views (impl output → the form the spec prints)

def sv_moves(impl):
    toks = impl.split(" ")[1:]
    attrs = [t.split(":")[2] for t in toks if t.count(":") >= 2]
    return " ".join(sorted(attrs))


def sv_succ(impl):
    return " ".join(sorted(impl.split(" ")[1:]))


def sv_mv(impl):
    # "<raw> <attrs...> cbor=.. back=.."  → attrs only; raw/cbor/back consistency is checked separately
    parts = impl.split(" ")
    return " ".join(parts[1:10])


def sv_sanmatch(impl):
    if impl == "err" or impl == "ok first=- all=":
        return "nomatch"
    return impl


def sv_nopanic(impl):
    return "panic" if impl in ("panic", "<no-output>") else "nopanic"


def sv_tt(impl_and_spec):
    return impl_and_spec


SPEC_VIEWS = {"moves": sv_moves, "succ": sv_succ, "mv": sv_mv, "sanmatch": sv_sanmatch}


def tt_spec_ok(impl, spec):
    """impl tokens vs spec tokens `must=<e>` / `may=<e>` / `n<=a/b`"""
    it, st = impl.split(" "), spec.split(" ")
    if len(it) != len(st):
        return False
    for a, b in zip(it, st):
        if b == "i":
            if a != "i":
                return False
        elif b.startswith("must="):
            if a != b[5:]:
                return False
        elif b.startswith("may="):
            if a != "none" and a != b[4:]:
                return False
        elif b.startswith("n<="):
            m = re.fullmatch(r"n(\d+)/(\d+)", a)
            m2 = re.fullmatch(r"n<=(\d+)/(\d+)", b)
            if not m or not m2 or int(m.group(1)) > int(m2.group(1)) or m.group(2) != m2.group(2):
                return False
    return True


# ------------------------------------------------------------------------------------------------
# generators

def positions(seed, n):
    return wee.driver_positions(seed, n)


def model_moves(fens):
    """[(fen, [(lan, raw, attrs)])] from the Lean model"""
    outs, rc, err = wee.run_driver(["moves " + f for f in fens])
    res = []
    for f, (m, s) in zip(fens, outs):
        toks = [t.split(":") for t in m.split(" ")[1:] if t.count(":") >= 2]
        res.append((f, [(t[0], int(t[1]), t[2].split(",")) for t in toks]))
    return res


def sq(name):
    return (ord(name[0]) - 97) + 8 * (int(name[1]) - 1)


def c01(res, tier, seed, deep):
    n = 30000 if tier == "thorough" else (6000 if deep else 1500)
    fens = positions(seed, n)
    reqs = ["moves " + f for f in fens]
    rnd = random.Random(seed)
    for f in fens:
        x = rnd.random()
        if x < (0.2 if tier == "thorough" else 0.08):
            reqs.append("perft 2 " + f)
        if x < (0.03 if tier == "thorough" else 0.01):
            reqs.append("perft 3 " + f)
    # published perft counts (chessprogramming wiki) as fixed regression inputs
    reqs += ["perft 3 rnbqkbnr/pppppppp/8/8/8/8/PPPPPPPP/RNBQKBNR w KQkq - 0 1",
             "perft 3 r3k2r/p1ppqpb1/bn2pnp1/3PN3/1p2P3/2N2Q1p/PPPBBPPP/R3K2R w KQkq - 0 1",
             "perft 4 8/2p5/3p4/KP5r/1R3p1k/8/4P1P1/8 w - - 0 1"]
    if tier == "thorough":
        reqs += ["perft 4 rnbqkbnr/pppppppp/8/8/8/8/PPPPPPPP/RNBQKBNR w KQkq - 0 1",
                 "perft 4 r3k2r/Pppp1ppp/1b3nbN/nP6/BBP1P3/q4N2/Pp1P2PP/R2Q1RK1 w kq - 0 1"]
    wee.compare_batch(res, reqs, SPEC_VIEWS, nontrivial=lambda r, i: not i.startswith("0"))
    for req, impl in zip(reqs, [None] * len(reqs)):
        pass
    return "positions: corpus of rule-coverage FENs + weighted random legal play (Lean spec generator, seed-derived); non-trivial = position has at least one legal move; distinct = distinct request lines"


def c02(res, tier, seed, deep):
    n = 12000 if tier == "thorough" else (3000 if deep else 800)
    fens = positions(seed + 17, n)
    rnd = random.Random(seed)
    reqs = ["succ " + f for f in fens]
    mm = model_moves(fens)
    for f, ms in mm:
        take = ms if rnd.random() < 0.5 else rnd.sample(ms, min(len(ms), 6))
        for lan, raw, attrs in take:
            promo = attrs[5]
            reqs.append(f"coords {sq(lan[0:2])} {sq(lan[2:4])} {promo if promo != '0' else '-'} {f}")
            if rnd.random() < 0.5:
                reqs.append(f"apply {raw} {f}")
            if promo != "0" and rnd.random() < 0.5:
                # promotion without a letter: ambiguous by design
                reqs.append(f"coords {sq(lan[0:2])} {sq(lan[2:4])} - {f}")
        # coordinates that denote no legal move
        for _ in range(3):
            a, b = rnd.randrange(64), rnd.randrange(64)
            reqs.append(f"coords {a} {b} - {f}")
        # origin of a real move, wrong destination
        if ms:
            lan = rnd.choice(ms)[0]
            reqs.append(f"coords {sq(lan[0:2])} {rnd.randrange(64)} - {f}")
    wee.compare_batch(res, reqs, SPEC_VIEWS, nontrivial=lambda r, i: not i.startswith("0") and "err unknown" not in i)
    return "positions as C01; per position: all successors as FEN, coordinate triples of (sampled) legal moves, promotion with and without letter, random and near-miss illegal coordinates, raw make-move; non-trivial = request resolved to a move"


def expand_succ(fens, rounds=1):
    """successor FENs (model) of the given positions"""
    outs, rc, err = wee.run_driver(["succ " + f for f in fens])
    res = []
    for m, s in outs:
        res += [t.replace("_", " ") for t in m.split(" ")[1:]]
    return res


def c08(res, tier, seed, deep):
    n = 6000 if tier == "thorough" else (1500 if deep else 500)
    rnd = random.Random(seed)
    base = positions(seed + 11, n)
    fens = list(base)
    # transpositions: all positions two and three plies below a sample (a-then-b vs b-then-a, and
    # pieces going out and back)
    lvl1 = expand_succ(rnd.sample(base, min(len(base), 25 if tier == "quick" else 120)))
    lvl2 = expand_succ(rnd.sample(lvl1, min(len(lvl1), 60 if tier == "quick" else 400)))
    lvl3 = expand_succ(rnd.sample(lvl2, min(len(lvl2), 80 if tier == "quick" else 500)))
    fens += lvl1 + lvl2 + lvl3
    # one-component variants: counters (must not matter), rights subsets, ep target dropped, side swapped
    var = []
    for f in rnd.sample(fens, min(len(fens), n)):
        p = f.split(" ")
        var.append(" ".join(p[:4] + [str(rnd.randrange(100)), str(rnd.randrange(1, 300))]))
        var += rights_variants(f, rnd)
        if p[3] != "-":
            var.append(" ".join(p[:3] + ["-"] + p[4:]))
        var.append(" ".join([p[0], "b" if p[1] == "w" else "w"] + p[2:3] + ["-"] + p[4:]))
    fens += var
    seeds = [0, seed, rnd.getrandbits(64)]
    viol_before = len(res.violations)
    for sd in seeds:
        reqs = [f"hash {sd} {f}" for f in fens]
        impl, rc, err = wee.run_lines(wee.harness_path(), reqs)
        drv, rc2, err2 = wee.run_driver(reqs)
        if len(impl) != len(reqs):
            res.broken.append("harness died on hash requests")
            impl += ["<no-output>"] * (len(reqs) - len(impl))
        by_key, by_hash = {}, {}
        for req, i, (m, s) in zip(reqs, impl, drv):
            if s != "-":
                by_key.setdefault(s, {}).setdefault(i, req)
                by_hash.setdefault(i, {}).setdefault(s, req)
        for req, i, (m, s) in zip(reqs, impl, drv):
            ok = True
            note = "consistent"
            if s != "-":
                if len(by_key[s]) > 1:
                    ok = False
                    other = [r for h, r in by_key[s].items() if h != i][0]
                    note = "same key, different hash than: " + other
                elif len(by_hash[i]) > 1:
                    ok = False
                    other = [r for k, r in by_hash[i].items() if k != s][0]
                    note = "different key, same hash as: " + other
            res.add(req, i, m, "consistent" if s != "-" else "-", (lambda x, note=note: note),
                    nontrivial=(s != "-" and len(by_key.get(s, {})) >= 1))
        res.tags["keys_with_several_positions"] = sum(1 for k, v in by_key.items() if sum(1 for _ in v) >= 1)
    res.tags["positions_per_seed"] = len(fens)
    return "positions from play plus all positions 1-3 plies below a sample (transposing move orders), and one-component variants (counters, every subset of the castling rights, en-passant target dropped, side swapped; only legal variants count); for 3 hasher seeds every pair is checked: equal rule-relevant key <=> equal hash; and the hash is compared with the Lean model drawing its keys from the ChaCha8 model"


def mirror_fen(f):
    p = f.split(" ")
    rows = p[0].split("/")[::-1]
    board = "/".join("".join(ch.lower() if ch.isupper() else ch.upper() for ch in r) for r in rows)
    side = "b" if p[1] == "w" else "w"
    rights = "".join(ch.lower() if ch.isupper() else ch.upper() for ch in p[2]) if p[2] != "-" else "-"
    if rights != "-":
        rights = "".join(ch for ch in "KQkq" if ch in rights)
    ep = "-" if p[3] == "-" else p[3][0] + str(9 - int(p[3][1]))
    return " ".join([board, side, rights, ep] + p[4:])


def sv_eval(impl):
    try:
        v = int(impl)
    except ValueError:
        return impl
    return "N" if -10000 < v < 10000 else f"T{v}"


def kxk_positions(rnd, n):
    """endgame placements with few men (legal ones are selected by the spec): mates and stalemates
    are frequent here, in particular checked kings on slider rays"""
    out = []
    for _ in range(n):
        men = rnd.choice(["KQk", "KRk", "KQkr", "KRRk", "KBNk", "KPk", "KQkp", "KRkb", "kqK", "krK", "kqKR", "KQQk", "KRkn", "KRPkp"])
        cells = {}
        edge_bias = rnd.random() < 0.6
        for ch in men:
            while True:
                sq = rnd.randrange(64)
                if ch in "kK" and edge_bias and rnd.random() < 0.8:
                    sq = rnd.choice([0, 1, 2, 5, 6, 7, 8, 15, 16, 23, 40, 47, 48, 55, 56, 57, 58, 61, 62, 63, 3, 4, 59, 60, 24, 31, 32, 39])
                if sq not in cells and not (ch in "pP" and sq // 8 in (0, 7)):
                    cells[sq] = ch
                    break
        rows = []
        for r in range(7, -1, -1):
            row, run = "", 0
            for f in range(8):
                c = cells.get(r * 8 + f)
                if c is None:
                    run += 1
                else:
                    row += (str(run) if run else "") + c
                    run = 0
            rows.append(row + (str(run) if run else ""))
        out.append("/".join(rows) + f" {rnd.choice('wb')} - - 0 1")
    return out


def c05(res, tier, seed, deep):
    n = 20000 if tier == "thorough" else (5000 if deep else 1500)
    rnd = random.Random(seed)
    fens = positions(seed + 13, n) + kxk_positions(rnd, n * 2)
    reqs = []
    for f in fens:
        ply = rnd.choice([0, 1, 2, 3, 5, 9, 10, 11, 17, 40])
        reqs.append(f"eval w {ply} {f}")
        reqs.append(f"eval b {ply} {f}")
    # monotonicity of the mate score in ply, on a known mate
    for ply in range(0, 25):
        reqs.append(f"eval w {ply} 7k/5Q2/6K1/8/8/8/8/8 b - - 0 1".replace("5Q2", "6Q1"))
    impl, rc, err = wee.run_lines(wee.harness_path(), reqs)
    drv, rc2, err2 = wee.run_driver(reqs)
    if len(impl) != len(reqs):
        res.broken.append("harness died on eval requests")
        impl += ["<no-output>"] * (len(reqs) - len(impl))
    for req, i, (m, sp) in zip(reqs, impl, drv):
        res.add(req, i, m, sp, (lambda x, sp=sp: ("T" + x) if sp.startswith("T") else sv_eval(x)))
        if sp.startswith("T"):
            res.tag("terminal_positions")
    return "legal positions from play plus random few-men endgame placements biased to kings on edges (mates, stalemates, checked kings on slider rays); both perspectives, plies 0..40; spec: exact mate value / 0 for positions without legal moves per the mailbox rules, non-terminal otherwise; non-legal placements are ignored by the spec"


def c13(res, tier, seed, deep):
    n = 12000 if tier == "thorough" else (3000 if deep else 1000)
    rnd = random.Random(seed)
    fens = positions(seed + 15, n) + kxk_positions(rnd, n)
    reqs = []
    for f in fens:
        ply = rnd.choice([0, 1, 4, 12])
        m = mirror_fen(f)
        reqs += [f"eval w {ply} {f}", f"eval b {ply} {f}", f"eval w {ply} {m}", f"eval b {ply} {m}"]
    impl, rc, err = wee.run_lines(wee.harness_path(), reqs)
    drv, rc2, err2 = wee.run_driver(reqs)
    if len(impl) != len(reqs):
        res.broken.append("harness died on eval requests")
        impl += ["<no-output>"] * (len(reqs) - len(impl))
    for i in range(0, len(reqs), 4):
        w, b, mw, mb = impl[i:i + 4]
        legal = drv[i][1] != "-"
        def neg(x):
            try:
                return str(-int(x))
            except ValueError:
                return "not-a-number:" + x
        # spec: eval(p, White) = -eval(p, Black); eval(mirror p, ¬c) = eval(p, c)
        exp = ["sym"] * 4 if legal else ["-"] * 4
        views = [
            (lambda x, w=w, b=b: "sym" if w == neg(b) else f"white={w} black={b}"),
            (lambda x, w=w, b=b: "sym" if w == neg(b) else f"white={w} black={b}"),
            (lambda x, b=b, mw=mw: "sym" if mw == b else f"eval(mirror,White)={mw} eval(p,Black)={b}"),
            (lambda x, w=w, mb=mb: "sym" if mb == w else f"eval(mirror,Black)={mb} eval(p,White)={w}"),
        ]
        for j in range(4):
            res.add(reqs[i + j], impl[i + j], drv[i + j][0], exp[j], views[j])
    return "legal positions from play and few-men endgames (terminal ones included); for each: both perspectives on the position and on its mirror image (ranks flipped, colours, side to move, castling rights and en-passant square swapped); spec: white = -black and mirror equality, exactly"


def ray_mask(sq_, dirs):
    m = 0
    f0, r0 = sq_ % 8, sq_ // 8
    for df, dr in dirs:
        f, r = f0 + df, r0 + dr
        while 0 <= f + df <= 7 and 0 <= r + dr <= 7:
            m |= 1 << (r * 8 + f)
            f, r = f + df, r + dr
    return m


ROOK_D = [(0, 1), (0, -1), (1, 0), (-1, 0)]
BISH_D = [(1, 1), (1, -1), (-1, 1), (-1, -1)]


def subsets(mask):
    s = 0
    while True:
        yield s
        s = (s - mask) & mask
        if s == 0:
            break


def c09(res, tier, seed, deep):
    rnd = random.Random(seed)
    reqs = []
    for k in ("n", "k", "pw", "pb"):
        for s in range(64):
            reqs.append(f"leaper {k} {s}")
    for s in range(64):
        rm, bm = ray_mask(s, ROOK_D), ray_mask(s, BISH_D)
        if tier == "thorough":
            for kind, mask in (("r", rm), ("b", bm)):
                for sub in subsets(mask):
                    reqs.append(f"slider {kind} {s} {sub | (rnd.getrandbits(64) & ~mask if sub % 3 == 0 else 0)}")
        cnt = 400 if tier == "thorough" else (60 if deep else 12)
        for _ in range(cnt):
            for kind, mask in (("r", rm), ("b", bm), ("q", rm | bm)):
                occ = rnd.getrandbits(64)
                mode = rnd.randrange(4)
                if mode == 0:
                    occ &= rnd.getrandbits(64)
                elif mode == 1:
                    occ &= mask
                elif mode == 2:
                    occ = (occ & mask) | (rnd.getrandbits(64) & rnd.getrandbits(64) & ~mask)
                reqs.append(f"slider {kind} {s} {occ}")
        for kind in ("r", "b", "q"):
            reqs.append(f"slider {kind} {s} 0")
            reqs.append(f"slider {kind} {s} {(1 << 64) - 1}")
    for i in range(0, len(reqs), 200000):
        wee.compare_batch(res, reqs[i:i + 200000], SPEC_VIEWS)
    res.exhaustive = tier == "thorough"
    return "all 4x64 leaper tables; per square and slider kind: random occupancies (dense, sparse, on-mask only, on-mask plus off-ray noise), empty and full boards; thorough: every subset of every rook and bishop relevance mask (all 107648 table slots) with off-ray noise on a third of them"


def random_placement(rnd):
    """arbitrary (not necessarily legal) placement as canonical FEN"""
    cells = [None] * 64
    for _ in range(rnd.randrange(2, 28)):
        cells[rnd.randrange(64)] = rnd.choice("PNBRQKpnbrqk")
    rows = []
    for r in range(7, -1, -1):
        row, run = "", 0
        for f in range(8):
            c = cells[r * 8 + f]
            if c is None:
                run += 1
            else:
                row += (str(run) if run else "") + c
                run = 0
        rows.append(row + (str(run) if run else ""))
    return "/".join(rows) + f" {rnd.choice('wb')} - - 0 1"


def c10(res, tier, seed, deep):
    n = 15000 if tier == "thorough" else (4000 if deep else 1000)
    rnd = random.Random(seed)
    fens = positions(seed + 3, n)
    fens += [random_placement(rnd) for _ in range(n // 2)]
    reqs = []
    letters = "aApPcCs"
    for f in fens:
        order = list(letters) + [rnd.choice(letters) for _ in range(3)]
        rnd.shuffle(order)
        for _ in range(rnd.randrange(0, 4)):
            order.insert(rnd.randrange(len(order) + 1), "k")
        reqs.append(f"attacks {''.join(order)} {f}")
    wee.compare_batch(res, reqs, SPEC_VIEWS)
    return "legal positions (as C01) and arbitrary placements; per position a random order of the seven queries (all/pawn attacks and check for both colours, State::is_check) with repeats and clones of the position object interleaved; distinct = distinct request lines"


def rights_variants(fen, rnd):
    parts = fen.split(" ")
    if parts[2] == "-":
        return [fen]
    out = []
    letters = parts[2]
    for mask in range(1 << len(letters)):
        sub = "".join(ch for i, ch in enumerate(letters) if mask >> i & 1) or "-"
        out.append(" ".join(parts[:2] + [sub] + parts[3:]))
    return out


def c11(res, tier, seed, deep):
    n = 20000 if tier == "thorough" else (5000 if deep else 1500)
    rnd = random.Random(seed)
    fens = positions(seed + 5, n)
    extra = []
    for f in fens[:400]:
        extra += rights_variants(f, rnd)
    for f in fens[:300]:
        p = f.split(" ")
        for h, fm in ((0, 1), (99, 50), (2 ** 64 - 1, 2 ** 64 - 1), (2 ** 63, 12345678901234567890 % 2 ** 64), (100, 2 ** 32)):
            extra.append(" ".join(p[:4] + [str(h), str(fm)]))
    allf = fens + extra
    reqs = [f"fen {hexs(f)}" for f in allf]
    wee.compare_batch(res, reqs, SPEC_VIEWS)
    # same position ⇒ same moves: parse∘write is the identity on FEN text, so moves/hash/eval agree
    # trivially through the same parser; checked explicitly on a sample through `moves`
    return "canonical FEN of positions reached by play (spec writer, independent of the code), all subsets of the castling rights held, en-passant squares on both ranks (from play), extreme counters up to 2^64-1; the spec accepts exactly canonical strings and demands character-for-character reproduction"


def c12(res, tier, seed, deep):
    n = 2500 if tier == "thorough" else (600 if deep else 150)
    fens = positions(seed + 7, n)
    rc, out, err = wee.run([wee.DRIVER, "sanreqs"], input_text="\n".join(fens) + "\n", timeout=3600)
    reqs = [l for l in out.split("\n") if l.strip()]
    bad = [r for r in reqs if " MISSING " in r]
    if bad:
        res.broken.append("spec move without model counterpart: " + bad[0][:200])
        reqs = [r for r in reqs if " MISSING " not in r]
    wee.compare_batch(res, reqs, SPEC_VIEWS, nontrivial=lambda r, i: True)
    neg = sum(1 for r in reqs if r.startswith("sanmatch") and r.split(" ")[2] == "-")
    res.tags["negative_cases"] = neg
    res.tags["lan_cases"] = sum(1 for r in reqs if r.startswith("lan"))
    return "for every legal move of every generated position: every admissible SAN spelling from the independent SAN writer (4 disambiguations x promotion suffix forms x optional check marks, castles) must select exactly that move (first match and filter); every pseudo-legal-but-illegal move, fully disambiguated, must select nothing; LAN text of every legal move"


def mutate_fen(f, rnd):
    parts = f.split(" ")
    m = rnd.randrange(14)
    if m == 0:
        parts = parts[:rnd.randrange(1, 6)]
    elif m == 1:
        parts.insert(rnd.randrange(7), rnd.choice(["x", "-", "w", "0", ""]))
    elif m == 2:
        rows = parts[0].split("/")
        rows[rnd.randrange(8)] = "8" * rnd.choice([2, 4, 31, 32, 33, 40, 64])
        parts[0] = "/".join(rows)
    elif m == 3:
        rows = parts[0].split("/")
        rows[rnd.randrange(8)] += rnd.choice(["PPPPPPPPP", "9", "0", "k" * 70, "1" * 300])
        parts[0] = "/".join(rows)
    elif m == 4:
        parts[4] = rnd.choice(["99999999999999999999", "18446744073709551616", "-1", "+1", "٣", "１", "0x10", ""])
    elif m == 5:
        parts[5] = rnd.choice(["99999999999999999999999", "１２", "1e3", " "])
    elif m == 6:
        parts[3] = rnd.choice(["a9", "i3", "e", "e33", "é3", "a0", "h8"])
    elif m == 7:
        parts[2] = rnd.choice(["KQkqK", "|", "K|q", "--", "kK", "-K", "QQQQ", ""])
    elif m == 8:
        parts[1] = rnd.choice(["|", "W", "wb", ""])
    elif m == 9:
        s = " ".join(parts)
        i = rnd.randrange(len(s) + 1)
        return s[:i] + rnd.choice([" ", " ", "\t", "\n", "é", "\U0001F600", "٣", "\x00"]) + s[i:]
    elif m == 10:
        return rnd.choice([" ", "　", "\t", " "]).join(parts)
    elif m == 11:
        rows = parts[0].split("/")
        rows = rows[:rnd.randrange(1, 8)] + (["8"] * rnd.choice([0, 3, 9]))
        parts[0] = "/".join(rows)
    elif m == 12:
        s = " ".join(parts)
        return s + rnd.choice([" ", "\n", " 1", "/"])
    else:
        s = list(" ".join(parts))
        for _ in range(rnd.randrange(1, 4)):
            s[rnd.randrange(len(s))] = chr(rnd.choice([rnd.randrange(32, 127), rnd.randrange(128, 0x2100)]))
        return "".join(s)
    return " ".join(parts)


def random_text(rnd, alphabet, n):
    return "".join(rnd.choice(alphabet) for _ in range(n))


SAN_ALPHA = "abcdefgh12345678KQRBNPOx=+#-o09iZ é "


def c14_parsers(res, tier, seed, deep, harness=None, profile="d"):
    n = 60000 if tier == "thorough" else (12000 if deep else 4000)
    rnd = random.Random(seed)
    fens = positions(seed + 9, 400)
    strings = []
    for _ in range(n):
        strings.append(mutate_fen(rnd.choice(fens), rnd))
    # regression inputs of known defects
    strings.append("8/8/8/8/8/8/8/" + "8" * 32 + " w - - 0 1")
    strings.append("/".join(["8" * 32] * 8) + " w - - 0 1")
    reqs = [f"fen {hexs(s)} {profile}" for s in strings]
    sans = []
    for _ in range(n):
        k = rnd.randrange(4)
        if k == 0:
            sans.append(random_text(rnd, SAN_ALPHA, rnd.randrange(0, 9)))
        elif k == 1:
            base = rnd.choice(["e4", "Nf3", "exd5", "O-O", "O-O-O", "e8=Q", "Rad1", "Qh4xe1+", "bxa8=N#", "R1a3"])
            i = rnd.randrange(len(base) + 1)
            sans.append(base[:i] + rnd.choice(SAN_ALPHA) + base[i:])
        elif k == 2:
            sans.append(random_text(rnd, [chr(c) for c in range(1, 0x250)], rnd.randrange(1, 6)))
        else:
            sans.append(rnd.choice(["", "+", "#", "=", "x", "O-O-O-O", "Z9", "e9", "i4", "Q=Q=Q", "♔e4", "e4♔"]))
    reqs += [f"san {hexs(s)}" for s in sans]
    views = {"fen": sv_nopanic, "san": sv_nopanic}
    impl, rc, err = wee.run_lines(harness or wee.harness_path(), reqs)
    drv, rc2, err2 = wee.run_driver(reqs)
    if len(impl) != len(reqs):
        res.broken.append(f"harness died/hung: {len(impl)} answers for {len(reqs)} requests")
        impl += ["<no-output>"] * (len(reqs) - len(impl))
    for req, i, (m, s) in zip(reqs, impl, drv):
        # spec: never panics
        res.add(req, i, m, "nopanic", views[req.split(" ")[0]], nontrivial=(i != "err"))
        res.tag("impl_" + i.split(" ")[0])
    return "FEN strings: 14 mutation operators over canonical FENs of generated positions (field count, over-long ranks incl. 32x'8', digit floods, 20+ digit and non-ASCII counters, Unicode spaces, multi-byte characters at random offsets, random replacements); SAN strings: random over a SAN alphabet, single-character insertions into valid tokens, random Unicode; spec = no panic; non-trivial = accepted by the parser"


def tt_ops(rnd, tables, buckets, nops):
    ops = []
    span = tables * buckets
    keys = []
    for _ in range(nops):
        r = rnd.random()
        if keys and r < 0.35:
            k = rnd.choice(keys)
        elif r < 0.7:
            # bucket-aligned collisions
            base = rnd.randrange(span) if not keys else rnd.choice(keys) % span
            k = base + span * rnd.randrange(0, 40)
        elif r < 0.8:
            k = rnd.getrandbits(64)
        else:
            k = rnd.randrange(0, 3 * span + 5)
        keys.append(k)
        x = rnd.random()
        if x < 0.55:
            ops.append(f"i:{k}:{rnd.randrange(3)}:{rnd.getrandbits(29)}:{rnd.randrange(8)}:{rnd.randrange(8, 20)}:{rnd.randrange(-20000, 20000)}")
        elif x < 0.93:
            ops.append(f"f:{k}")
        else:
            ops.append("n")
    ops.append("n")
    return ops


def c15(res, tier, seed, deep):
    rnd = random.Random(seed)
    n = 6000 if tier == "thorough" else (1500 if deep else 400)
    reqs = []
    shapes = [(1, 1), (1, 2), (2, 1), (2, 2), (3, 1), (1, 3), (2, 3), (4, 4), (8, 16), (3, 5)]
    for i in range(n):
        t, b = shapes[i % len(shapes)] if i % 3 else (rnd.randrange(1, 6), rnd.randrange(1, 6))
        reqs.append(f"tt {t} {b} " + " ".join(tt_ops(rnd, t, b, rnd.choice([5, 20, 60, 150]))))
    impl, rc, err = wee.run_lines(wee.harness_path(), reqs)
    drv, rc2, err2 = wee.run_driver(reqs)
    if len(impl) != len(reqs):
        res.broken.append("harness died on tt requests")
        impl += ["<no-output>"] * (len(reqs) - len(impl))
    for req, i, (m, s) in zip(reqs, impl, drv):
        ok = tt_spec_ok(i, s)
        res.add(req, i, m, "spec-ok", (lambda x, ok=ok: "spec-ok" if ok else "spec-violated"),
                nontrivial=("may=" in s))
        if " may=" in s:
            res.tag("bucket_overflowed")
    # real threads: replay the ticket-ordered log on the model
    runs = 60 if tier == "thorough" else (20 if deep else 8)
    creqs = []
    for i in range(runs):
        t, b = rnd.choice([(1, 1), (1, 2), (2, 2), (3, 2), (2, 4)])
        th = rnd.choice([2, 4, 8, 16, 32])
        creqs.append(f"ttconc {t} {b} {th} {rnd.choice([50, 200, 600])} {rnd.getrandbits(32)} {rnd.choice([6, 24, 100])}")
    cout, rc, err = wee.run_lines(wee.harness_path(), creqs)
    replay_reqs, expected = [], []
    for req, o in zip(creqs, cout):
        toks = o.split(" ")
        p = req.split(" ")
        ops, exp = [], []
        for tk in toks[1:]:
            m = re.fullmatch(r"(\d+)i:(.*)", tk)
            if m:
                ops.append("i:" + m.group(2))
                exp.append("i")
                continue
            m = re.fullmatch(r"(\d+)f:(\d+)=(.*)", tk)
            if m:
                ops.append("f:" + m.group(2))
                exp.append(m.group(3))
        ops.append("n")
        exp.append(toks[0])
        replay_reqs.append(f"tt {p[1]} {p[2]} " + " ".join(ops))
        expected.append(" ".join(exp))
    drv, rc2, err2 = wee.run_driver(replay_reqs)
    for creq, rreq, e, (m, s) in zip(creqs, replay_reqs, expected, drv):
        ok = tt_spec_ok(e, s)
        res.add(creq + " => " + rreq[:400], e, m, "spec-ok", (lambda x, ok=ok: "spec-ok" if ok else "spec-violated"))
        res.tag("concurrent_runs")
    return "sequential op sequences over 10 fixed tiny shapes and random shapes, keys drawn to collide in table and bucket (k = base + tables*buckets*j), repeated keys, random 64-bit keys; finds compared with the abstract history (must return latest when the bucket never saw more than 8 distinct keys, else latest-or-nothing) and exactly with the Lean model; concurrent: 2-32 real threads on tiny tables, the ticket-ordered operation log recorded inside the critical sections is replayed on the model and every logged result compared; non-trivial = some bucket overflowed"


def c20(res, tier, seed, deep):
    rnd = random.Random(seed)
    reqs = [f"mv castle {c} {s}" for c in "wb" for s in "KQ"]
    combos = []
    if tier == "thorough":
        for c in "wb":
            for p in range(1, 7):
                for o in range(64):
                    for d in range(64):
                        combos.append((c, p, o, d))
        for (c, p, o, d) in combos:
            cap, pr = rnd.randrange(1, 6), rnd.randrange(2, 6)
            reqs.append(f"mv move {c} {p} {o} {d} 0 0")
            reqs.append(f"mv cap {c} {p} {o} {d} {cap} 0")
            reqs.append(f"mv promo {c} {p} {o} {d} 0 {pr}")
            reqs.append(f"mv cappromo {c} {p} {o} {d} {cap} {pr}")
            if p == 1:
                reqs.append(f"mv ep {c} {p} {o} {d} 0 0")
        # every capture x promotion combination on a grid of squares
        for c in "wb":
            for p in range(1, 7):
                for cap in range(1, 6):
                    for pr in range(2, 6):
                        for o in (0, 7, 8, 27, 55, 56, 63):
                            for d in (0, 1, 9, 36, 62, 63):
                                reqs.append(f"mv cappromo {c} {p} {o} {d} {cap} {pr}")
    else:
        n = 60000 if deep else 15000
        for _ in range(n):
            c, p, o, d = rnd.choice("wb"), rnd.randrange(1, 7), rnd.randrange(64), rnd.randrange(64)
            if rnd.random() < 0.2:
                o, d = rnd.choice([0, 7, 56, 63, 8, 48]), rnd.choice([0, 7, 56, 63, 16, 24, 32, 40])
            kind = rnd.choice(["move", "cap", "promo", "cappromo", "ep"])
            reqs.append(f"mv {kind} {c} {p} {o} {d} {rnd.randrange(1, 6)} {rnd.randrange(2, 6)}")
    for i in range(0, len(reqs), 250000):
        chunk = reqs[i:i + 250000]
        impl, rc, err = wee.run_lines(wee.harness_path(), chunk)
        drv, rc2, err2 = wee.run_driver(chunk)
        if len(impl) != len(chunk):
            res.broken.append("harness died on mv requests")
            impl += ["<no-output>"] * (len(chunk) - len(impl))
        for req, o, (m, s) in zip(chunk, impl, drv):
            parts = o.split(" ")
            good = len(parts) == 12 and parts[11] == "back=" + parts[0] and cbor_ok(parts[10], parts[0])
            res.add(req, o, m, s, (lambda x, good=good: sv_mv(x) if good else "serialisation-roundtrip-failed"))
    # equality ⇔ attribute equality on a sample: distinct attribute tuples must give distinct raws
    res.exhaustive = tier == "thorough"
    return "constructor calls with colour, piece, origin, destination, capture and promotion kinds (thorough: all 2x6x64x64 origin/destination combinations for every constructor with rotating capture/promotion kinds plus every capture x promotion pair on a square grid, and the 4 castling moves); each answer = raw, all accessors, real ciborium bytes and the decoded raw; spec = the attributes passed in"


def cbor_ok(tok, raw):
    try:
        b = bytes.fromhex(tok.split("=", 1)[1])
        v = int(raw)
        if b[0] < 24:
            return len(b) == 1 and b[0] == v
        n = {0x18: 1, 0x19: 2, 0x1a: 4, 0x1b: 8}.get(b[0])
        return n is not None and len(b) == 1 + n and int.from_bytes(b[1:], "big") == v
    except Exception:
        return False


CHECKS = {
    "C01": (c01, ["movegen", "moves", "state", "board", "attacks", "common"]),
    "C02": (c02, ["state", "moves", "board", "movegen"]),
    "C05": (c05, ["eval", "eval_squares", "eval_worths", "eval_edge", "eval_pawns", "board"]),
    "C13": (c13, ["eval", "eval_squares", "eval_worths", "eval_edge", "eval_pawns"]),
    "C08": (c08, ["hasher", "state", "board"]),
    "C09": (c09, ["attacks", "common", "board"]),
    "C10": (c10, ["board", "state", "attacks"]),
    "C11": (c11, ["notation", "board", "state"]),
    "C12": (c12, ["notation", "moves", "corebook"]),
    "C14": (c14_parsers, ["notation", "board", "uci"]),
    "C15": (c15, ["searcher"]),
    "C20": (c20, ["moves", "piece", "board"]),
}


def run_check(pid, tier, seed, t0):
    res = wee.Result(pid)
    fn, files = CHECKS[pid]
    ok, msg, changed = wee.step_extract()
    if not ok:
        res.broken.append("tie(a) extractor: " + msg)
    reg = registry().get(pid, {"modules": [], "theorems": []})
    if reg["modules"]:
        proof = wee.prove(pid, reg)
    else:
        okd, outd = wee.lake_build(["weedriver"])
        proof = {"obligations": [], "discharged": [], "problems": ["no theorem registered"] + ([] if okd else ["driver build failed: " + outd[-400:]]), "checker_cmd": ""}
    okc, msgc = wee.cargo_build("debug")
    if not okc:
        res.broken.append("harness does not build against /repo: " + msgc[-500:])
        return wee.finish(pid, tier, seed, t0, res, proof, "build failed")
    fchanged = fingerprints_changed(files)
    deep = bool(changed) or bool(proof["problems"]) or bool(fchanged)
    if fchanged:
        wee.log(f"[{pid}] modelled source changed since the model was validated ({', '.join(fchanged)}): running the correspondence at greater depth")
    rule = fn(res, tier, seed, deep)
    extra = {"exhaustive": bool(getattr(res, "exhaustive", False)), "escalated": deep, "changed_sources": fchanged,
             "regenerated_modules": changed}
    return wee.finish(pid, tier, seed, t0, res, proof, rule, extra, assumptions=reg.get("assumptions", []))


def replay(pid, path):
    reqs = [l.split(": ", 1)[1].strip() for l in open(path) if l.startswith("request: ")]
    if not reqs:
        print(open(path).read())
        return 0
    wee.step_extract()
    wee.lake_build(["weedriver"])
    wee.cargo_build("debug")
    impl, _, _ = wee.run_lines(wee.harness_path(), [r.split(" => ")[0] for r in reqs])
    drv, _, _ = wee.run_driver([r.split(" => ")[0] for r in reqs])
    for r, i, (m, s) in zip(reqs, impl, drv):
        print(f"request: {r}\nimpl:    {i}\nmodel:   {m}\nspec:    {s}\n")
    return 0
