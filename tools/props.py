"""Per-property checks: theorem registry, request generators, spec views."""
import json
import os
import random
import re

import wee
from c16 import c16

VERIF = wee.VERIF

# ------------------------------------------------------------------------------------------------
# theorem registry: loaded from lean/props.json  {Cxx: {modules:[...], theorems:[...], partial:[...], files:[fingerprint names]}}

def registry():
    return json.load(open(os.path.join(VERIF, "lean", "props.json")))


def hexs(s):
    b = s.encode("utf-8")
    return b.hex() if b else "-"


def fingerprints_changed(names):
    """which of the modelled source files differ from the baseline the model was validated against"""
    try:
        cur = json.load(open(os.path.join(wee.BUILD, "fingerprints.json")))
        base = json.load(open(os.path.join(VERIF, "fingerprints.baseline.json")))
    except OSError:
        return []
    return [n for n in names if cur.get(n) != base.get(n)]


# ------------------------------------------------------------------------------------------------
# spec views (impl output → the form the spec prints)

def sv_moves(impl):
    toks = impl.split(" ")[1:]
    attrs = [t.split(":")[2] for t in toks if t.count(":") >= 2]
    return " ".join(sorted(attrs))


def sv_succ(impl):
    return " ".join(sorted(impl.split(" ")[1:]))


def sv_mv(impl):
    # "<raw> <attrs...> cbor=.. back=.."  → attrs only; raw/cbor/back consistency is checked separately
    parts = impl.split(" ")
    return " ".join(parts[1:10])


def sv_sanmatch(impl):
    if impl == "err" or impl == "ok first=- all=":
        return "nomatch"
    return impl


def sv_nopanic(impl):
    return "panic" if impl in ("panic", "<no-output>") else "nopanic"


def sv_tt(impl_and_spec):
    return impl_and_spec


SPEC_VIEWS = {"moves": sv_moves, "succ": sv_succ, "mv": sv_mv, "sanmatch": sv_sanmatch}


def tt_spec_ok(impl, spec):
    """impl tokens vs spec tokens `must=<e>` / `may=<e>` / `n<=a/b`"""
    it, st = impl.split(" "), spec.split(" ")
    if len(it) != len(st):
        return False
    for a, b in zip(it, st):
        if b == "i":
            if a != "i":
                return False
        elif b.startswith("must="):
            if a != b[5:]:
                return False
        elif b.startswith("may="):
            if a != "none" and a != b[4:]:
                return False
        elif b.startswith("n<="):
            m = re.fullmatch(r"n(\d+)/(\d+)", a)
            m2 = re.fullmatch(r"n<=(\d+)/(\d+)", b)
            if not m or not m2 or int(m.group(1)) > int(m2.group(1)) or m.group(2) != m2.group(2):
                return False
    return True


# ------------------------------------------------------------------------------------------------
# generators

def positions(seed, n):
    """generated legal positions (corpus first, then weighted random play); a quarter of them get other move counters
    (around the fifty-move mark, large, extreme): nothing but make-move and the FEN writer may read them"""
    fens = wee.driver_positions(seed, n)
    rnd = random.Random(seed * 7919 + 13)
    return [clock_variant(f, rnd) if rnd.random() < 0.25 else f for f in fens]


def clock_variant(f, rnd):
    p = f.split(" ")
    if len(p) != 6:
        return f
    p[4] = str(rnd.choice([0, 1, 7, 49, 50, 51, 98, 99, 100, 101, 149, 150, 1000, 2 ** 32, 2 ** 64 - 2]))
    p[5] = str(rnd.choice([1, 2, 30, 75, 76, 200, 5899, 2 ** 63]))
    return " ".join(p)


def ep_family():
    """systematic en-passant family: every capturing-pawn / victim pair (both colours), and for each of the three
    squares involved (capturer, victim, target) every line through it with the mover's king on one side and an enemy
    slider that moves along that line on the other, at every distance: capturer pinned across / ALONG the capture
    diagonal, victim pinned, both pawns leaving a rank (discovered check), check given by the double-stepped pawn ...
    Not filtered here; callers keep the LegalPos ones."""
    out = []
    def fen(cells, stm, ep):
        rows = []
        for r in range(7, -1, -1):
            row, run = "", 0
            for f in range(8):
                c = cells.get(r * 8 + f)
                if c is None:
                    run += 1
                else:
                    row += (str(run) if run else "") + c
                    run = 0
            rows.append(row + (str(run) if run else ""))
        return "/".join(rows) + f" {stm} - {'abcdefgh'[ep % 8]}{ep // 8 + 1} 0 1"
    dirs = [(1, 0), (0, 1), (1, 1), (1, -1)]
    for white in (True, False):
        r5 = 4 if white else 3
        r6 = 5 if white else 2
        me, opp = ("P", "p") if white else ("p", "P")
        myk, opk = ("K", "k") if white else ("k", "K")
        for vf in range(8):
            for cf in (vf - 1, vf + 1):
                if not 0 <= cf <= 7:
                    continue
                P, V, T = r5 * 8 + cf, r5 * 8 + vf, r6 * 8 + vf
                base = {P: me, V: opp}
                for centre in (P, V, T):
                    cf0, cr0 = centre % 8, centre // 8
                    for df, dr in dirs:
                        diag = df != 0 and dr != 0
                        for sgn in (1, -1):
                            for kd in range(1, 8):
                                kf, kr = cf0 + sgn * df * kd, cr0 + sgn * dr * kd
                                if not (0 <= kf <= 7 and 0 <= kr <= 7):
                                    break
                                ks = kr * 8 + kf
                                if ks in base or ks == T:
                                    continue
                                for sd in range(1, 8):
                                    sf, sr = cf0 - sgn * df * sd, cr0 - sgn * dr * sd
                                    if not (0 <= sf <= 7 and 0 <= sr <= 7):
                                        break
                                    ss = sr * 8 + sf
                                    if ss in base or ss == T or ss == ks:
                                        continue
                                    for sl in (("b" if diag else "r"), "q"):
                                        sl = sl if white else sl.upper()
                                        cells = dict(base)
                                        cells[ks] = myk
                                        cells[ss] = sl
                                        # enemy king far from everything
                                        for ek in (63, 56, 7, 0, 60, 4, 32, 39):
                                            if ek not in cells and ek != T and abs(ek % 8 - kf) + abs(ek // 8 - kr) > 2:
                                                cells[ek] = opk
                                                break
                                        out.append(fen(cells, "w" if white else "b", T))
                                        # the DISCOVERING variant: the ENEMY king on one side of the line, the MOVER's own
                                        # slider on the other — the capture (leaving P, removing V, landing on T) opens or
                                        # closes a line to the enemy king: discovered / double checks by en passant
                                        cells = dict(base)
                                        cells[ks] = opk
                                        cells[ss] = sl.swapcase()
                                        for mk in (63, 56, 7, 0, 60, 4, 32, 39):
                                            if mk not in cells and mk != T and abs(mk % 8 - kf) + abs(mk // 8 - kr) > 2:
                                                cells[mk] = myk
                                                break
                                        out.append(fen(cells, "w" if white else "b", T))
    return sorted(set(out))


def ep_double_family():
    """en-passant targets that can be captured from BOTH sides (and from one side, and from none), both colours, all files"""
    out = []
    for white in (True, False):
        r5 = 4 if white else 3
        r6 = 5 if white else 2
        me, opp = ("P", "p") if white else ("p", "P")
        myk, opk = ("K", "k") if white else ("k", "K")
        for vf in range(8):
            for left in (False, True):
                for right in (False, True):
                    if (left and vf == 0) or (right and vf == 7):
                        continue
                    for ks, eks in ((4, 60), (6, 62), (2, 58), (0, 63)):
                        if not white:
                            ks, eks = eks, ks
                        cells = {r5 * 8 + vf: opp, ks: myk, eks: opk}
                        if left:
                            cells[r5 * 8 + vf - 1] = me
                        if right:
                            cells[r5 * 8 + vf + 1] = me
                        rows = []
                        for r in range(7, -1, -1):
                            row, run = "", 0
                            for f in range(8):
                                c = cells.get(r * 8 + f)
                                if c is None:
                                    run += 1
                                else:
                                    row += (str(run) if run else "") + c
                                    run = 0
                            rows.append(row + (str(run) if run else ""))
                        out.append("/".join(rows) + f" {'w' if white else 'b'} - {'abcdefgh'[vf]}{r6 + 1} 0 1")
    return sorted(set(out))


_EP_LEGAL = None


def ep_family_legal():
    global _EP_LEGAL
    if _EP_LEGAL is None:
        fam = sorted(set(ep_family() + ep_double_family()))
        ans, _, _ = wee.run_driver(["legalpos " + f for f in fam], jobs=8)
        _EP_LEGAL = [f for f, (m, sp) in zip(fam, ans) if sp == "1"]
    return _EP_LEGAL


def heavy_positions():
    """corpus/heavy_positions.txt: legal positions with very many legal moves (queen-rich, up to 218; tools/gen_heavy.py)"""
    try:
        return [l.strip() for l in open(os.path.join(VERIF, "corpus", "heavy_positions.txt")) if l.strip()]
    except OSError:
        return []


def model_moves(fens):
    """[(fen, [(lan, raw, attrs)])] from the Lean model"""
    outs, rc, err = wee.run_driver(["moves " + f for f in fens])
    res = []
    for f, (m, s) in zip(fens, outs):
        toks = [t.split(":") for t in m.split(" ")[1:] if t.count(":") >= 2]
        res.append((f, [(t[0], int(t[1]), t[2].split(",")) for t in toks]))
    return res


def sq(name):
    return (ord(name[0]) - 97) + 8 * (int(name[1]) - 1)


def cli_perft(res, fens, depth):
    """`weechess perft --fen F --depth d` (the real process, observe_at of C01): per first move the successor FEN and its
    leaf count, and the total — against the model's successors (`succ`), `perft d-1` of each and `perft d`"""
    import subprocess
    exe, msg = wee.build_weechess()
    if exe is None:
        res.broken.append("weechess binary does not build: " + msg[-300:])
        return
    succ, _, _ = wee.run_driver(["succ " + f for f in fens], jobs=4)
    tot, _, _ = wee.run_driver([f"perft {depth} {f}" for f in fens], jobs=4)
    for f, (ms, _), (mt, _) in zip(fens, succ, tot):
        want = [x.replace("_", " ") for x in ms.split(" ")[1:]]
        sub, _, _ = wee.run_driver([f"perft {depth - 1} {x}" for x in want], jobs=4) if want else ([], 0, "")
        model = " ".join(sorted(f"{x.replace(' ', '_')}={m}" for x, (m, _) in zip(want, sub))) + f" total={mt}"
        try:
            out = subprocess.run([exe, "perft", "--fen", f, "--depth", str(depth)], capture_output=True, text=True, timeout=300)
            rows = re.findall(r"^\S+: (\d+) \[(.+)\]$", out.stdout, re.M)
            t = re.search(r"Total nodes: (\d+)", out.stdout)
            impl = " ".join(sorted(f"{x.replace(' ', '_')}={c}" for c, x in rows)) + f" total={t.group(1) if t else '?'}"
            if out.returncode != 0:
                impl = f"exit {out.returncode}: " + out.stderr[-200:]
        except subprocess.TimeoutExpired:
            impl = "<hang>"
        res.add(f"cli-perft {depth} {f}", impl, model, "-", None, nontrivial=bool(want))
        res.tag("cli_perft")


def c01(res, tier, seed, deep):
    n = 40000 if tier == "thorough" else (12000 if deep else 5000)
    fens = positions(seed, n)
    # extreme mobility first (up to 218 legal moves: buffers, counters and bit fields are at their limits there)
    hv = heavy_positions()
    epf = ep_family_legal()
    res.tags["ep_family"] = len(epf)
    if not (tier == "thorough" or deep):
        epf = random.Random(seed + 5).sample(epf, min(len(epf), 2500))
    hv = hv + epf
    fens = hv + fens
    res.tags["heavy_positions"] = len(hv) - len(epf)
    reqs = ["moves " + f for f in fens]
    rnd = random.Random(seed)
    for f in fens:
        x = rnd.random()
        if x < (0.2 if tier == "thorough" else 0.08):
            reqs.append("perft 2 " + f)
        if x < (0.03 if tier == "thorough" else 0.01):
            reqs.append("perft 3 " + f)
    # perft 3 on the sparse rule-coverage positions (stale flags only show after make-move inside the walk)
    for f in fens[len(hv):len(hv) + 80]:
        if sum(ch.isalpha() for ch in f.split(" ")[0]) <= 8:
            reqs.append("perft 3 " + f)
    # positions ONE PLY BEFORE A CHECKMATE (single check, double check, double check with a king that has no pseudo-legal
    # move: corpus/premate_positions.txt, classified by the solver): the walk meets every kind of terminal node as an inner
    # node, after siblings with moves
    try:
        pm = [l.strip() for l in open(os.path.join(VERIF, "corpus", "premate_positions.txt")) if l.strip()]
    except OSError:
        pm = []
    for f in (pm if (tier == "thorough" or deep) else rnd.sample(pm, min(len(pm), 40))):
        reqs.append("perft 2 " + f)
        reqs.append("perft 3 " + f)
    res.tags["premate_positions"] = len(pm)
    # published perft counts (chessprogramming wiki) as fixed regression inputs
    reqs += ["perft 3 rnbqkbnr/pppppppp/8/8/8/8/PPPPPPPP/RNBQKBNR w KQkq - 0 1",
             "perft 3 r3k2r/p1ppqpb1/bn2pnp1/3PN3/1p2P3/2N2Q1p/PPPBBPPP/R3K2R w KQkq - 0 1",
             "perft 4 8/2p5/3p4/KP5r/1R3p1k/8/4P1P1/8 w - - 0 1"]
    if tier == "thorough":
        reqs += ["perft 4 rnbqkbnr/pppppppp/8/8/8/8/PPPPPPPP/RNBQKBNR w KQkq - 0 1",
                 "perft 4 r3k2r/Pppp1ppp/1b3nbN/nP6/BBP1P3/q4N2/Pp1P2PP/R2Q1RK1 w kq - 0 1"]
    wee.compare_batch(res, reqs, SPEC_VIEWS, nontrivial=lambda r, i: not i.startswith("0"))
    cli_perft(res, rnd.sample(fens[:400], 30 if tier == "thorough" else (12 if deep else 6)) +
              ["r3k2r/p1ppqpb1/bn2pnp1/3PN3/1p2P3/2N2Q1p/PPPBBPPP/R3K2R w KQkq - 0 1"], 3 if tier == "thorough" else 2)
    return "positions: corpus of rule-coverage FENs + weighted random legal play (Lean spec generator, seed-derived); non-trivial = position has at least one legal move; distinct = distinct request lines"


def c02(res, tier, seed, deep):
    n = 20000 if tier == "thorough" else (6000 if deep else 2500)
    epf = ep_family_legal()
    if not (tier == "thorough" or deep):
        epf = random.Random(seed + 6).sample(epf, min(len(epf), 1500))
    fens = heavy_positions() + epf + positions(seed + 17, n)
    rnd = random.Random(seed)
    reqs = ["succ " + f for f in fens]
    mm = model_moves(fens)
    for f, ms in mm:
        take = ms if rnd.random() < 0.5 else rnd.sample(ms, min(len(ms), 6))
        for lan, raw, attrs in take:
            promo = attrs[5]
            reqs.append(f"coords {sq(lan[0:2])} {sq(lan[2:4])} {promo if promo != '0' else '-'} {f}")
            if rnd.random() < 0.5:
                reqs.append(f"apply {raw} {f}")
            if promo != "0" and rnd.random() < 0.5:
                # promotion without a letter: ambiguous by design
                reqs.append(f"coords {sq(lan[0:2])} {sq(lan[2:4])} - {f}")
        # coordinates that denote no legal move
        for _ in range(3):
            a, b = rnd.randrange(64), rnd.randrange(64)
            reqs.append(f"coords {a} {b} - {f}")
        # origin of a real move, wrong destination
        if ms:
            lan = rnd.choice(ms)[0]
            reqs.append(f"coords {sq(lan[0:2])} {rnd.randrange(64)} - {f}")
    wee.compare_batch(res, reqs, SPEC_VIEWS, nontrivial=lambda r, i: not i.startswith("0") and "err unknown" not in i)
    return "positions as C01; per position: all successors as FEN, coordinate triples of (sampled) legal moves, promotion with and without letter, random and near-miss illegal coordinates, raw make-move; non-trivial = request resolved to a move"


def expand_succ(fens, rounds=1):
    """successor FENs (model) of the given positions"""
    outs, rc, err = wee.run_driver(["succ " + f for f in fens])
    res = []
    for m, s in outs:
        res += [t.replace("_", " ") for t in m.split(" ")[1:]]
    return res


def c08(res, tier, seed, deep):
    n = 6000 if tier == "thorough" else (1500 if deep else 500)
    rnd = random.Random(seed)
    base = positions(seed + 11, n)
    fens = list(base)
    # transpositions: all positions two and three plies below a sample (a-then-b vs b-then-a, and
    # pieces going out and back)
    lvl1 = expand_succ(rnd.sample(base, min(len(base), 25 if tier == "quick" else 120)))
    lvl2 = expand_succ(rnd.sample(lvl1, min(len(lvl1), 60 if tier == "quick" else 400)))
    lvl3 = expand_succ(rnd.sample(lvl2, min(len(lvl2), 80 if tier == "quick" else 500)))
    fens += lvl1 + lvl2 + lvl3
    # en-passant availability is part of the key: the systematic families (target capturable from both sides, one side,
    # not at all; pins and discovered lines) — each with its "target dropped" variant below
    epd = ep_double_family()
    epl = ep_family_legal()
    fens += epd + random.Random(seed + 4).sample(epl, min(len(epl), 3000 if tier == "thorough" else (1000 if deep else 300)))
    res.tags["ep_double_family"] = len(epd)
    # one-component variants: counters (must not matter), rights subsets, ep target dropped, side swapped
    var = []
    for f in epd + rnd.sample(fens, min(len(fens), n)):
        p = f.split(" ")
        var.append(" ".join(p[:4] + [str(rnd.randrange(100)), str(rnd.randrange(1, 300))]))
        var += rights_variants(f, rnd)
        if p[3] != "-":
            var.append(" ".join(p[:3] + ["-"] + p[4:]))
        var.append(" ".join([p[0], "b" if p[1] == "w" else "w"] + p[2:3] + ["-"] + p[4:]))
    fens += var
    # TRADES of a non-placement component for a man on the square that component is about: the en-passant target dropped and a
    # pawn (either colour) put on the target square, or the double-stepped pawn removed; a castling right dropped and the
    # rook of that corner removed, or a rook put on an empty corner without the right.  A key table shared between two kinds
    # of feature (en-passant key = the key of a pawn on that square, castling key = the corner rook's key) makes exactly
    # such a pair collide, for every seed, while every one-component variant still separates
    def cells_of(board):
        cells = {}
        for r, row in enumerate(board.split("/")):
            f = 0
            for ch in row:
                if ch.isdigit():
                    f += int(ch)
                else:
                    cells[(7 - r) * 8 + f] = ch
                    f += 1
        return cells
    def board_of(cells):
        rows = []
        for r in range(7, -1, -1):
            row, run = "", 0
            for f in range(8):
                c = cells.get(r * 8 + f)
                if c is None:
                    run += 1
                else:
                    row += (str(run) if run else "") + c
                    run = 0
            rows.append(row + (str(run) if run else ""))
        return "/".join(rows)
    trades = []
    for f in epd + rnd.sample(epl, min(len(epl), 400)) + rnd.sample(base, min(len(base), 300)):
        p = f.split(" ")
        cells = cells_of(p[0])
        if p[3] != "-":
            t = sq(p[3])
            victim = t - 8 if p[1] == "w" else t + 8
            for ch in "pP":
                c2 = dict(cells)
                c2[t] = ch
                trades.append(" ".join([board_of(c2), p[1], p[2], "-"] + p[4:]))
            c2 = dict(cells)
            c2.pop(victim, None)
            trades.append(" ".join([board_of(c2), p[1], p[2], "-"] + p[4:]))
        for letter, corner, rook in (("K", 7, "R"), ("Q", 0, "R"), ("k", 63, "r"), ("q", 56, "r")):
            if letter in p[2]:
                c2 = dict(cells)
                c2.pop(corner, None)
                trades.append(" ".join([board_of(c2), p[1], p[2].replace(letter, "") or "-", p[3]] + p[4:]))
            elif corner not in cells:
                c2 = dict(cells)
                c2[corner] = rook
                trades.append(" ".join([board_of(c2), p[1], p[2], p[3]] + p[4:]))
    res.tags["component_trade_variants"] = len(trades)
    fens += trades
    # the full PRODUCT of the non-placement components on one placement: kings and rooks at home, a capturable en-passant target
    # on each file for each side — all 16 subsets of the rights × target present / absent (32 positions with the same placement and
    # side to move): a key table indexed by a packed (side, rights, ep) tuple with a wrong stride aliases two of these and nothing else
    prod = []
    for white in (True, False):
        for f in range(8):
            for g in (f - 1, f + 1):
                if not 0 <= g <= 7:
                    continue
                cells = {4: "K", 0: "R", 7: "R", 60: "k", 56: "r", 63: "r"}
                r5 = 4 if white else 3
                cells[r5 * 8 + f] = "p" if white else "P"
                cells[r5 * 8 + g] = "P" if white else "p"
                b = board_of(cells)
                ep = "abcdefgh"[f] + ("6" if white else "3")
                for mask in range(16):
                    rights = "".join(ch for i, ch in enumerate("KQkq") if mask >> i & 1) or "-"
                    for e in (ep, "-"):
                        prod.append(f"{b} {'w' if white else 'b'} {rights} {e} 0 1")
                break
    res.tags["rights_x_ep_product"] = len(prod)
    fens += prod
    # hash (and evaluation) of successor OBJECTS built by make-move, never re-read from FEN (anything cached or updated
    # incrementally inside the position object would show here and nowhere else): every legal move of a sample
    oreqs = [f"objafter {rnd.choice([0, seed])} {f}" for f in epd + rnd.sample(base, min(len(base), 400 if tier == "thorough" else 120))]
    wee.compare_batch(res, oreqs, SPEC_VIEWS)
    seeds = [0, seed, rnd.getrandbits(64)]
    viol_before = len(res.violations)
    for sd in seeds:
        reqs = [f"hash {sd} {f}" for f in fens]
        impl, rc, err = wee.run_lines(wee.harness_path(), reqs)
        drv, rc2, err2 = wee.run_driver(reqs)
        if len(impl) != len(reqs):
            res.broken.append("harness died on hash requests")
            impl += ["<no-output>"] * (len(reqs) - len(impl))
        by_key, by_hash = {}, {}
        for req, i, (m, s) in zip(reqs, impl, drv):
            if s != "-":
                by_key.setdefault(s, {}).setdefault(i, req)
                by_hash.setdefault(i, {}).setdefault(s, req)
        for req, i, (m, s) in zip(reqs, impl, drv):
            ok = True
            note = "consistent"
            if s != "-":
                if len(by_key[s]) > 1:
                    ok = False
                    other = [r for h, r in by_key[s].items() if h != i][0]
                    note = "same key, different hash than: " + other
                elif len(by_hash[i]) > 1:
                    ok = False
                    other = [r for k, r in by_hash[i].items() if k != s][0]
                    note = "different key, same hash as: " + other
            res.add(req, i, m, "consistent" if s != "-" else "-", (lambda x, note=note: note),
                    nontrivial=(s != "-" and len(by_key.get(s, {})) >= 1))
        res.tags["keys_with_several_positions"] = sum(1 for k, v in by_key.items() if sum(1 for _ in v) >= 1)
    res.tags["positions_per_seed"] = len(fens)
    return "positions from play plus all positions 1-3 plies below a sample (transposing move orders), and one-component variants (counters, every subset of the castling rights, en-passant target dropped, side swapped; component trades: ep target ↔ a pawn on the target square / the double-stepped pawn removed, castling right ↔ the corner rook; only legal variants count); for 3 hasher seeds every pair is checked: equal rule-relevant key <=> equal hash; and the hash is compared with the Lean model drawing its keys from the ChaCha8 model"


def mirror_fen(f):
    p = f.split(" ")
    rows = p[0].split("/")[::-1]
    board = "/".join("".join(ch.lower() if ch.isupper() else ch.upper() for ch in r) for r in rows)
    side = "b" if p[1] == "w" else "w"
    rights = "".join(ch.lower() if ch.isupper() else ch.upper() for ch in p[2]) if p[2] != "-" else "-"
    if rights != "-":
        rights = "".join(ch for ch in "KQkq" if ch in rights)
    ep = "-" if p[3] == "-" else p[3][0] + str(9 - int(p[3][1]))
    return " ".join([board, side, rights, ep] + p[4:])


def sv_eval(impl):
    try:
        v = int(impl)
    except ValueError:
        return impl
    return "N" if -10000 < v < 10000 else f"T{v}"


def kxk_positions(rnd, n):
    """endgame placements with few men (legal ones are selected by the spec): mates and stalemates
    are frequent here, in particular checked kings on slider rays"""
    out = []
    for _ in range(n):
        men = rnd.choice(["KQk", "KRk", "KQkr", "KRRk", "KBNk", "KPk", "KQkp", "KRkb", "kqK", "krK", "kqKR", "KQQk", "KRkn", "KRPkp"])
        cells = {}
        edge_bias = rnd.random() < 0.6
        for ch in men:
            while True:
                sq = rnd.randrange(64)
                if ch in "kK" and edge_bias and rnd.random() < 0.8:
                    sq = rnd.choice([0, 1, 2, 5, 6, 7, 8, 15, 16, 23, 40, 47, 48, 55, 56, 57, 58, 61, 62, 63, 3, 4, 59, 60, 24, 31, 32, 39])
                if sq not in cells and not (ch in "pP" and sq // 8 in (0, 7)):
                    cells[sq] = ch
                    break
        rows = []
        for r in range(7, -1, -1):
            row, run = "", 0
            for f in range(8):
                c = cells.get(r * 8 + f)
                if c is None:
                    run += 1
                else:
                    row += (str(run) if run else "") + c
                    run = 0
            rows.append(row + (str(run) if run else ""))
        out.append("/".join(rows) + f" {rnd.choice('wb')} - - 0 1")
    return out


OVER_MATERIAL = ["6nk/6pp/8/8/8/8/QQQQQQQQ/KQQQQQQQ b - - 0 1", "6nk/6pp/8/8/8/8/QQQQQQQQ/KQQQQQQQ w - - 0 1",
                 "7k/6pp/NNNNN3/NNNNNNNN/NNNNNNNN/NNNNNNNN/NNNNNNNN/K1NNNNNN b - - 0 1",
                 "1QQQQQQQ/QQQQQQQQ/8/8/8/8/6pp/K5nk w - - 0 1", "8/8/2Q1QQ2/2Q1QQ2/2Q1QQ2/2Q1Q3/8/3k2K1 w - - 0 1",
                 "8/1R6/2QB4/2Q1QQ2/2Q1QQ2/2Q1Q3/8/3k2K1 w - - 0 1", "3K2k1/8/2q1q3/2q1qq2/2q1qq2/2q1qq2/8/8 b - - 0 1"]


def vary_clocks(f, rnd):
    """the same position with other move counters (what the rules of C05/C13 and the hash ignore): small, around the
    fifty-move mark, huge"""
    p = f.split(" ")
    if len(p) != 6 or rnd.random() < 0.4:
        return f
    p[4] = str(rnd.choice([0, 1, 7, 49, 50, 51, 98, 99, 100, 101, 149, 150, 1000, 2 ** 32, 2 ** 64 - 1]))
    p[5] = str(rnd.choice([1, 2, 30, 75, 76, 200, 5899, 2 ** 63]))
    return " ".join(p)


def ep_terminal_positions(rnd, tier, deep):
    """corpus/ep_terminal_positions.txt (tools/gen_epterminal.py): mates and stalemates in which an en-passant capture is on the
    board but illegal (opens the king's rank/diagonal, pinned capturer, unanswered check) — terminal although a pawn seems able to move"""
    try:
        ls = [l.strip() for l in open(os.path.join(VERIF, "corpus", "ep_terminal_positions.txt")) if l.strip()]
    except OSError:
        return []
    return ls if (tier == "thorough" or deep) else rnd.sample(ls, min(len(ls), 500))


def c05(res, tier, seed, deep):
    n = 40000 if tier == "thorough" else (12000 if deep else 5000)
    rnd = random.Random(seed)
    fens = [vary_clocks(f, rnd) for f in positions(seed + 13, n) + kxk_positions(rnd, n * 2)]
    ept = ep_terminal_positions(rnd, tier, deep)
    res.tags["ep_terminal_positions"] = len(ept)
    fens += ept
    # extreme material: the heuristic sum passes the mate thresholds there and is clamped (F10)
    fens += OVER_MATERIAL + heavy_positions()
    reqs = []
    for f in fens:
        ply = rnd.choice([0, 1, 2, 3, 5, 9, 10, 11, 17, 40])
        reqs.append(f"eval w {ply} {f}")
        reqs.append(f"eval b {ply} {f}")
    # monotonicity of the mate score in ply, on a known mate
    for ply in range(0, 25):
        reqs.append(f"eval w {ply} 7k/5Q2/6K1/8/8/8/8/8 b - - 0 1".replace("5Q2", "6Q1"))
    impl, rc, err = wee.run_lines(wee.harness_path(), reqs)
    drv, rc2, err2 = wee.run_driver(reqs)
    if len(impl) != len(reqs):
        res.broken.append("harness died on eval requests")
        impl += ["<no-output>"] * (len(reqs) - len(impl))
    for req, i, (m, sp) in zip(reqs, impl, drv):
        res.add(req, i, m, sp, (lambda x, sp=sp: ("T" + x) if sp.startswith("T") else sv_eval(x)))
        if sp.startswith("T"):
            res.tag("terminal_positions")
    return "legal positions from play plus random few-men endgame placements biased to kings on edges (mates, stalemates, checked kings on slider rays); both perspectives, plies 0..40; spec: exact mate value / 0 for positions without legal moves per the mailbox rules, non-terminal otherwise; non-legal placements are ignored by the spec"


def c13(res, tier, seed, deep):
    n = 25000 if tier == "thorough" else (8000 if deep else 3000)
    rnd = random.Random(seed)
    fens = [vary_clocks(f, rnd) for f in positions(seed + 15, n) + kxk_positions(rnd, n)] + OVER_MATERIAL + heavy_positions()
    fens += ep_terminal_positions(rnd, tier, deep)
    reqs = []
    for f in fens:
        ply = rnd.choice([0, 1, 4, 12])
        m = mirror_fen(f)
        reqs += [f"eval w {ply} {f}", f"eval b {ply} {f}", f"eval w {ply} {m}", f"eval b {ply} {m}"]
    impl, rc, err = wee.run_lines(wee.harness_path(), reqs)
    drv, rc2, err2 = wee.run_driver(reqs)
    if len(impl) != len(reqs):
        res.broken.append("harness died on eval requests")
        impl += ["<no-output>"] * (len(reqs) - len(impl))
    for i in range(0, len(reqs), 4):
        w, b, mw, mb = impl[i:i + 4]
        legal = drv[i][1] != "-"
        def neg(x):
            try:
                return str(-int(x))
            except ValueError:
                return "not-a-number:" + x
        # spec: eval(p, White) = -eval(p, Black); eval(mirror p, ¬c) = eval(p, c)
        exp = ["sym"] * 4 if legal else ["-"] * 4
        views = [
            (lambda x, w=w, b=b: "sym" if w == neg(b) else f"white={w} black={b}"),
            (lambda x, w=w, b=b: "sym" if w == neg(b) else f"white={w} black={b}"),
            (lambda x, b=b, mw=mw: "sym" if mw == b else f"eval(mirror,White)={mw} eval(p,Black)={b}"),
            (lambda x, w=w, mb=mb: "sym" if mb == w else f"eval(mirror,Black)={mb} eval(p,White)={w}"),
        ]
        for j in range(4):
            res.add(reqs[i + j], impl[i + j], drv[i + j][0], exp[j], views[j])
    return "legal positions from play and few-men endgames (terminal ones included); for each: both perspectives on the position and on its mirror image (ranks flipped, colours, side to move, castling rights and en-passant square swapped); spec: white = -black and mirror equality, exactly"


# ------------------------------------------------------------------------------------------------
# search properties

HEAVY = [
    "r3k2r/p1ppqpb1/bn2pnp1/3PN3/1p2P3/2N2Q1p/PPPBBPPP/R3K2R w KQkq - 0 1",
    "3qk3/8/8/8/8/8/8/QQQQKQQQ w - - 0 1",
    "qqqqkqqq/8/8/8/8/8/8/QQQQKQQQ b - - 0 1",
    "R6R/3Q4/1Q4Q1/4Q3/2Q4Q/Q4Q2/pp1Q4/kBNN1KB1 w - - 0 1",
    "q1q3k1/1q1q1ppp/8/8/8/8/PPP1Q1Q1/1K1Q3Q b - - 0 1",
]

MIDGAME = [
    "r3k2r/p1ppqpb1/bn2pnp1/3PN3/1p2P3/2N2Q1p/PPPBBPPP/R3K2R w KQkq - 0 1",
    "r4rk1/1pp1qppp/p1np1n2/2b1p1B1/2B1P1b1/P1NP1N2/1PP1QPPP/R4RK1 w - - 0 10",
    "rnbq1k1r/pp1Pbppp/2p5/8/2B5/8/PPP1NnPP/RNBQK2R w KQ - 1 8",
    "r1bqkb1r/pppp1ppp/2n2n2/4p2Q/2B1P3/8/PPPP1PPP/RNB1K1NR w KQkq - 4 4",
    "2kr3r/ppp2ppp/2n5/8/8/2N5/PPP2PPP/2KR3R w - - 10 15",
]


def parse_events(out):
    """[(eval, [raws])] for best events, progress list, flags"""
    bests, progs = [], []
    for tok in out.split(" "):
        if tok.startswith("best:"):
            _, ev, line = tok.split(":")
            bests.append((int(ev), [r for r in line.split(",") if r]))
        elif tok.startswith("prog:"):
            progs.append(tok)
    return bests, progs


def check_lines(res, pid, req_fen_outs, want_report=True, mate_oracle=True):
    """spec checks on search outputs: every reported line legal and non-empty, at least one report,
    winning terminal evaluations are true mates. req_fen_outs: [(request, fen, impl_out, has_moves)]"""
    lreqs, owners = [], []
    for req, fen, out, has_moves in req_fen_outs:
        if out in ("panic", "<no-output>", "<hang>", "<died>") or out.startswith("search-thread-panicked") or out.startswith("not-joined"):
            res.add(req + " #outcome", out, out, "ends-normally", lambda x: x)
            continue
        res.add(req + " #outcome", "ends-normally", "ends-normally", "ends-normally", None)
        bests, progs = parse_events(out)
        if has_moves and want_report and progs:
            res.add(req + " #reports", str(len(bests)), str(len(bests)), "at-least-one-report",
                    (lambda x: "at-least-one-report" if int(x) >= 1 else "no-report-although-an-iteration-completed"))
        if not has_moves:
            res.add(req + " #terminal-root", str(len(bests)), str(len(bests)), "no-move-reported",
                    (lambda x: "no-move-reported" if int(x) == 0 else "move-reported-in-terminal-position"))
        for ev, line in bests:
            lreqs.append(f"linecheck {','.join(line) if line else '-'} {fen}")
            owners.append((req, ev, line, fen))
    if lreqs:
        drv, _, _ = wee.run_driver(lreqs, jobs=8)
        mreqs, mown = [], []
        for lr, (req, ev, line, fen), (m, sp) in zip(lreqs, owners, drv):
            res.add(req + " #line " + lr, sp, sp, "legal", lambda x: x)
            if mate_oracle and ev >= 10000 and line:
                mreqs.append(f"matecheck {ev} {line[0]} {fen}")
                mown.append(req)
        if mreqs:
            drv, _, _ = wee.run_driver(mreqs, jobs=12)
            for mr, req, (m, sp) in zip(mreqs, mown, drv):
                ok = sp in ("sound", "claim-too-deep-for-oracle")
                res.add(req + " #mate " + mr, sp, sp, "sound", (lambda x, ok=ok: "sound" if ok else x))
                res.tag("mate_claims_" + sp)


def has_moves_map(fens):
    outs, _, _ = wee.run_driver(["moves " + f for f in fens], jobs=4)
    return {f: not m.startswith("0") for f, (m, s) in zip(fens, outs)}


def exact_searches(res, reqs):
    """single-worker searches: the real event sequence must equal the model's prediction"""
    # the real code gets a time limit: a search that does not come back is a finding, not a stuck check
    impl, rc, err = wee.run_lines_parallel(wee.harness_path(), reqs, jobs=8, timeout=900, per_request_timeout=120)
    drv, rc2, err2 = wee.run_driver(reqs, jobs=14)
    for r, i, (m, s) in zip(reqs, impl, drv):
        res.add(r, i, m, "-", None)
    return impl


def c19(res, tier, seed, deep):
    # structural scan: no new source of nondeterminism may appear in the search path
    try:
        cur = json.load(open(os.path.join(wee.BUILD, "fingerprints.json"))).get("nondet")
        base = json.load(open(os.path.join(VERIF, "fingerprints.baseline.json"))).get("nondet")
        if cur != base:
            res.broken.append(f"tie(a): sources of nondeterminism in the search path changed: {cur} (validated: {base})")
    except OSError:
        pass
    rnd = random.Random(seed)
    n = 200 if tier == "thorough" else (80 if deep else 40)
    fens = rnd.sample(positions(seed + 19, 600), n)
    reqs = []
    for f in fens:
        sd = rnd.getrandbits(32)
        for d in (1, 2, 3):
            reqs.append(f"search {sd} {d} 1 - 4 64 0 {f}")
    for f in rnd.sample(MIDGAME, 2):
        reqs.append(f"search {rnd.getrandbits(32)} 3 1 - 4 256 0 {f}")
    if tier == "thorough":
        for f in fens[:12]:
            reqs.append(f"search {rnd.getrandbits(32)} 4 1 - 8 256 0 {f}")
    run1 = exact_searches(res, reqs)
    # same process twice, and a fresh process
    run2, _, _ = wee.run_lines(wee.harness_path(), reqs + reqs)
    run3, _, _ = wee.run_lines_parallel(wee.harness_path(), reqs, jobs=4)
    for k, r in enumerate(reqs):
        a, b, c, d = run1[k], run2[k], run2[k + len(reqs)], run3[k]
        same = a == b == c == d
        res.add(r + " #repeat", a, a, "same", (lambda x, same=same, b=b, c=c, d=d: "same" if same else f"differs: {b[:80]} / {c[:80]} / {d[:80]}"))
    # public entry point (one worker below depth 3): repeated runs, fresh memory (1 GiB table each)
    pubs = [f"searchpub {rnd.getrandbits(32)} {d} {f}" for f in fens[: (6 if tier == 'thorough' else 2)] for d in (1, 2, 3)]
    p1, _, _ = wee.run_lines(wee.harness_path(), pubs)
    p2, _, _ = wee.run_lines(wee.harness_path(), pubs)
    for r, a, b in zip(pubs, p1, p2):
        res.add(r + " #repeat", a, a, "same", (lambda x, a=a, b=b: "same" if a == b else f"differs: {b[:120]}"))
    # the same through the public entry point on the positions with the LARGEST trees (queen-rich, 45+ legal moves):
    # the worker-count rule (`depth < 3` → one worker) is the only thing that keeps depth limits 1-3 deterministic, and
    # a rule keyed on anything else (nodes, time, mobility) departs from it first where the tree is big
    mv = model_moves(fens + HEAVY)
    heavy = [f for f, ms in sorted(mv, key=lambda x: -len(x[1]))][: (10 if (tier == "thorough" or deep) else 4)]
    hp = [f"searchpub {rnd.getrandbits(32)} 3 {f}" for f in heavy]
    runs = [wee.run_lines(wee.harness_path(), hp)[0] for _ in range(3)]
    for k, r in enumerate(hp):
        outs = [ru[k] if k < len(ru) else "<no-output>" for ru in runs]
        same = outs[0] == outs[1] == outs[2]
        res.add(r + " #repeat-heavy", outs[0], outs[0], "same", (lambda x, same=same, outs=outs: "same" if same else f"differs: {outs[1][:100]} / {outs[2][:100]}"))
    res.tags["heavy_positions_max_moves"] = max(len(ms) for f, ms in mv) if mv else 0
    # … and once more while OTHER, unrelated public searches are started and joined in the same process (`searchpubov`):
    # C19 fixes position, seed, depth limit, fresh memory and one worker — nothing else a process does may enter the report
    # (process-wide counters, "a newer search supersedes an older one"); only the heaviest positions run long enough to overlap
    # (corpus/longsearch_positions.txt, tools/gen_longsearch.py: an iteration of >= 10000 nodes within depth 3 and no mate, so the
    # search reaches a cancellation poll — on most queen-rich positions a mate ends the search long before)
    try:
        ls = [l.strip().split(" ", 1)[1] for l in open(os.path.join(VERIF, "corpus", "longsearch_positions.txt")) if l.strip()]
    except OSError:
        ls = []
    ls = ls[:12] if (tier == "thorough" or deep) else rnd.sample(ls, min(len(ls), 4))
    res.tags["longsearch_positions"] = len(ls)
    base = [f"searchpub {rnd.getrandbits(32)} 3 {f}" for f in ls]
    bo, _, _ = wee.run_lines(wee.harness_path(), base, timeout=900, per_request_timeout=120)
    hp2 = hp + base
    base_out = [runs[0][k] if k < len(runs[0]) else "<no-output>" for k in range(len(hp))] + [bo[k] if k < len(bo) else "<no-output>" for k in range(len(base))]
    ov = [r.replace("searchpub ", "searchpubov ", 1) for r in hp2]
    oo, _, _ = wee.run_lines(wee.harness_path(), ov, timeout=900, per_request_timeout=120)
    for k, r in enumerate(ov):
        a = base_out[k]
        b = oo[k] if k < len(oo) else "<no-output>"
        res.add(r + " #overlapping-searches", a, a, "same", (lambda x, a=a, b=b: "same" if a == b else f"differs while another search runs: {b[-160:]}"))
        res.tag("overlapping_search_runs")
    # a LONG history inside one process (thorough tier, and whenever the searcher's source changed): one public search S
    # repeated after 1, 2, 64, 128, 255, 256, 257, 258 … other fresh public searches — anything that survives from one
    # "fresh" search to another (pooled tables, counters that wrap, statics) shows as a different answer for S
    if tier == "thorough" or deep:
        # probes: distinct (seed, position) pairs, each run exactly TWICE in one process with 1, 64, 128, 255, 256 and 257
        # other fresh searches in between and never in between themselves (an 8-bit counter wraps after 256)
        gaps = [1, 64, 128, 255, 256, 257]
        probes = [f"searchpub {4242 + g} 3 {fens[g % 7]}" for g in gaps]
        slots = {}
        for n_, g in enumerate(gaps):
            slots[n_] = probes[n_]
            slots[n_ + g] = probes[n_] if (n_ + g) not in slots else slots[n_ + g]
        # resolve clashes by shifting later probes (keep it simple: build explicitly)
        soak = [None] * (max(gaps) + len(gaps) + 2)
        pairs = []
        for n_, g in enumerate(gaps):
            a_ = n_
            while soak[a_] is not None or soak[a_ + g] is not None:
                a_ += 1
            soak[a_], soak[a_ + g] = probes[n_], probes[n_]
            pairs.append((g, a_, a_ + g))
        soak = [x if x is not None else f"searchpub {rnd.getrandbits(32)} 1 {rnd.choice(fens[7:])}" for x in soak]
        so, _, _ = wee.run_lines(wee.harness_path(), soak, timeout=3600)
        so += ["<no-output>"] * (len(soak) - len(so))
        for g, a_, b_ in pairs:
            same = so[a_] == so[b_]
            res.add(soak[a_] + f" #repeat-after-{g}-fresh-searches", so[a_], so[a_], "same",
                    (lambda x, same=same, o=so[b_]: "same" if same else "differs: " + o[:160]))
        res.tag("long_history_soak")
    return "legal positions from play; seeds; depth limits 1-3 (thorough: 4) with an explicit single worker through the hook: the real StatusEvent sequence (lines, evaluations, node counts, table entries) must equal the Lean model's prediction exactly, be identical when repeated in one process and in a fresh process; depth limits 1-3 through the public Searcher::analyze repeated across processes, depth 3 three times on the positions with the most legal moves (queen-rich positions, up to 218 moves)"


def related_variants(f, rnd):
    """positions that differ only in castling rights / en-passant state"""
    p = f.split(" ")
    out = []
    if p[2] != "-":
        out += [v for v in rights_variants(f, rnd) if v != f]
    if p[3] != "-":
        out.append(" ".join(p[:3] + ["-"] + p[4:]))
    return out


def castle_transit_family(rnd, count):
    """positions in which a side still has a castling right and an empty path, but the king's TRANSIT square (f/d file)
    is attacked while its destination is not — castling is the tempting illegal move; either side to move, so that
    the castle sits at ply 1 or ply 2 of a search.  Unfiltered: callers keep the LegalPos ones with a legal move."""
    out = []
    for _ in range(count):
        black = rnd.random() < 0.5          # the side with the right
        kingside = rnd.random() < 0.6
        cells = {}
        hr = 7 if black else 0              # home rank
        K, R = ("k", "r") if black else ("K", "R")
        ek, er, eb, eq, en = ("K", "R", "B", "Q", "N") if black else ("k", "r", "b", "q", "n")
        cells[hr * 8 + 4] = K
        cells[hr * 8 + (7 if kingside else 0)] = R
        transit = hr * 8 + (5 if kingside else 3)
        # an attacker of the transit square: a rook/queen on its file, or a bishop/queen on one of its diagonals
        tf = transit % 8
        step = -1 if black else 1           # towards the enemy camp
        kind = rnd.choice([er, eq, eb])
        if kind in (er, eq) and rnd.random() < 0.6:
            dist = rnd.randrange(2, 8)
            sqr = (hr + step * dist) * 8 + tf
        else:
            kind = rnd.choice([eb, eq])
            d = rnd.randrange(1, 6)
            df = rnd.choice([-1, 1])
            f2, r2 = tf + df * d, hr + step * d
            if not (0 <= f2 <= 7 and 0 <= r2 <= 7):
                continue
            sqr = r2 * 8 + f2
        if sqr in cells or not 0 <= sqr < 64:
            continue
        cells[sqr] = kind
        # enemy king somewhere on its own half, not adjacent to anything relevant
        for _ in range(20):
            s2 = rnd.randrange(64)
            if s2 not in cells and abs(s2 // 8 - hr) >= 5:
                cells[s2] = ek
                break
        # a few extra men for both sides (not on the castling path, not on the attack line)
        path = {hr * 8 + c for c in ((5, 6) if kingside else (1, 2, 3))}
        for ch in rnd.sample(["p", "p", "p", "n", "b", "P", "P", "P", "N", "B", "R", "r"], rnd.randrange(2, 8)):
            for _ in range(10):
                s2 = rnd.randrange(8, 56) if ch in "pP" else rnd.randrange(64)
                if s2 not in cells and s2 not in path and s2 % 8 != tf:
                    cells[s2] = ch
                    break
        rows = []
        for r in range(7, -1, -1):
            row, run = "", 0
            for f in range(8):
                c = cells.get(r * 8 + f)
                if c is None:
                    run += 1
                else:
                    row += (str(run) if run else "") + c
                    run = 0
            rows.append(row + (str(run) if run else ""))
        right = ("k" if kingside else "q") if black else ("K" if kingside else "Q")
        out.append("/".join(rows) + f" {rnd.choice('wb')} {right} - 0 1")
    return out


def c03(res, tier, seed, deep):
    rnd = random.Random(seed)
    n = 300 if tier == "thorough" else (100 if deep else 40)
    pool = positions(seed + 23, 800)
    hm0 = has_moves_map(pool)
    pool = [f for f in pool if hm0.get(f)]
    fens = rnd.sample(pool, n)
    hm = None
    # (1) single worker, exact
    reqs = [f"search {rnd.getrandbits(32)} {rnd.choice([1, 2, 3])} 1 - {rnd.choice([1, 2, 4])} {rnd.choice([4, 64])} 0 {f}" for f in fens]
    # (1a) extreme material (legal positions with a legal move whose static evaluations exceed the mate scores: many queens
    # / knights against a few men): the search must still report a line
    over = ["6nk/6pp/8/8/8/8/QQQQQQQQ/KQQQQQQQ b - - 0 1", "6nk/6pp/8/8/8/8/QQQQQQQQ/KQQQQQQQ w - - 0 1",
            "7k/6pp/NNNNN3/NNNNNNNN/NNNNNNNN/NNNNNNNN/NNNNNNNN/K1NNNNNN b - - 0 1",
            "1QQQQQQQ/QQQQQQQQ/8/8/8/8/6pp/K5nk w - - 0 1", "kqqqqqqq/qqqqqqqq/8/8/8/8/6PP/6NK w - - 0 1"] + heavy_positions()[:6]
    okl, _, _ = wee.run_driver(["legalpos " + f for f in over], jobs=2)
    over = [f for f, (m, sp) in zip(over, okl) if sp == "1"]
    res.tags["over_material_roots"] = len(over)
    reqs += [f"search {rnd.getrandbits(32)} {d} 1 - 2 64 0 {f}" for f in over for d in (1, 2)]
    fens = fens + over
    # (1b) the castling-through-attack family: the search must never put such a castle into a line
    fam = castle_transit_family(rnd, 4000 if tier == "thorough" else (1500 if deep else 300))
    ok, _, _ = wee.run_driver(["legalpos " + f for f in fam], jobs=8)
    fam = [f for f, (m, sp) in zip(fam, ok) if sp == "1"]
    hmf = has_moves_map(fam)
    fam = [f for f in fam if hmf.get(f)][: (1200 if tier == "thorough" else (400 if deep else 60))]
    res.tags["castle_transit_family"] = len(fam)
    reqs += [f"search {rnd.getrandbits(32)} 3 1 - 2 64 0 {f}" for f in fam]
    fens = fens + fam
    # (2) histories: searches sharing one artifact over positions differing only in rights / ep
    seqs = []
    castling = [f for f in pool if f.split(" ")[2] != "-" or f.split(" ")[3] != "-"]
    for f in rnd.sample(castling, min(len(castling), n // 2)):
        vs = related_variants(f, rnd)
        if not vs:
            continue
        chain = [f] + rnd.sample(vs, min(len(vs), 2)) + [f]
        seqs.append(f"searchseq {rnd.getrandbits(32)} {rnd.choice([1, 2])} {rnd.choice([2, 16])} 1 {len(chain)} " +
                    " ".join(f"{rnd.choice([2, 3])} - {c.replace(' ', '_')}" for c in chain))
    seqs.append("searchseq 7 1 64 1 2 4 - 4k3/p6p/Pp4pP/1Pp2pP1/2Pp1P2/3P4/8/4K2R_w_K_-_0_1 4 - 4k3/p6p/Pp4pP/1Pp2pP1/2Pp1P2/3P4/8/4K2R_w_-_-_0_1")
    impl = exact_searches(res, reqs + seqs)
    allf = set(fens)
    for sreq in seqs:
        t = sreq.split(" ")
        for i in range(int(t[5])):
            allf.add(t[8 + 3 * i].replace("_", " "))
    hm = has_moves_map(sorted(allf))
    items = []
    for r, o in zip(reqs, impl[:len(reqs)]):
        f = " ".join(r.split(" ")[8:])
        items.append((r, f, o, hm.get(f, True)))
    for r, o in zip(seqs, impl[len(reqs):]):
        t = r.split(" ")
        outs = o.split(" | ") if o not in ("panic", "<no-output>") else [o] * int(t[5])
        for i in range(int(t[5])):
            f = t[8 + 3 * i].replace("_", " ")
            items.append((r + f" #search{i}", f, outs[i] if i < len(outs) else "<no-output>", hm.get(f, True)))
    # (3) several real worker threads (any interleaving the machine produces), fresh and reused memory
    mreqs = []
    for f in rnd.sample(fens, max(4, n // 3)):
        mreqs.append(f"search {rnd.getrandbits(32)} {rnd.choice([2, 3, 4])} {rnd.choice([2, 4, 8, 32])} - {rnd.choice([1, 4])} {rnd.choice([2, 64])} 0 {f}")
    for sreq in rnd.sample(seqs, min(len(seqs), max(2, n // 4))):
        t = sreq.split(" ")
        t[4] = str(rnd.choice([2, 8, 32]))
        mreqs.append(" ".join(t))
    mout, _, _ = wee.run_lines_parallel(wee.harness_path(), mreqs, jobs=4)
    for r, o in zip(mreqs, mout):
        res.evaluations += 0
        t = r.split(" ")
        if t[0] == "search":
            f = " ".join(t[8:])
            items.append((r, f, o, hm.get(f, True)))
        else:
            outs = o.split(" | ") if o not in ("panic", "<no-output>") else [o] * int(t[5])
            for i in range(int(t[5])):
                f = t[8 + 3 * i].replace("_", " ")
                items.append((r + f" #search{i}", f, outs[i] if i < len(outs) else "<no-output>", hm.get(f, True)))
        res.tag("multi_worker_runs")
    check_lines(res, "C03", items)
    # (4) real multi-threaded runs replayed against the interleaving semantics: the ticket-ordered log of table
    # operations must be an `Interleaving` of the model's workers and the events must be those the model derives
    import ilcheck
    ilcheck.run(res, tier, seed, deep)
    return "searches through the hook on legal positions with a legal move: (1) one worker, depths 1-3, tiny to small tables (so buckets overflow) — exact event-sequence equality with the Lean model; (2) chains of searches sharing one artifact over positions that differ only in castling rights / en-passant state (incl. the former illegal-castling witness); (3) 2-32 real worker threads, fresh and reused memory; spec: every reported line is non-empty and legal move by move per the mailbox rules, at least one report per search that completed an iteration; (4) 2-32 real threads with the table-operation log replayed against the interleaving semantics (every worker re-run in the model under the environment the log induces; log and events must match exactly)"


def c04(res, tier, seed, deep):
    rnd = random.Random(seed)
    pool = positions(seed + 29, 400)
    hm = None
    items = []
    # (a) terminal roots end normally and report no move; depth limits incl. none
    # mate by queen, stalemate, back-rank mate, stalemate in the corner, fool's mate
    terminal = ["7k/6Q1/6K1/8/8/8/8/8 b - - 0 1", "7k/5Q2/6K1/8/8/8/8/8 b - - 0 1", "3R2k1/5ppp/8/8/8/8/8/4K3 b - - 0 1",
                "K7/8/8/8/8/8/5Q2/7k b - - 0 1", "rnb1kbnr/pppp1ppp/8/4p3/6Pq/5P2/PPPPP2P/RNBQKBNR w KQkq - 1 3",
                # mates along a line with a free square behind the king (slider checks), both colours
                "R5k1/5ppp/8/8/8/8/8/4K3 b - - 0 1", "1R4k1/R7/8/8/8/8/8/K7 b - - 0 1", "4k3/8/8/8/8/8/PPP5/1K5r w - - 0 1",
                "6k1/5p1p/5BpQ/8/8/8/8/6K1 b - - 0 1".replace("5BpQ", "5Bp1").replace("6k1/5p1p", "6k1/5pQp")]
    reqs = []
    for f in terminal:
        for d in ("1", "2", "5", "-"):
            reqs.append(f"search {rnd.getrandbits(32)} {d} 1 - 2 16 0 {f}")
    # (b) depth-limited searches finish by themselves (one worker exact)
    n = 150 if tier == "thorough" else (60 if deep else 24)
    for f in rnd.sample(pool, n):
        reqs.append(f"search {rnd.getrandbits(32)} {rnd.choice([1, 2, 3])} 1 - 2 64 0 {f}")
    # (c) Stop at a counted instant: the k-th poll of the flag (every 10000 counted nodes)
    cn = 20 if tier == "thorough" else (8 if deep else 4)
    for f in [rnd.choice(MIDGAME) for _ in range(cn)]:
        k = rnd.choice([0, 0, 1])
        reqs.append(f"search {rnd.getrandbits(32)} {rnd.choice(['-', '6'])} 1 {k} 4 256 0 {f}")
    impl = exact_searches(res, reqs)
    hm = has_moves_map(sorted(set(" ".join(r.split(" ")[8:]) for r in reqs)))
    for r, o in zip(reqs, impl):
        f = " ".join(r.split(" ")[8:])
        cancelled = r.split(" ")[4] != "-"
        items.append((r, f, o, hm.get(f, True)))
    check_lines(res, "C04", items, want_report=False)
    # (d) several workers with Stop at a counted poll
    mreqs = [f"search {rnd.getrandbits(32)} - {rnd.choice([2, 8])} {rnd.choice([0, 3])} 4 256 0 {f}" for f in rnd.sample(MIDGAME, 2 if tier == "thorough" or deep else 1)]
    mout, _, _ = wee.run_lines_parallel(wee.harness_path(), mreqs, jobs=2, timeout=900, per_request_timeout=120)
    check_lines(res, "C04", [(r, " ".join(r.split(" ")[8:]), o, True) for r, o in zip(mreqs, mout)], want_report=False)
    # (e) public API under wall-clock Stop: join latency, receiver kept or dropped, repeated Stop, artifact reusable
    sn = 40 if tier == "thorough" else (12 if deep else 6)
    sreqs = []
    cand = MIDGAME + rnd.sample(pool, 6) + terminal
    for _ in range(sn):
        f = rnd.choice(cand)
        sreqs.append(f"stoptest {rnd.getrandbits(32)} {rnd.choice(['-', '-', '3', '50'])} {rnd.choice([0, 0, 5, 40, 150, 400])} {rnd.choice([0, 1])} {rnd.choice([1, 1, 3])} {f}")
    # roots with a FORCED outcome and no depth limit: the side to move mates in 1-3 plies (the loop ends by itself) or is
    # being mated in 2-4 plies (the loop never ends by itself: only Stop ends it, whatever the table already proves)
    fm = mate_positions(seed + 5, 40, 3)
    kd, _, _ = wee.run_driver([f"matekeep {d} {f}" for d, k, f in fm], jobs=8)
    losing = [t.split(":")[1].replace("_", " ") for (m, sp) in kd for t in sp.split(" ")[:1] if ":" in t]
    forced = rnd.sample(losing, min(len(losing), 8 if (tier == "thorough" or deep) else 3)) + [f for d, k, f in rnd.sample(fm, min(len(fm), 2))]
    for f in forced:
        sreqs.append(f"stoptest {rnd.getrandbits(32)} - {rnd.choice([60, 250, 700])} {rnd.choice([0, 1])} 1 {f}")
    res.tags["forced_outcome_roots"] = len(forced)
    # a LAZY consumer (receiver kept, read only after the join) of a search that emits hundreds of events: positions with a
    # single legal move whose successor was searched before on the same artifact (so it counts as a repetition and every
    # iteration is two nodes), depth limits 150-600
    single = []
    for f, ms in model_moves(pool[:300] + ["8/8/8/8/8/8/8/K1k5 w - - 0 1", "7k/8/8/8/8/8/5q2/7K w - - 0 1", "k7/2Q5/8/8/8/8/8/7K b - - 3 9"]):
        if len(ms) == 1:
            single.append((f, ms[0][1]))
    so, _, _ = wee.run_driver([f"apply {raw} {f}" for f, raw in single], jobs=2)
    lz = [f"lazytest {rnd.getrandbits(32)} {rnd.choice([150, 300, 600])} {m.replace(' ', '_')} {f}"
          for (f, raw), (m, sp) in zip(single, so) if not m.startswith("err") and m != "panic"][: (10 if (tier == "thorough" or deep) else 4)]
    lout, _, _ = wee.run_lines(wee.harness_path(), lz, timeout=600, per_request_timeout=60)
    for r, o in zip(lz, lout):
        res.add(r, o, o, "joined", (lambda x: "joined" if x.startswith("joined") else x))
        res.tag("lazy_consumer_runs")
        mm = re.match(r"joined events=(\d+)", o)
        if mm:
            res.tags["lazy_consumer_max_events"] = max(res.tags.get("lazy_consumer_max_events", 0), int(mm.group(1)))
    # Stop sent to a search WITHOUT depth limit whose iterations stay tiny for ever (F11): every legal move of the root leads to
    # a position that was searched before on the same artifact (one to three legal moves; an analysis session stepping back and
    # forth does this), so every iteration costs a handful of nodes and no worker ever reaches its 10000-node poll
    few = [(f, ms) for f, ms in model_moves(["8/8/8/8/8/8/8/K1k5 w - - 0 1", "k7/2Q5/8/8/8/8/8/7K b - - 3 9"] + pool[:400]) if 1 <= len(ms) <= 3]
    few = few[: (12 if (tier == "thorough" or deep) else 4)]
    sq_reqs = []
    for f, ms in few:
        so2, _, _ = wee.run_driver([f"apply {m[1]} {f}" for m in ms], jobs=1)
        succs = [m_.replace(" ", "_") for (m_, sp_) in so2 if not m_.startswith("err") and m_ not in ("panic", "badfen")]
        if len(succs) == len(ms):
            sq_reqs.append(f"stopseq {rnd.getrandbits(32)} - {rnd.choice([0, 50, 300])} {len(succs)} " + " ".join(succs) + " " + f)
    qout, _, _ = wee.run_lines(wee.harness_path(), sq_reqs, timeout=900, per_request_timeout=60)
    for r, o in zip(sq_reqs, qout):
        res.add(r, o, o, "joined", (lambda x: "joined" if x.startswith("joined") else x))
        res.tag("unlimited_tiny_iteration_stops")
    sout, _, _ = wee.run_lines(wee.harness_path(), sreqs, timeout=1800, per_request_timeout=60)
    worst = 0
    for r, o in zip(sreqs, sout):
        m = re.match(r"joined latency_ms=(\d+) bests=(\d+) lines_nonempty=(\w+) artifact_reusable=(\w+) has_moves=(\w+)", o)
        if m:
            worst = max(worst, int(m.group(1)))
            # the join itself is bounded by the harness' 30 s watchdog; the measured latency is recorded, not
            # judged against a tighter wall-clock threshold (a cold 1 GiB table allocation on a loaded machine
            # can take seconds: a 5 s limit raised a false alarm in a fresh sandbox)
            ok = m.group(3) == "true" and m.group(4) == "true" and not (m.group(5) == "false" and int(m.group(2)) > 0)
            res.add(r, o, o, "stops-promptly", (lambda x, ok=ok: "stops-promptly" if ok else x))
        else:
            res.add(r, o, o, "stops-promptly", lambda x: x)
    res.tags["worst_join_latency_ms"] = worst
    return "through the hook: terminal roots (mate, stalemate) with depth limits 1, 2, 5 and none; depth-limited one-worker searches (exact equality with the model); Stop at the k-th poll of the flag with and without depth limit, one worker exact, several workers; through the public API: wall-clock Stop after 0-400 ms, receiver kept or dropped, Stop repeated, returned artifact fed to a new search; spec: ends normally (no panic, joins before the 30 s watchdog; measured worst latency recorded), no move reported for a terminal root, every reported line legal"


def mate_positions(seed, n, limit):
    rc, out, err = wee.run([wee.DRIVER, "mates", str(seed), str(n), str(limit)], timeout=3600)
    res = []
    for l in out.split("\n"):
        if l.strip():
            d, keep, fen = l.split(" ", 2)
            res.append((int(d), int(keep), fen))
    return res


def c06(res, tier, seed, deep):
    rnd = random.Random(seed)
    n = 400 if tier == "thorough" else (120 if deep else 60)
    mates = mate_positions(seed, n, 5 if tier == "thorough" else 3)
    # corpus: forced mates in 3 whose only key moves are under-promotions (tools/gen_underpromo.py, exhaustive solver) —
    # random few-men positions practically never need one
    try:
        up = [l.strip() for l in open(os.path.join(VERIF, "corpus", "underpromo_mates.txt")) if l.strip()]
    except OSError:
        up = []
    mates = [(3, 1, f) for f in (up if (tier == "thorough" or deep) else rnd.sample(up, min(len(up), 12)))] + mates
    # mates in ONE of every kind of final position (corpus/premate_positions.txt: single check, double check — knight or pawn
    # plus a discovered slider —, double check with a king that has no pseudo-legal move): whatever shortcut decides "this node
    # is terminal" must recognise all of them
    try:
        pm1 = [l.strip() for l in open(os.path.join(VERIF, "corpus", "premate_positions.txt")) if l.strip()]
    except OSError:
        pm1 = []
    pm1 = pm1 if (tier == "thorough" or deep) else rnd.sample(pm1, min(len(pm1), 30))
    mates = [(1, 1, f) for f in pm1] + mates
    res.tags["premate_positions"] = len(pm1)
    # mates in FIVE plies (corpus/mate5_positions.txt, few-men endings): the mating tree is deep enough for interior nodes to be
    # re-reached with all their children answered from the table
    try:
        m5h = [l.strip().split(" ", 2) for l in open(os.path.join(VERIF, "corpus", "mate5_positions.txt")) if l.strip()]
        m5h = [(int(a_), int(b_), f_) for a_, b_, f_ in m5h]
    except OSError:
        m5h = []
    m5h = m5h if (tier == "thorough" or deep) else rnd.sample(m5h, min(len(m5h), 4))
    mates = m5h + mates
    res.tags["mate_in_five_positions"] = len(m5h)
    res.tags["underpromotion_mates"] = len(up)
    reqs, meta = [], []
    # (the move-ordering jitter decides which lines are answered from the table: whether a shortcut in the search misfires on a
    # given mate depends on the seed, so a changed searcher is met with several seeds per position and depth)
    nseeds = 3 if (tier == "thorough" or deep) else 1
    for d, keep, f in mates:
        for dd in (d, d + 1, d + 2):
            for _ in range(nseeds):
                reqs.append(f"search {rnd.getrandbits(32)} {dd} 1 - 2 64 0 {f}")
                meta.append((d, f))
    impl = exact_searches(res, reqs)
    items = [(r, f, o, True) for r, (d, f), o in zip(reqs, meta, impl)]
    # several real workers
    mreqs, mmeta = [], []
    for d, keep, f in rnd.sample(mates, max(4, len(mates) // 3)):
        mreqs.append(f"search {rnd.getrandbits(32)} {d + rnd.choice([0, 1, 2])} {rnd.choice([2, 4, 16, 32])} - 2 64 0 {f}")
        mmeta.append((d, f))
    mout, _, _ = wee.run_lines_parallel(wee.harness_path(), mreqs, jobs=4)
    items += [(r, f, o, True) for r, (d, f), o in zip(mreqs, mmeta, mout)]
    # completeness: the final report must be a winning terminal evaluation
    for (r, f, o, _), (d, _f) in zip(items, meta + mmeta):
        bests, _ = parse_events(o)
        final = bests[-1][0] if bests else None
        res.add(r + " #complete", str(final), str(final), "mate-found",
                (lambda x, final=final: "mate-found" if final is not None and final >= 10000 else f"forced mate in {d} plies not reported: final evaluation {final}"))
    # the PUBLIC entry point with its default worker count under different thread-pool sizes (RAYON_NUM_THREADS = 1, 2, 5):
    # a forced mate in d plies searched with depth limits d+1 … d+3 (at least four iterations, so the multi-worker
    # iterations run) must end normally with a winning report
    try:
        m5 = [l.strip().split(" ", 2) for l in open(os.path.join(VERIF, "corpus", "mate5_positions.txt")) if l.strip()]
        m5 = [(int(a_), int(b_), f_) for a_, b_, f_ in m5]
    except OSError:
        m5 = []
    # mates in FIVE plies: the public entry point needs five iterations, so iterations 4 and 5 run with the default worker count
    deepm = m5[: (8 if (tier == "thorough" or deep) else 2)]
    for threads in ("1", "2", "5"):
        preqs = [f"searchpub {rnd.getrandbits(32)} {d + k} {f}" for d, keep, f in deepm for k in (0, 1)]
        pouts, _, _ = wee.run_lines(wee.harness_path(), preqs, timeout=240, per_request_timeout=45, env={"RAYON_NUM_THREADS": threads})
        for r, o, (d, keep, f) in zip(preqs, pouts, [m for m in deepm for _ in (0, 1)]):
            bests, _ = parse_events(o)
            final = bests[-1][0] if bests else None
            ok = o.endswith("joined") and final is not None and final >= 10000
            res.add(r + f" #pool-size RAYON_NUM_THREADS={threads}", o[-120:], o[-120:], "mate-found-and-joined",
                    (lambda x, ok=ok, final=final: "mate-found-and-joined" if ok else f"final evaluation {final}; ends with `{x[-40:]}`"))
            res.tag("pool_size_runs")
    # soundness on ordinary positions too: any winning terminal claim is checked by the oracle
    oreqs = [f"search {rnd.getrandbits(32)} 3 1 - 2 64 0 {f}" for f in rnd.sample(positions(seed + 31, 300), 10 if tier == "quick" else 40)]
    oimpl = exact_searches(res, oreqs)
    items += [(r, " ".join(r.split(" ")[8:]), o, True) for r, o in zip(oreqs, oimpl)]
    check_lines(res, "C06", items, want_report=False)
    res.tags["mate_positions"] = len(mates)
    res.tags["mate_distances"] = str(sorted(set(d for d, k, f in mates)))
    return "few-men positions in which an exhaustive solver (complete tree to n plies over the legal-move relation) finds a forced mate in n <= 3 (thorough: 5) plies; searches with fresh memory at depth n, n+1, n+2 with one worker (exact equality with the model) and 2-32 real workers; spec: the final report is a winning terminal evaluation, the claim is confirmed by the solver within the ply count encoded in the score, and the first move keeps the mate; winning claims on ordinary positions are checked the same way"


def c17(res, tier, seed, deep):
    rnd = random.Random(seed)
    n = 500 if tier == "thorough" else (200 if deep else 80)
    mates = [m for m in mate_positions(seed + 3, n, 3) if m[1] >= 2]
    kreqs = [f"matekeep {d} {f}" for d, k, f in mates]
    drv, _, _ = wee.run_driver(kreqs, jobs=8)
    reqs, meta = [], []
    for (d, k, f), (m, sp) in zip(mates, drv):
        keeps = [t.split(":") for t in sp.split(" ") if ":" in t]
        if len(keeps) < 2:
            continue
        for raw, succ in rnd.sample(keeps, min(len(keeps), 2)):
            for dd in (d, d + 2):
                reqs.append(f"search {rnd.getrandbits(32)} {dd} 1 - 2 64 1 {succ} {f}")
                meta.append((d, raw, f))
    # LONG histories: the recorded successor among 100-250 other recorded positions, once or twice (a game of that many
    # moves): the history is a set of everything ever recorded, however long ago
    filler = positions(seed + 41, 300)
    for (d, raw, f), r0 in list(zip(meta, reqs))[:: max(1, len(reqs) // (40 if tier == "thorough" else (16 if deep else 6)))]:
        succ = r0.split(" ")[8]
        k1, k2 = rnd.randrange(50, 130), rnd.randrange(40, 120)
        fl = [x.replace(" ", "_") for x in rnd.sample(filler, min(len(filler), k1 + k2))]
        hist = [succ] + fl[:k1] + ([succ] if rnd.random() < 0.6 else []) + fl[k1:k1 + k2]
        reqs.append(f"search {rnd.getrandbits(32)} {d} 1 - 2 64 {len(hist)} {' '.join(hist)} {f}")
        meta.append((d, raw, f))
        res.tag("long_history")
    impl = exact_searches(res, reqs)
    mreqs, mmeta = [], []
    for r, mt in rnd.sample(list(zip(reqs, meta)), min(len(reqs), max(3, len(reqs) // 4))):
        t = r.split(" ")
        t[3] = str(rnd.choice([2, 8, 32]))
        mreqs.append(" ".join(t))
        mmeta.append(mt)
    mout, _, _ = wee.run_lines_parallel(wee.harness_path(), mreqs, jobs=4)
    items = []
    for r, (d, raw, f), o in list(zip(reqs, meta, impl)) + list(zip(mreqs, mmeta, mout)):
        items.append((r, f, o, True))
        bests, _ = parse_events(o)
        final = bests[-1] if bests else None
        def view(x, final=final, raw=raw, d=d):
            if final is None or final[0] < 10000:
                return f"no winning terminal evaluation although another first move mates in {d}: {final}"
            if final[1] and final[1][0] == raw:
                return "the repeating move was chosen"
            return "wins-without-repeating"
        res.add(r + " #avoid-repetition", str(final), str(final), "wins-without-repeating", view)
    check_lines(res, "C17", items, want_report=False)
    # chained real searches: the successor P1 of a mate-keeping move is SEARCHED first (so it is recorded as a root AND
    # has table entries), then the predecessor P is searched with the returned artifact — the way positions get into
    # the history in a game.  One worker: exact equality with the model.  Spec: if some first move keeps a forced mate
    # in d plies along lines that avoid the recorded positions {P1, P} (history-aware solver), the final report is a
    # winning terminal evaluation whose first move is not the move into P1.
    creqs, cmeta = [], []
    for (d, k, f), (m, sp) in zip(mates, drv):
        keeps = [t.split(":") for t in sp.split(" ") if ":" in t]
        if len(keeps) < 2:
            continue
        raw, succ = rnd.choice(keeps)
        for d1 in (1, 2):
            for dd in (d, d + 2):
                creqs.append(f"searchseq {rnd.getrandbits(32)} 2 64 1 2 {d1} - {succ} {dd} - {f.replace(' ', '_')}")
                cmeta.append((d, raw, succ, f))
    if creqs:
        cimpl = exact_searches(res, creqs)
        hreqs = [f"matekeeph {d} 2 {succ} {f.replace(' ', '_')} {f}" for d, raw, succ, f in cmeta]
        hdrv, _, _ = wee.run_driver(hreqs, jobs=8)
        citems = []
        for r, (d, raw, succ, f), o, (m, sp) in zip(creqs, cmeta, cimpl, hdrv):
            others = [t for t in sp.split(" ") if t and t != raw]
            second = o.split(" | ")[1] if " | " in o else ""
            citems.append((r + " #second", f, second, True))
            bests, _ = parse_events(second)
            final = bests[-1] if bests else None
            def view2(x, final=final, raw=raw, others=others, d=d):
                if not others:
                    return "wins-without-repeating"      # no other mate that avoids the recorded positions: nothing is owed
                if final is None or final[0] < 10000:
                    return f"no winning terminal evaluation although a non-repeating first move mates in {d}: {final}"
                if final[1] and final[1][0] == raw:
                    return "the repeating move was chosen"
                return "wins-without-repeating"
            res.add(r + " #avoid-repetition-chained", str(final), str(final), "wins-without-repeating", view2)
            res.tag("chained_with_alternative" if others else "chained_without_alternative")
        check_lines(res, "C17", citems, want_report=False)
    res.tags["positions_with_two_mating_moves"] = len(mates)
    return "few-men positions with a forced mate in <= 3 plies and at least two first moves that keep it (exhaustive solver); for each, the position after one of those moves is recorded in the artifact's history through the hook; searches at depth n and n+2, one worker (exact equality with the model) and 2-32 workers; spec: the final report is a winning terminal evaluation whose first move is not the recorded (repeating) one and keeps the mate"


# ------------------------------------------------------------------------------------------------
# process-level UCI properties

def run_sessions(res, tag, sessions, parallel=4, strict_bestmove=True):
    """sessions: [(name, cmds, eof)] — plan with the Lean session model, run the real binary, record"""
    import uci_proc
    from concurrent.futures import ThreadPoolExecutor
    exe, msg = wee.build_weechess()
    if exe is None:
        res.broken.append("weechess binary does not build: " + msg[-400:])
        return
    pl = uci_proc.Planner()
    planned = []
    for name, cmds, eof in sessions:
        cmds = cmds(pl) if callable(cmds) else cmds
        planned.append((name, cmds, eof, pl.plan(cmds)))
    pl.close()

    def go(item):
        name, cmds, eof, steps = item
        cap = {}
        try:
            return uci_proc.run_session(exe, steps, eof=eof, strict_bestmove=strict_bestmove, capture=cap), cap
        except Exception as e:  # a harness problem is reported, not hidden
            return [f"session runner error: {e!r}"], cap
    with ThreadPoolExecutor(max_workers=parallel) as ex:
        both = list(ex.map(go, planned))
    results = [r for r, _ in both]
    # every `info pv` line must be a legal line from the position of its search (C03 at the UCI surface); lines of
    # searches on illegal base positions (C14 sessions) are outside C03's domain
    pl = uci_proc.Planner()
    npv = 0
    for probs, cap in both:
        for fen, lans in cap.get("pvs", []):
            if pl.model("legalpos " + fen)[1] != "1":
                continue
            npv += 1
            if not lans or pl.spec_play(fen, lans) is None:
                probs.append(f"`info pv {' '.join(lans)[:80]}` is not a legal line from {fen}")
    pl.close()
    res.tags["pv_lines_checked"] = res.tags.get("pv_lines_checked", 0) + npv
    for (name, cmds, eof, steps), probs in zip(planned, results):
        req = f"session {name}: " + " ; ".join(c for c, d in cmds)[:1500] + (" ; <EOF>" if eof else "")
        # problems prefixed `trace:` are differences between the real loop's internal state (hook) and the session MODEL:
        # a broken correspondence, not an observable violation — the spec view only sees the others
        obs = [q for q in probs if not q.startswith("trace:")]
        res.add(req, "accepted" if not probs else "rejected: " + " | ".join(probs)[:1200], "accepted", "accepted",
                (lambda x, obs=obs: "accepted" if not obs else "rejected: " + " | ".join(obs)[:1200]))
        res.tag(tag)
        for st in steps:
            res.tag("cmd_" + (st["first"] or "empty"))
    return planned, results


def c07(res, tier, seed, deep):
    import uci_proc
    rnd = random.Random(seed)
    n = 150 if tier == "thorough" else (30 if deep else 12)
    sessions = []
    # fixed histories first: the former illegal-castling session (F1), a mated root (F2), a short move token (F4)
    sessions.append(("f1-castling-rights", [("position fen 4k3/p6p/Pp4pP/1Pp2pP1/2Pp1P2/3P4/8/4K2R w K - 0 1", 0), ("go depth 4", 0),
                     ("position fen 4k3/p6p/Pp4pP/1Pp2pP1/2Pp1P2/3P4/8/4K2R w - - 0 1", 1.0), ("go depth 4", 0), ("stop", 1.0)], False))
    sessions.append(("f2-mated-root", [("position fen 3R2k1/5ppp/8/8/8/8/8/4K3 b - - 0 1", 0), ("go depth 2", 0), ("isready", 0.3), ("stop", 0)], False))
    sessions.append(("book-and-eof", [("uci", 0), ("position startpos", 0), ("go depth 1", 0), ("position startpos moves e2e4", 0), (".state", 0), ("go", 0)], True))
    # a `position` command whose base is accepted and whose move list is REJECTED leaves the engine on the base position (the
    # session model says so and `.state` shows it): the `go` that follows must be answered for THAT position — book answer or
    # search — not for the position of the last accepted command (anything remembered per accepted command is stale here)
    def rejected_then_go(pl, r):
        f = r.choice([None, None] + uci_proc.NONBOOK)
        start = "rnbqkbnr/pppppppp/8/8/8/8/PPPPPPPP/RNBQKBNR w KQkq - 0 1"
        lans, _ = uci_proc.random_walk(pl, r, f if f else start, r.randrange(1, 4))
        base = "position " + ("fen " + f if f else "startpos")
        bad = r.choice(["e1e9", "e2e5", "a1a1", "e1h1", "h7h8q", "zz"])
        return [(base + " moves " + " ".join(lans), 0), (".state", 0), ("go depth 2", 0), ("stop", 0.6),
                (base + " moves " + " ".join(lans[:-1] + [bad]), 0), (".state", 0), ("go depth 2", 0), ("stop", 0.6), ("isready", 0),
                (base + " moves " + " ".join(lans), 0), ("position fen 8/8/8/8/8/8/8/8 w - - 0", 0), (".state", 0), ("go depth 1", 0), ("stop", 0.4)]
    for i in range(8 if tier == "thorough" else (4 if deep else 2)):
        sessions.append((f"rejected-moves-then-go-{i}", (lambda pl, r=random.Random(rnd.getrandbits(32)): rejected_then_go(pl, r)), False))
    sessions.append(("rejected-moves-then-go-book", [("position startpos moves e2e4", 0), ("go", 0), ("position startpos moves e2e5", 0), (".state", 0), ("go", 0), ("isready", 0.3),
                     ("position startpos moves e2e4 e7e5", 0), ("position startpos moves e1e9", 0), (".state", 0), ("go", 0), ("isready", 0.3)], False))
    # FOLLOWING THE ANNOUNCED LINE: a unique, move-by-move forced mate in two that ends with castling (corpus/castle_mate2.txt,
    # tools/gen_castlemate2.py) is searched; then the position after the key move and the forced reply is presented as the GUI
    # would — but WITHOUT the castling right (same placement, same side to move), and once with it: the answer must be a legal
    # move of the position presented (whatever the engine remembers of the line it announced)
    try:
        cm2 = [l.strip().split(" | ") for l in open(os.path.join(VERIF, "corpus", "castle_mate2.txt")) if " | " in l]
    except OSError:
        cm2 = []
    for i, (P, S) in enumerate(rnd.sample(cm2, min(len(cm2), 12 if (tier == "thorough" or deep) else 3))):
        sp = S.split(" ")
        norights = " ".join(sp[:2] + ["-"] + sp[3:])
        sessions.append((f"follow-the-line-{i}", [(f"position fen {P}", 0), ("go depth 4", 0), ("stop", 1.5), (f"position fen {norights}", 0), (".state", 0), ("go depth 3", 0), ("stop", 1.0),
                         (f"position fen {P}", 0), ("go depth 4", 0), ("stop", 1.5), (f"position fen {S}", 0), ("go depth 3", 0), ("stop", 1.0)], False))
    res.tags["follow_the_line_sessions"] = min(len(cm2), 12 if (tier == "thorough" or deep) else 3)
    # extreme material: a legal position with a legal move whose static evaluations exceed the mate scores (F10)
    sessions.append(("f10-over-material", [("position fen 6nk/6pp/8/8/8/8/QQQQQQQQ/KQQQQQQQ b - - 0 1", 0), ("go depth 2", 0), ("isready", 0.5), ("stop", 0),
                     ("position fen 7k/6pp/NNNNN3/NNNNNNNN/NNNNNNNN/NNNNNNNN/NNNNNNNN/K1NNNNNN b - - 0 1", 0), ("go depth 1", 0), ("stop", 0.5)], False))
    # consecutive `position` commands whose TEXT extends the previous one — by more moves (how a GUI resends a growing game)
    # and by more characters of the last FEN field (fullmove 1 → 12, 10 → 105): a handler that re-uses what it parsed last
    # time must still read the whole command
    def prefix_sessions(pl, r):
        cmds = []
        f = r.choice(uci_proc.NONBOOK + ["4k3/8/8/8/8/8/4P3/4K3 w - - 0 1", "r3k2r/8/8/8/8/8/8/R3K2R b KQkq - 3 10"])
        base = " ".join(f.split(" ")[:5])
        n0 = f.split(" ")[5]
        lans, _ = uci_proc.random_walk(pl, r, f, 3)
        cmds.append((f"position fen {f}", 0)); cmds.append((".state", 0))
        f2 = f"{base} {n0}{r.randrange(10)}"
        cmds.append((f"position fen {f2}" + (" moves " + " ".join(lans[:1]) if lans else ""), 0)); cmds.append((".state", 0))
        cmds.append((f"position fen {f2}" + (" moves " + " ".join(lans[:2]) if lans else ""), 0)); cmds.append((".state", 0))
        f3 = f"{base} {n0}{r.randrange(10)}{r.randrange(10)}"
        cmds.append((f"position fen {f3}" + (" moves " + " ".join(lans) if lans else ""), 0)); cmds.append((".state", 0))
        cmds.append(("position startpos", 0)); cmds.append(("position startpos moves e2e4", 0)); cmds.append((".state", 0))
        cmds.append(("position startpos moves e2e4 e7e5 g1f3", 0)); cmds.append((".state", 0))
        return cmds
    for i in range(6 if tier == "thorough" else (3 if deep else 2)):
        sessions.append((f"position-text-prefix-{i}", (lambda pl, r=random.Random(rnd.getrandbits(32)): prefix_sessions(pl, r)), False))
    for i in range(n):
        sessions.append((f"random-{seed}-{i}", (lambda pl, r=random.Random(rnd.getrandbits(32)): uci_proc.gen_session(pl, r)), rnd.random() < 0.3))
    run_sessions(res, "sessions", sessions)
    return "command histories over {uci, isready, ucinewgame, position startpos|fen [legal moves], .state, go depth 1-3 | movetime 0-300 | (default), stop, quit/EOF} with random delays against the real binary; after every command the loop is synchronised with isready; the Lean session model predicts replies, position (checked through .state) and loop state (hook trace); spec: exactly one bestmove per go on a position with a legal move, printed before the next stop/go/position/quit has been processed, legal per the mailbox rules, exit status 0"


def c18(res, tier, seed, deep):
    import uci_proc
    rnd = random.Random(seed)
    n = 60 if tier == "thorough" else (16 if deep else 8)
    sessions = []
    # observable effect: a position searched in game 1 must not count as a repetition in game 2
    sessions.append(("stale-history", [("position fen 8/8/8/8/8/k7/8/K2r4 w - - 5 4", 0), ("go depth 1", 0), ("stop", 0.3), ("ucinewgame", 0),
                     ("position fen 8/8/8/8/8/k2r4/8/K7 b - - 4 3", 0), ("go depth 3", 0), ("stop", 1.0)], False))
    for i in range(n):
        def mk(pl, r=random.Random(rnd.getrandbits(32))):
            cmds = uci_proc.gen_session(pl, r)
            k = r.randrange(1, len(cmds) + 1)
            tail = [("ucinewgame", r.choice([0, 0.05, 0.3])), ("isready", 0),
                    ("position fen k7/8/2K5/8/8/8/8/7R w - - 0 1", 0), ("go depth 3", 0), ("stop", 1.0)]
            return cmds[:k] + tail
        sessions.append((f"newgame-{seed}-{i}", mk, False))
    out = run_sessions(res, "sessions", sessions)
    # OBSERVABLE: a mate-in-one (…Rd1#) whose mated successor was a search root of game 1 must be played after ucinewgame
    # exactly as in a fresh process — whatever game 1 looked like (search collected by stop/position/go or not) and whatever
    # comes between `ucinewgame` and the search (nothing, isready, a book `go` from the start position, stop, a second
    # ucinewgame, position commands): a stale history would value the mating move as a repetition
    exe, _ = wee.build_weechess()
    if exe:
        pl = uci_proc.Planner()
        mated, pred = "8/8/8/8/8/k7/8/K2r4 w - - 5 4", "8/8/8/8/8/k2r4/8/K7 b - - 4 3"
        probe = [(f"position fen {pred}", 0), ("go depth 3", 0), ("stop", 1.0)]
        game1s = [[(f"position fen {mated}", 0), ("go depth 1", 0), ("stop", 0.3)],
                  [(f"position fen {mated}", 0), ("go depth 1", 0)],
                  [(f"position fen {mated}", 0), ("go", 0), ("position startpos", 0.2)],
                  [(f"position fen {pred}", 0), ("go depth 2", 0), ("stop", 0.5), (f"position fen {mated}", 0), ("go depth 1", 0), ("stop", 0.2)],
                  # game 1 ALSO searches the probe position itself after its mated successor was recorded: its table then holds a
                  # root entry for the probe position that prefers a non-mating move (the mating move was a repetition there)
                  [(f"position fen {mated}", 0), ("go depth 1", 0), ("stop", 0.3), (f"position fen {pred}", 0), ("go depth 3", 0), ("stop", 1.0)]]
        middles = [[], [("isready", 0)], [("position startpos", 0), ("go", 0)], [("position startpos", 0), ("go depth 1", 0), ("isready", 0)],
                   [("stop", 0)], [("ucinewgame", 0)], [("position startpos moves e2e4", 0), ("go", 0), ("stop", 0)],
                   [("position startpos", 0), ("go", 0), ("position startpos moves d2d4 d7d5", 0), ("go", 0)]]
        fresh = pl.plan(probe)
        cf = {}
        uci_proc.run_session(exe, fresh, capture=cf)
        want = (cf.get("bestmoves") or ["none"])[-1]
        combos = [(g, m) for g in game1s for m in middles]
        if not (tier == "thorough" or deep):
            combos = [combos[0]] + rnd.sample(combos[1:], 7)
        else:
            # MANY new games between game 1 and the probe (255, 256, 257, 512 × ucinewgame): a reset that is a counter of
            # limited width instead of a fresh memory comes round again
            combos += [(g, [("ucinewgame", 0)] * (k - 1)) for k in (255, 256, 257, 512) for g in (game1s[0], game1s[4])]
        for g, m in combos:
            cmds = g + [("ucinewgame", 0)] + m + probe
            c1 = {}
            uci_proc.run_session(exe, pl.plan(cmds), capture=c1, strict_bestmove=False)
            got = (c1.get("bestmoves") or ["none"])[-1]
            res.add("session observable (mate-in-1 after ucinewgame vs a fresh process): " + " ; ".join(c for c, d in cmds), got, got, want, None)
            res.tag("observable_newgame_sessions")
        pl.close()
    return "command histories (searches finished, running, stopped or not) followed by ucinewgame: the hook trace must show no running search and no stored artifact, and the following search is planned by the model as a fresh-memory search; plus the observable scenario: the successor of a mate-in-1 is searched in game 1, after ucinewgame the mating move must still be played (a stale history would treat it as a repetition)"


def illegal_fen(rnd):
    """a syntactically valid FEN whose position is not a legal chess position"""
    k = rnd.randrange(8)
    base = random_placement(rnd).split(" ")[0]
    rows = base.split("/")
    stm = rnd.choice("wb")
    rights, ep = "-", "-"
    if k == 0:      # arbitrary placement: kings missing / doubled / adjacent, either side in check
        pass
    elif k == 1:    # no kings at all
        base = re.sub(r"[kK]", "Q", base)
    elif k == 2:    # one side without king
        base = re.sub(r"k", "n", base) if rnd.random() < 0.5 else re.sub(r"K", "N", base)
    elif k == 3:    # pawns on the back ranks
        rows[0] = rnd.choice(["P7", "p7", "PPPPPPPP", "3Pp3"]); rows[7] = rnd.choice(["p7", "P7", "pppppppp", "3pP3"])
        base = "/".join(rows)
    elif k == 4:    # castling rights without king / rook at home
        rights = rnd.choice(["KQkq", "K", "Qk", "kq"])
    elif k == 5:    # en-passant target with nothing behind it
        ep = rnd.choice("abcdefgh") + rnd.choice("36")
    elif k == 6:    # side not to move in check by a rook next to its king
        base = "k6K/R7/8/8/8/8/8/8" if stm == "w" else "K6k/r7/8/8/8/8/8/8"
    else:           # everything at once
        rights, ep = "KQkq", rnd.choice("abcdefgh") + rnd.choice("36")
        base = re.sub(r"K", "P", base)
    return f"{base} {stm} {rights} {ep} {rnd.randrange(0, 100)} {rnd.randrange(1, 200)}"


def c14_uci(res, tier, seed, deep):
    import uci_proc
    rnd = random.Random(seed + 77)
    n = 80 if tier == "thorough" else (16 if deep else 6)
    sessions = [("f4-short-token", [("position startpos moves e2", 0), ("isready", 0), ("position startpos moves \u00e92e4", 0), ("isready", 0)], False)]
    for i in range(n):
        r = random.Random(rnd.getrandbits(32))
        lines = uci_proc.garbage_lines(r, r.randrange(6, 16))
        # half of the sessions start outside the opening book, so that `go …` really spawns a search
        pre = [("position fen " + r.choice(uci_proc.NONBOOK), 0)] if i % 2 == 0 else []
        sessions.append((f"garbage-{seed}-{i}", pre + [(l, 0) for l in lines] + [("stop", 0), ("isready", 0)], False))
    for j, arg in enumerate(["movetime -50", "movetime -1", "movetime 0", "depth 0", "movetime 2147483647", "depth 99999999999999999999"]):
        sessions.append((f"bad-numbers-{j}", [("position fen " + uci_proc.NONBOOK[j % len(uci_proc.NONBOOK)], 0), ("go " + arg, 0), ("isready", 0.2), ("stop", 0), ("isready", 0)], False))
    # syntactically valid FENs of ILLEGAL positions (a king missing or doubled, the side not to move in check, pawns
    # on the back ranks, rights without rook/king, bogus en-passant targets, empty board) followed by moves and `go`:
    # "bad FEN" in the sense of C14 — the parser accepts them, the process must survive whatever the search does
    fixed_illegal = ["k7/8/8/8/8/8/8/7R w - - 0 1", "k6R/8/8/8/8/8/8/K7 w - - 0 1", "kQ6/8/8/8/8/8/8/7K w - - 0 1",
                     "8/8/8/8/8/8/8/8 w - - 0 1", "k7/8/8/8/8/8/8/8 b - - 0 1", "kk5K/8/8/8/8/8/8/R7 w - - 0 1"]
    nill = 40 if tier == "thorough" else (12 if deep else 6)
    ill = fixed_illegal + [illegal_fen(rnd) for _ in range(nill)]
    for j, f in enumerate(ill):
        cmds = [("position fen " + f + (" moves " + rnd.choice(["e2e4", "a8b8", "h1h8", "a7a8q", "e1g1"]) if j % 3 == 2 else ""), 0),
                ("go depth " + str(rnd.choice([1, 2, 3])), 0), ("isready", 0.4), ("stop", 0), ("isready", 0),
                ("go movetime 50", 0), ("isready", 0.3), ("ucinewgame", 0), ("isready", 0)]
        sessions.append((f"illegal-position-{j}", cmds, False))
    # a REJECTED command sent again: `position <base> moves m1 … mk X` where every token is well-formed but X is not legal after
    # m1 … mk (answered `info string invalid move`), then the same line once more, then the same line with more moves appended,
    # then the legal prefix alone and a search — a handler that keeps anything from the command it rejected meets it here
    def resend_session(pl, r):
        f = r.choice([None] + uci_proc.NONBOOK)
        lans, _ = uci_proc.random_walk(pl, r, f if f else "rnbqkbnr/pppppppp/8/8/8/8/PPPPPPPP/RNBQKBNR w KQkq - 0 1", r.randrange(0, 5))
        base = "position " + ("fen " + f if f else "startpos")
        bad = r.choice(["e1e3", "a1a1", "e1h1", "e8h8", "h7h8q", "e2e5", "b1b3", "d1d8", "a2a1q", "g8g6"])
        rejected = base + " moves " + " ".join(lans + [bad])
        more = r.choice(["e7e5", "g8f6", "a7a6", "e2e4", "b1c3"])
        cmds = [(rejected, 0), ("isready", 0), (rejected, 0), ("isready", 0), (rejected + " " + more, 0), ("isready", 0),
                (rejected, 0), (base + (" moves " + " ".join(lans) if lans else ""), 0), ("isready", 0),
                ("go depth 1", 0), ("isready", 0.3), ("stop", 0), (rejected + " " + more + " " + more, 0), ("isready", 0)]
        return cmds
    for j in range(24 if tier == "thorough" else (10 if deep else 5)):
        sessions.append((f"rejected-resent-{j}", (lambda pl, r=random.Random(rnd.getrandbits(32)): resend_session(pl, r)), False))
    # liveness only: outside C07's command grammar (e.g. `go depth 0`) no bestmove is owed
    run_sessions(res, "uci_garbage_sessions", sessions, strict_bestmove=False)


def ray_mask(sq_, dirs):
    m = 0
    f0, r0 = sq_ % 8, sq_ // 8
    for df, dr in dirs:
        f, r = f0 + df, r0 + dr
        while 0 <= f + df <= 7 and 0 <= r + dr <= 7:
            m |= 1 << (r * 8 + f)
            f, r = f + df, r + dr
    return m


ROOK_D = [(0, 1), (0, -1), (1, 0), (-1, 0)]
BISH_D = [(1, 1), (1, -1), (-1, 1), (-1, -1)]


def subsets(mask):
    s = 0
    while True:
        yield s
        s = (s - mask) & mask
        if s == 0:
            break


def c09(res, tier, seed, deep):
    rnd = random.Random(seed)
    reqs = []
    for k in ("n", "k", "pw", "pb"):
        for s in range(64):
            reqs.append(f"leaper {k} {s}")
    for s in range(64):
        rm, bm = ray_mask(s, ROOK_D), ray_mask(s, BISH_D)
        # every subset of every relevance mask = every slot of every magic table (107648 requests,
        # a few seconds): a single wrong slot cannot hide, in either tier
        for kind, mask in (("r", rm), ("b", bm)):
            for sub in subsets(mask):
                reqs.append(f"slider {kind} {s} {sub | (rnd.getrandbits(64) & ~mask if sub % 3 == 0 else 0)}")
        cnt = 400 if tier == "thorough" else (60 if deep else 12)
        for _ in range(cnt):
            for kind, mask in (("r", rm), ("b", bm), ("q", rm | bm)):
                occ = rnd.getrandbits(64)
                mode = rnd.randrange(4)
                if mode == 0:
                    occ &= rnd.getrandbits(64)
                elif mode == 1:
                    occ &= mask
                elif mode == 2:
                    occ = (occ & mask) | (rnd.getrandbits(64) & rnd.getrandbits(64) & ~mask)
                reqs.append(f"slider {kind} {s} {occ}")
        for kind in ("r", "b", "q"):
            reqs.append(f"slider {kind} {s} 0")
            reqs.append(f"slider {kind} {s} {(1 << 64) - 1}")
    for i in range(0, len(reqs), 200000):
        wee.compare_batch(res, reqs[i:i + 200000], SPEC_VIEWS)
    res.exhaustive = True
    return "all 4x64 leaper tables; every subset of every rook and bishop relevance mask (all 107648 table slots) with off-ray noise on a third of them; per square and slider kind additional random occupancies (dense, sparse, on-mask only, on-mask plus off-ray noise), empty and full boards (thorough: 400 per square and kind)"


def random_placement(rnd):
    """arbitrary (not necessarily legal) placement as canonical FEN"""
    cells = [None] * 64
    for _ in range(rnd.randrange(2, 28)):
        cells[rnd.randrange(64)] = rnd.choice("PNBRQKpnbrqk")
    rows = []
    for r in range(7, -1, -1):
        row, run = "", 0
        for f in range(8):
            c = cells[r * 8 + f]
            if c is None:
                run += 1
            else:
                row += (str(run) if run else "") + c
                run = 0
        rows.append(row + (str(run) if run else ""))
    return "/".join(rows) + f" {rnd.choice('wb')} - - 0 1"


def promotion_line_family(rnd, count):
    """a pawn one step from promotion whose promotion square lies ON A LINE an enemy slider looks along (back rank, or a
    diagonal through the square) — the quiet promotion interposes on that line, the capture-promotions change it — with the
    mover's king beyond the square, elsewhere on the line, or off it; both colours.  After such a move every attack set that
    was computed for the position before is wrong for the position after.  Kept when legal (model)."""
    cands = []
    for _ in range(count * 5):
        cells = {}
        f = rnd.randrange(8)
        cells[6 * 8 + f] = "P"
        T = 7 * 8 + f
        # enemy slider on the back rank or on a diagonal through T
        line = rnd.choice(["rank", "diag"])
        if line == "rank":
            sf = rnd.choice([x for x in range(8) if x != f])
            cells[7 * 8 + sf] = rnd.choice("rq")
            beyond = [7 * 8 + x for x in (range(f + 1, 8) if sf < f else range(0, f))]
        else:
            d = rnd.choice([-1, 1])
            k = rnd.randrange(1, 7)
            sfile, srank = f + d * k, 7 - k
            if not (0 <= sfile <= 7 and srank >= 0) or srank * 8 + sfile in cells:
                continue
            cells[srank * 8 + sfile] = rnd.choice("bq")
            beyond = []
        mode = rnd.random()
        if beyond and mode < 0.5:
            cells[rnd.choice(beyond)] = "K"
        else:
            for _ in range(30):
                ks = rnd.randrange(64)
                if ks not in cells and ks != T:
                    cells[ks] = "K"
                    break
        for _ in range(30):
            ks = rnd.randrange(48)
            if ks not in cells:
                cells[ks] = "k"
                break
        # capture-promotion targets and some bystanders
        for ch in rnd.choices("nrbpNB", k=rnd.randrange(0, 4)):
            for _ in range(20):
                s2 = rnd.randrange(64)
                if s2 not in cells and s2 != T and not (ch in "pP" and s2 // 8 in (0, 7)):
                    cells[s2] = ch
                    break
        white = rnd.random() < 0.5
        if not white:
            cells = {(7 - s0 // 8) * 8 + s0 % 8: c.swapcase() for s0, c in cells.items()}
        rows = []
        for r in range(7, -1, -1):
            row, run = "", 0
            for ff in range(8):
                c = cells.get(r * 8 + ff)
                if c is None:
                    run += 1
                else:
                    row += (str(run) if run else "") + c
                    run = 0
            rows.append(row + (str(run) if run else ""))
        cands.append("/".join(rows) + f" {'w' if white else 'b'} - - 0 1")
    cands = sorted(set(cands))
    leg, _, _ = wee.run_driver(["legalpos " + c for c in cands], jobs=8)
    keep = [c for c, (m, sp) in zip(cands, leg) if sp == "1"]
    rnd.shuffle(keep)
    return keep[:count]


def c10(res, tier, seed, deep):
    n = 30000 if tier == "thorough" else (10000 if deep else 4000)
    rnd = random.Random(seed)
    fens = positions(seed + 3, n)
    fens += [random_placement(rnd) for _ in range(n // 2)]
    reqs = []
    letters = "aApPcCs"
    for f in fens:
        order = list(letters) + [rnd.choice(letters) for _ in range(3)]
        rnd.shuffle(order)
        for _ in range(rnd.randrange(0, 4)):
            order.insert(rnd.randrange(len(order) + 1), "k")
        reqs.append(f"attacks {''.join(order)} {f}")
    # positions REACHED BY A MOVE: the successor object built by make-move (never re-read from FEN) must answer the check
    # queries like the rules do — every legal move of generated positions and of the en-passant family (captures that
    # open a second line)
    epf = ep_family_legal()
    if not (tier == "thorough" or deep):
        epf = random.Random(seed + 8).sample(epf, min(len(epf), 1200))
    reqs += ["checkafter " + f for f in epf + fens[: (6000 if tier == "thorough" else 1500)]]
    # … and the ATTACK SETS of the successor objects, with the predecessor's sets queried BEFORE the move is made (as a game or a
    # search does): nothing computed for the position before may survive into the object after.  Promotions onto a line an
    # enemy slider looks along (the promotion square is not the origin of any moving piece), en-passant captures, play positions
    plf = promotion_line_family(random.Random(seed + 9), 1500 if (tier == "thorough" or deep) else 300)
    res.tags["promotion_line_positions"] = len(plf)
    reqs += ["attacksafter " + f for f in plf + epf[: (len(epf) if (tier == "thorough" or deep) else 300)] + fens[: (3000 if tier == "thorough" else 500)]]
    reqs += ["checkafter " + f for f in plf]
    wee.compare_batch(res, reqs, SPEC_VIEWS)
    return "legal positions (as C01) and arbitrary placements; successor objects of every legal move of generated positions and of the systematic en-passant family (State::is_check / Board::is_check on the object make-move built); per position a random order of the seven queries (all/pawn attacks and check for both colours, State::is_check) with repeats and clones of the position object interleaved; attack sets and check flags of the successor objects of every legal move after the predecessor's sets were queried (promotion-onto-a-slider-line family, en-passant family, play positions); distinct = distinct request lines"


def rights_variants(fen, rnd):
    parts = fen.split(" ")
    if parts[2] == "-":
        return [fen]
    out = []
    letters = parts[2]
    for mask in range(1 << len(letters)):
        sub = "".join(ch for i, ch in enumerate(letters) if mask >> i & 1) or "-"
        out.append(" ".join(parts[:2] + [sub] + parts[3:]))
    return out


def play_lines(rnd, starts, plies):
    """random legal walks of the MODEL, all lines advanced in lockstep (one driver batch per ply): [(start fen, [raw …])];
    en-passant captures, castling and promotions are taken with high probability when they are available"""
    cur = list(starts)
    lines = [[] for _ in starts]
    alive = [True] * len(starts)
    for _ in range(plies):
        idx = [i for i in range(len(cur)) if alive[i]]
        if not idx:
            break
        mv = model_moves([cur[i] for i in idx])
        picks = []
        for i, (f, ms) in zip(idx, mv):
            if not ms:
                alive[i] = False
                continue
            special = [m for m in ms if m[2][6] == "1" or m[2][8] != "-" or m[2][5] != "0"]
            m = rnd.choice(special) if (special and rnd.random() < 0.7) else rnd.choice(ms)
            picks.append((i, m[1]))
        so, _, _ = wee.run_driver([f"apply {raw} {cur[i]}" for i, raw in picks], jobs=4)
        for (i, raw), (m, sp) in zip(picks, so):
            if m.startswith("err") or m == "panic" or m == "badfen":
                alive[i] = False
                continue
            lines[i].append(raw)
            cur[i] = m
    return [(f, l) for f, l in zip(starts, lines) if l]


def c11(res, tier, seed, deep):
    n = 20000 if tier == "thorough" else (5000 if deep else 1500)
    rnd = random.Random(seed)
    fens = positions(seed + 5, n)
    extra = []
    for f in fens[:400]:
        extra += rights_variants(f, rnd)
    for f in fens[:300]:
        p = f.split(" ")
        for h, fm in ((0, 1), (99, 50), (2 ** 64 - 1, 2 ** 64 - 1), (2 ** 63, 12345678901234567890 % 2 ** 64), (100, 2 ** 32)):
            extra.append(" ".join(p[:4] + [str(h), str(fm)]))
    allf = fens + extra
    # the reader must not carry anything from one call to the next: malformed strings (regex-passing but over-long
    # placements, wrong field counts, digit floods …: the C14 mutation operators) are interleaved with the valid ones,
    # all read by ONE thread of the real code in this order
    mixed = []
    for k, f in enumerate(allf):
        mixed.append(f)
        if k % 5 == 0:
            g = rnd.choice(allf)
            mixed.append(rnd.choice([mutate_fen(g, rnd), overlong_placement(g, rnd)]))
    reqs = [f"fen {hexs(f)}" for f in mixed]
    res.tags["malformed_interleaved"] = len(mixed) - len(allf)
    wee.compare_batch(res, reqs, SPEC_VIEWS)
    # the first clause of C11 on OBJECTS REACHED BY PLAY IN THE REAL CODE: lines of moves are made one after the other with the
    # public make-move (the object is never re-read; every object on the way is queried first, as a game does), and after every
    # ply the object and the object re-read from its own FEN must answer alike: FEN, legal moves in order, hash, evaluation from
    # both sides.  Lines start from the en-passant families (the capture is taken when available), castling positions,
    # positions from play; special moves (en passant, castling, promotions) are preferred.
    epl = ep_family_legal()
    starts = rnd.sample(epl, min(len(epl), 1200 if (tier == "thorough" or deep) else 250)) \
        + castle_transit_family(rnd, 60 if (tier == "thorough" or deep) else 20) \
        + rnd.sample(fens, min(len(fens), 400 if (tier == "thorough" or deep) else 100))
    pl = play_lines(rnd, starts, 10 if (tier == "thorough" or deep) else 7)
    preqs = [f"playline {rnd.getrandbits(16)} {f.replace(' ', '_')} " + " ".join(str(r) for r in l) for f, l in pl]
    pimpl, _, _ = wee.run_lines_parallel(wee.harness_path(), preqs, jobs=8, timeout=900)
    pdrv, _, _ = wee.run_driver(preqs, jobs=14)
    pimpl += ["<no-output>"] * (len(preqs) - len(pimpl))
    for r, i, (m, sp) in zip(preqs, pimpl, pdrv):
        res.add(r, i, m, "reread-same", (lambda x: "reread-same" if ("REREAD-DIFFERS" not in x and "nomove" not in x and "error" not in x and "<" not in x) else "object reached by play differs from its own FEN read back: " + x[x.find("REREAD-DIFFERS") - 120:][:400]))
        res.tag("played_lines")
    res.tags["played_plies"] = sum(len(l) for f, l in pl)
    return "canonical FEN of positions reached by play (spec writer, independent of the code), all subsets of the castling rights held, en-passant squares on both ranks (from play), extreme counters up to 2^64-1, interleaved with malformed strings read by the same thread (no state may leak from one read to the next); the spec accepts exactly canonical strings and demands character-for-character reproduction; lines of 7-10 moves played on the real objects (en-passant families, castling, promotions preferred), after every ply the object vs the object re-read from its FEN: same FEN, legal moves, hash, evaluations"


def castle_check_family(rnd, count):
    """positions in which CASTLING GIVES CHECK OR MATE (the rook lands on the enemy king's file with nothing in between; the
    king is boxed in by its own men with some probability): both colours, both sides.  SAN spells these `O-O+`, `O-O#`,
    `O-O-O+`, `O-O-O#` — the only spellings in which a castle carries a suffix.  Kept when the model finds the castle legal."""
    cands = []
    for _ in range(count * 60):
        black = rnd.random() < 0.5
        kingside = rnd.random() < 0.5
        home = 7 if black else 0
        cells = {home * 8 + 4: "K", home * 8 + (7 if kingside else 0): "R"}
        rf = 5 if kingside else 3                       # file the rook lands on
        dist = rnd.randrange(2, 8)                      # enemy king that many ranks away on that file
        kr = home - dist if black else home + dist
        ks = kr * 8 + rf
        cells[ks] = "k"
        for df in (-1, 0, 1):
            for dr in (-1, 0, 1):
                f2, r2 = rf + df, kr + dr
                if (df, dr) == (0, 0) or not (0 <= f2 <= 7 and 0 <= r2 <= 7):
                    continue
                s2 = r2 * 8 + f2
                between = f2 == rf and (home < r2 < kr or kr < r2 < home)
                if s2 in cells or between or r2 == home:
                    continue
                if rnd.random() < 0.85:
                    ch = rnd.choice("ppprrnb")
                    if ch == "p" and r2 in (0, 7):
                        ch = "r"
                    cells[s2] = ch
        if black:
            cells = {s: c.swapcase() for s, c in cells.items()}
        rows = []
        for r in range(7, -1, -1):
            row, run = "", 0
            for f in range(8):
                c = cells.get(r * 8 + f)
                if c is None:
                    run += 1
                else:
                    row += (str(run) if run else "") + c
                    run = 0
            rows.append(row + (str(run) if run else ""))
        right = ("k" if kingside else "q") if black else ("K" if kingside else "Q")
        cands.append("/".join(rows) + f" {'b' if black else 'w'} {right} - 0 1")
    cands = sorted(set(cands))
    leg, _, _ = wee.run_driver(["legalpos " + f for f in cands], jobs=8)
    cands = [f for f, (m, sp) in zip(cands, leg) if sp == "1"]
    mm = [(f, [m for m in ms if m[2][8] != "-"]) for f, ms in model_moves(cands)]
    keep = [(f, {m[1] for m in cs}) for f, cs in mm if cs]
    # which of them MATE by castling (`matekinds` lists the mating moves of a position)
    mk, _, _ = wee.run_driver(["matekinds " + f for f, cs in keep], jobs=8)
    mates = [f for (f, cs), (m, sp) in zip(keep, mk) if any(t.split(":")[0].isdigit() and int(t.split(":")[0]) in cs for t in sp.split(" "))]
    others = [f for f, cs in keep if f not in set(mates)]
    rnd.shuffle(mates)
    rnd.shuffle(others)
    mates = mates[: count // 2]
    return mates + others[: count - len(mates)]


def c12(res, tier, seed, deep):
    n = 4000 if tier == "thorough" else (1200 if deep else 500)
    fens = positions(seed + 7, n)
    ccf = castle_check_family(random.Random(seed + 77), 120 if (tier == "thorough" or deep) else 40)
    res.tags["castle_with_check_positions"] = len(ccf)
    fens = fens + ccf
    rc, out, err = wee.run([wee.DRIVER, "sanreqs"], input_text="\n".join(fens) + "\n", timeout=3600)
    reqs = [l for l in out.split("\n") if l.strip()]
    bad = [r for r in reqs if " MISSING " in r]
    if bad:
        res.broken.append("spec move without model counterpart: " + bad[0][:200])
        reqs = [r for r in reqs if " MISSING " not in r]
    wee.compare_batch(res, reqs, SPEC_VIEWS, nontrivial=lambda r, i: True)
    neg = sum(1 for r in reqs if r.startswith("sanmatch") and r.split(" ")[2] == "-")
    res.tags["negative_cases"] = neg
    res.tags["lan_cases"] = sum(1 for r in reqs if r.startswith("lan"))
    return "for every legal move of every generated position: every admissible SAN spelling from the independent SAN writer (4 disambiguations x promotion suffix forms x optional check marks, castles) must select exactly that move (first match and filter); every pseudo-legal-but-illegal move, fully disambiguated, must select nothing; LAN text of every legal move"


def overlong_placement(f, rnd):
    """a placement the FEN regex accepts but that describes more than 64 squares (or more than 8 in a rank)"""
    parts = f.split(" ")
    rows = parts[0].split("/")
    k = rnd.randrange(8)
    rows[k] = rows[k] + rnd.choice(["R", "p", "8", "NN", "1q1", "44"])
    if rnd.random() < 0.3:
        rows[7] = rows[7] + "RNBQKBNR"
    return " ".join(["/".join(rows)] + parts[1:])


def mutate_fen(f, rnd):
    parts = f.split(" ")
    m = rnd.randrange(14)
    if m == 0:
        parts = parts[:rnd.randrange(1, 6)]
    elif m == 1:
        parts.insert(rnd.randrange(7), rnd.choice(["x", "-", "w", "0", ""]))
    elif m == 2:
        rows = parts[0].split("/")
        rows[rnd.randrange(8)] = "8" * rnd.choice([2, 4, 31, 32, 33, 40, 64])
        parts[0] = "/".join(rows)
    elif m == 3:
        rows = parts[0].split("/")
        rows[rnd.randrange(8)] += rnd.choice(["PPPPPPPPP", "9", "0", "k" * 70, "1" * 300])
        parts[0] = "/".join(rows)
    elif m == 4:
        parts[4] = rnd.choice(["99999999999999999999", "18446744073709551616", "-1", "+1", "٣", "１", "0x10", ""])
    elif m == 5:
        parts[5] = rnd.choice(["99999999999999999999999", "１２", "1e3", " "])
    elif m == 6:
        parts[3] = rnd.choice(["a9", "i3", "e", "e33", "é3", "a0", "h8"])
    elif m == 7:
        parts[2] = rnd.choice(["KQkqK", "|", "K|q", "--", "kK", "-K", "QQQQ", ""])
    elif m == 8:
        parts[1] = rnd.choice(["|", "W", "wb", ""])
    elif m == 9:
        s = " ".join(parts)
        i = rnd.randrange(len(s) + 1)
        return s[:i] + rnd.choice([" ", " ", "\t", "\n", "é", "\U0001F600", "٣", "\x00"]) + s[i:]
    elif m == 10:
        return rnd.choice([" ", "　", "\t", " "]).join(parts)
    elif m == 11:
        rows = parts[0].split("/")
        rows = rows[:rnd.randrange(1, 8)] + (["8"] * rnd.choice([0, 3, 9]))
        parts[0] = "/".join(rows)
    elif m == 12:
        s = " ".join(parts)
        return s + rnd.choice([" ", "\n", " 1", "/"])
    else:
        s = list(" ".join(parts))
        for _ in range(rnd.randrange(1, 4)):
            s[rnd.randrange(len(s))] = chr(rnd.choice([rnd.randrange(32, 127), rnd.randrange(128, 0x2100)]))
        return "".join(s)
    return " ".join(parts)


def random_text(rnd, alphabet, n):
    return "".join(rnd.choice(alphabet) for _ in range(n))


SAN_ALPHA = "abcdefgh12345678KQRBNPOx=+#-o09iZ é "


def c14_parsers(res, tier, seed, deep, harness=None, profile="d"):
    n = 60000 if tier == "thorough" else (12000 if deep else 4000)
    rnd = random.Random(seed)
    fens = positions(seed + 9, 400)
    strings = []
    for _ in range(n):
        strings.append(mutate_fen(rnd.choice(fens), rnd))
    # regression inputs of known defects
    strings.append("8/8/8/8/8/8/8/" + "8" * 32 + " w - - 0 1")
    strings.append("/".join(["8" * 32] * 8) + " w - - 0 1")
    reqs = [f"fen {hexs(s)} {profile}" for s in strings]
    sans = []
    for _ in range(n):
        k = rnd.randrange(4)
        if k == 0:
            sans.append(random_text(rnd, SAN_ALPHA, rnd.randrange(0, 9)))
        elif k == 1:
            base = rnd.choice(["e4", "Nf3", "exd5", "O-O", "O-O-O", "e8=Q", "Rad1", "Qh4xe1+", "bxa8=N#", "R1a3"])
            i = rnd.randrange(len(base) + 1)
            sans.append(base[:i] + rnd.choice(SAN_ALPHA) + base[i:])
        elif k == 2:
            sans.append(random_text(rnd, [chr(c) for c in range(1, 0x250)], rnd.randrange(1, 6)))
        else:
            sans.append(rnd.choice(["", "+", "#", "=", "x", "O-O-O-O", "Z9", "e9", "i4", "Q=Q=Q", "♔e4", "e4♔"]))
    reqs += [f"san {hexs(s)}" for s in sans]
    # make-move on positions whose counters sit at the top of the usize range (F9: `+ 1` panicked with overflow checks
    # and wrapped without): every successor, in this build profile; the model saturates like the repaired code
    top = [2**64 - 1, 2**64 - 2, 2**63, 2**32 - 1]
    for f in fens[:60]:
        parts = f.split(" ")
        parts[4], parts[5] = str(rnd.choice(top + [0])), str(rnd.choice(top))
        reqs.append("succ " + " ".join(parts))
    views = {"fen": sv_nopanic, "san": sv_nopanic, "succ": sv_nopanic}
    impl, rc, err = wee.run_lines(harness or wee.harness_path(), reqs)
    drv, rc2, err2 = wee.run_driver(reqs)
    if len(impl) != len(reqs):
        res.broken.append(f"harness died/hung: {len(impl)} answers for {len(reqs)} requests")
        impl += ["<no-output>"] * (len(reqs) - len(impl))
    for req, i, (m, s) in zip(reqs, impl, drv):
        # spec: never panics
        res.add(req, i, m, "nopanic", views[req.split(" ")[0]], nontrivial=(i != "err"))
        res.tag("impl_" + i.split(" ")[0])
    return "FEN strings: 14 mutation operators over canonical FENs of generated positions (field count, over-long ranks incl. 32x'8', digit floods, 20+ digit and non-ASCII counters, Unicode spaces, multi-byte characters at random offsets, random replacements); SAN strings: random over a SAN alphabet, single-character insertions into valid tokens, random Unicode; spec = no panic; non-trivial = accepted by the parser"


def tt_ops(rnd, tables, buckets, nops):
    ops = []
    span = tables * buckets
    keys = []
    for _ in range(nops):
        r = rnd.random()
        if keys and r < 0.35:
            k = rnd.choice(keys)
        elif r < 0.7:
            # bucket-aligned collisions
            base = rnd.randrange(span) if not keys else rnd.choice(keys) % span
            k = base + span * rnd.randrange(0, 40)
        elif r < 0.8:
            k = rnd.getrandbits(64)
        elif r < 0.9 and keys:
            # PARTIAL-KEY collisions: a different key that agrees with an earlier one in its low 32 bits, its high 32 bits,
            # its xor-fold to 32 or 16 bits, or its low 48 bits — and in table and bucket: a table that compares anything
            # less than the full 64-bit key hands out a neighbour's entry exactly here
            k0 = rnd.choice(keys)
            k = k0
            for _ in range(4000):
                x = rnd.getrandbits(32) | 1
                mode = rnd.randrange(5)
                if mode == 0:
                    c = k0 ^ (x << 32)                      # same low 32
                elif mode == 1:
                    c = k0 ^ x                              # same high 32
                elif mode == 2:
                    c = k0 ^ ((x << 32) | x)                # same hi32 ^ lo32
                elif mode == 3:
                    y = x & 0xFFFF
                    c = k0 ^ (y << 48) ^ (y << 32) if y else k0 ^ 1   # same 16-bit xor-fold
                else:
                    c = k0 ^ ((x & 0xFFFF) << 48)           # same low 48
                if c != k0 and c % tables == k0 % tables and (c % buckets) == (k0 % buckets):
                    k = c
                    break
        else:
            k = rnd.randrange(0, 3 * span + 5)
        keys.append(k)
        x = rnd.random()
        if x < 0.55:
            ops.append(f"i:{k}:{rnd.randrange(3)}:{rnd.getrandbits(29)}:{rnd.randrange(8)}:{rnd.randrange(8, 20)}:{rnd.randrange(-20000, 20000)}")
        elif x < 0.93:
            ops.append(f"f:{k}")
        else:
            ops.append("n")
    ops.append("n")
    return ops


def c15(res, tier, seed, deep):
    rnd = random.Random(seed)
    n = 6000 if tier == "thorough" else (1500 if deep else 400)
    reqs = []
    shapes = [(1, 1), (1, 2), (2, 1), (2, 2), (3, 1), (1, 3), (2, 3), (4, 4), (8, 16), (3, 5)]
    for i in range(n):
        t, b = shapes[i % len(shapes)] if i % 3 else (rnd.randrange(1, 6), rnd.randrange(1, 6))
        reqs.append(f"tt {t} {b} " + " ".join(tt_ops(rnd, t, b, rnd.choice([5, 20, 60, 150]))))
    impl, rc, err = wee.run_lines(wee.harness_path(), reqs)
    drv, rc2, err2 = wee.run_driver(reqs)
    if len(impl) != len(reqs):
        res.broken.append("harness died on tt requests")
        impl += ["<no-output>"] * (len(reqs) - len(impl))
    for req, i, (m, s) in zip(reqs, impl, drv):
        ok = tt_spec_ok(i, s)
        res.add(req, i, m, "spec-ok", (lambda x, ok=ok: "spec-ok" if ok else "spec-violated"),
                nontrivial=("may=" in s))
        if " may=" in s:
            res.tag("bucket_overflowed")
    # real threads: replay the ticket-ordered log on the model
    runs = 60 if tier == "thorough" else (20 if deep else 8)
    creqs = []
    for i in range(runs):
        t, b = rnd.choice([(1, 1), (1, 2), (2, 2), (3, 2), (2, 4)])
        th = rnd.choice([2, 4, 8, 16, 32])
        creqs.append(f"ttconc {t} {b} {th} {rnd.choice([50, 200, 600])} {rnd.getrandbits(32)} {rnd.choice([6, 24, 100])}")
    cout, rc, err = wee.run_lines(wee.harness_path(), creqs)
    replay_reqs, expected = [], []
    for req, o in zip(creqs, cout):
        toks = o.split(" ")
        p = req.split(" ")
        ops, exp = [], []
        for tk in toks[1:]:
            m = re.fullmatch(r"(\d+)i:(.*)", tk)
            if m:
                ops.append("i:" + m.group(2))
                exp.append("i")
                continue
            m = re.fullmatch(r"(\d+)f:(\d+)=(.*)", tk)
            if m:
                ops.append("f:" + m.group(2))
                exp.append(m.group(3))
        ops.append("n")
        exp.append(toks[0])
        replay_reqs.append(f"tt {p[1]} {p[2]} " + " ".join(ops))
        expected.append(" ".join(exp))
    drv, rc2, err2 = wee.run_driver(replay_reqs)
    for creq, rreq, e, (m, s) in zip(creqs, replay_reqs, expected, drv):
        ok = tt_spec_ok(e, s)
        res.add(creq + " => " + rreq[:400], e, m, "spec-ok", (lambda x, ok=ok: "spec-ok" if ok else "spec-violated"))
        res.tag("concurrent_runs")
    # the table used the way a search uses it — from RAYON pool threads: every key is stored once up front, half of the pool
    # tasks re-store those keys (same-key stores never displace), the other half look them up; no bucket ever fills, so a
    # lookup that comes back empty, or with another key's entry, is a violation as observed by the CALLER (the operation log
    # above is taken inside the critical sections and cannot see a lookup that gave up before entering one)
    rreqs = []
    for i in range(12 if tier == "thorough" else (6 if deep else 3)):
        t, b = rnd.choice([(1, 1), (1, 2), (2, 2), (2, 4), (4, 8)])
        rreqs.append(f"ttrayon {t} {b} {rnd.choice([8, 16, 32])} {rnd.choice([20000, 50000])} {rnd.getrandbits(32)}")
    rout, _, _ = wee.run_lines(wee.harness_path(), rreqs, timeout=900, per_request_timeout=120)
    for r, o in zip(rreqs, rout):
        mm = re.search(r"finds=(\d+) lost=(\d+) foreign=(\d+)", o)
        ok = bool(mm) and mm.group(2) == "0" and mm.group(3) == "0" and int(mm.group(1)) > 0
        res.add(r, o, o, "all-found", (lambda x, ok=ok: "all-found" if ok else "lookup of a stored, never displaced key failed: " + x))
        res.tag("rayon_pool_runs")
    return "sequential op sequences over 10 fixed tiny shapes and random shapes, keys drawn to collide in table and bucket (k = base + tables*buckets*j), repeated keys, random 64-bit keys; finds compared with the abstract history (must return latest when the bucket never saw more than 8 distinct keys, else latest-or-nothing) and exactly with the Lean model; concurrent: 2-32 real threads on tiny tables, the ticket-ordered operation log recorded inside the critical sections is replayed on the model and every logged result compared; lookups of stored, never displaced keys from rayon pool threads while other pool threads re-store them (results as seen by the caller); non-trivial = some bucket overflowed"


def c20(res, tier, seed, deep):
    rnd = random.Random(seed)
    reqs = [f"mv castle {c} {s}" for c in "wb" for s in "KQ"]
    combos = []
    if tier == "thorough":
        for c in "wb":
            for p in range(1, 7):
                for o in range(64):
                    for d in range(64):
                        combos.append((c, p, o, d))
        for (c, p, o, d) in combos:
            cap, pr = rnd.randrange(1, 6), rnd.randrange(2, 6)
            reqs.append(f"mv move {c} {p} {o} {d} 0 0")
            reqs.append(f"mv cap {c} {p} {o} {d} {cap} 0")
            reqs.append(f"mv promo {c} {p} {o} {d} 0 {pr}")
            reqs.append(f"mv cappromo {c} {p} {o} {d} {cap} {pr}")
            if p == 1:
                reqs.append(f"mv ep {c} {p} {o} {d} 0 0")
        # every capture x promotion combination on a grid of squares
        for c in "wb":
            for p in range(1, 7):
                for cap in range(1, 6):
                    for pr in range(2, 6):
                        for o in (0, 7, 8, 27, 55, 56, 63):
                            for d in (0, 1, 9, 36, 62, 63):
                                reqs.append(f"mv cappromo {c} {p} {o} {d} {cap} {pr}")
    else:
        n = 60000 if deep else 15000
        for _ in range(n):
            c, p, o, d = rnd.choice("wb"), rnd.randrange(1, 7), rnd.randrange(64), rnd.randrange(64)
            if rnd.random() < 0.2:
                o, d = rnd.choice([0, 7, 56, 63, 8, 48]), rnd.choice([0, 7, 56, 63, 16, 24, 32, 40])
            kind = rnd.choice(["move", "cap", "promo", "cappromo", "ep"])
            reqs.append(f"mv {kind} {c} {p} {o} {d} {rnd.randrange(1, 6)} {rnd.randrange(2, 6)}")
    # equality: two constructed moves are equal exactly when all their attributes are — pairs that differ in ONE attribute
    # (each field, each marker: en passant vs the pawn capture on the same squares, promotion vs none, capture kinds, colour,
    # castle sides …) and identical pairs; `==`, `Hash` and HashSet membership of the real type
    def mvspec(kind, c, p, o, d, cap, pr):
        return f"{kind} {c} {p} {o} {d} {cap} {pr}"
    eqreqs = []
    for _ in range(40000 if tier == "thorough" else (12000 if deep else 4000)):
        c, p, o, d = rnd.choice("wb"), rnd.randrange(1, 7), rnd.randrange(64), rnd.randrange(64)
        cap, pr = rnd.randrange(1, 6), rnd.randrange(2, 6)
        kind = rnd.choice(["move", "cap", "promo", "cappromo", "ep"])
        if kind == "ep":
            p = 1
        a = (kind, c, p, o, d, cap, pr)
        b = list(a)
        m = rnd.randrange(9)
        if m == 0:
            pass                                   # identical
        elif m == 1:
            b[1] = "b" if c == "w" else "w"
        elif m == 2:
            b[2] = rnd.choice([x for x in range(1, 7) if x != p])
        elif m == 3:
            b[3] = rnd.choice([x for x in range(64) if x != o])
        elif m == 4:
            b[4] = rnd.choice([x for x in range(64) if x != d])
        elif m == 5:
            b[5] = rnd.choice([x for x in range(1, 6) if x != cap])
        elif m == 6:
            b[6] = rnd.choice([x for x in range(2, 6) if x != pr])
        elif m == 7:                               # same squares, other constructor (the markers)
            b[0] = rnd.choice([k for k in ["move", "cap", "promo", "cappromo", "ep"] if k != kind])
            if b[0] == "ep" or kind == "ep":
                a = (a[0], c, 1, o, d, 1, pr)      # en passant vs pawn-takes-pawn on the same squares
                b = [b[0], c, 1, o, d, 1, pr]
        else:
            eqreqs.append("mveq castle w K - - - - castle " + rnd.choice(["w K", "w Q", "b K", "b Q"]) + " - - - -")
            continue
        eqreqs.append("mveq " + mvspec(*a) + " " + mvspec(*b))
    eimpl, _, _ = wee.run_lines(wee.harness_path(), eqreqs)
    edrv, _, _ = wee.run_driver(eqreqs)
    if len(eimpl) != len(eqreqs):
        res.broken.append("harness died on mveq requests")
        eimpl += ["<no-output>"] * (len(eqreqs) - len(eimpl))
    for req, i, (m, sp) in zip(eqreqs, eimpl, edrv):
        # unequal moves may share a 64-bit hash by chance: only eq / set are judged then
        norm = (lambda x: re.sub(r" hasheq=\d", "", x) if x.startswith("eq=0") else x)
        res.add(req, norm(i), norm(m), norm(sp), norm)
        res.tag("mveq_" + ("same" if sp.startswith("eq=1") else "different"))
    for i in range(0, len(reqs), 250000):
        chunk = reqs[i:i + 250000]
        impl, rc, err = wee.run_lines(wee.harness_path(), chunk)
        drv, rc2, err2 = wee.run_driver(chunk)
        if len(impl) != len(chunk):
            res.broken.append("harness died on mv requests")
            impl += ["<no-output>"] * (len(chunk) - len(impl))
        for req, o, (m, s) in zip(chunk, impl, drv):
            parts = o.split(" ")
            good = len(parts) == 12 and parts[11] == "back=" + parts[0] and cbor_ok(parts[10], parts[0])
            res.add(req, o, m, s, (lambda x, good=good: sv_mv(x) if good else "serialisation-roundtrip-failed"))
    # equality ⇔ attribute equality on a sample: distinct attribute tuples must give distinct raws
    res.exhaustive = tier == "thorough"
    return "constructor calls with colour, piece, origin, destination, capture and promotion kinds (thorough: all 2x6x64x64 origin/destination combinations for every constructor with rotating capture/promotion kinds plus every capture x promotion pair on a square grid, and the 4 castling moves); each answer = raw, all accessors, real ciborium bytes and the decoded raw; spec = the attributes passed in"


def cbor_ok(tok, raw):
    try:
        b = bytes.fromhex(tok.split("=", 1)[1])
        v = int(raw)
        if b[0] < 24:
            return len(b) == 1 and b[0] == v
        n = {0x18: 1, 0x19: 2, 0x1a: 4, 0x1b: 8}.get(b[0])
        return n is not None and len(b) == 1 + n and int.from_bytes(b[1:], "big") == v
    except Exception:
        return False


def c14_all(res, tier, seed, deep):
    rule = c14_parsers(res, tier, seed, deep)
    # the release profile of the parsers (no overflow checks)
    okr, msgr = wee.cargo_build("release")
    if okr:
        c14_parsers(res, "quick" if tier == "quick" else tier, seed + 1, False, harness=wee.harness_path("release"), profile="r")
    else:
        res.broken.append("release harness does not build: " + msgr[-300:])
    c14_uci(res, tier, seed, deep)
    return rule + "; both build profiles (overflow checks on/off); UCI: sessions of malformed lines (truncated and over-long move tokens, multi-byte characters, bad numbers, bad FEN, unknown commands, 70 kB lines) against the real process, each followed by isready; spec: the process stays alive, answers readyok, exits 0"


CHECKS = {
    "C01": (c01, ["movegen", "moves", "state", "board", "attacks", "common"]),
    "C02": (c02, ["state", "moves", "board", "movegen"]),
    "C03": (c03, ["searcher", "hasher", "state", "eval", "movegen"]),
    "C04": (c04, ["searcher", "uci", "eval"]),
    "C06": (c06, ["searcher", "eval", "eval_squares", "eval_worths", "eval_edge", "eval_pawns"]),
    "C16": (c16, ["buildrs", "enginebook", "corebook", "notation", "hasher"]),
    "C17": (c17, ["searcher", "hasher"]),
    "C19": (c19, ["searcher", "eval", "movegen"]),
    "C05": (c05, ["eval", "eval_squares", "eval_worths", "eval_edge", "eval_pawns", "board"]),
    "C13": (c13, ["eval", "eval_squares", "eval_worths", "eval_edge", "eval_pawns"]),
    "C08": (c08, ["hasher", "state", "board"]),
    "C09": (c09, ["attacks", "common", "board"]),
    "C10": (c10, ["board", "state", "attacks"]),
    "C11": (c11, ["notation", "board", "state"]),
    "C12": (c12, ["notation", "moves", "corebook"]),
    "C14": (c14_all, ["notation", "board", "uci"]),
    "C07": (c07, ["uci", "searcher", "enginebook", "state"]),
    "C18": (c18, ["uci", "searcher"]),
    "C15": (c15, ["searcher"]),
    "C20": (c20, ["moves", "piece", "board"]),
}


def run_check(pid, tier, seed, t0):
    res = wee.Result(pid)
    fn, files = CHECKS[pid]
    ok, msg, changed = wee.step_extract()
    if not ok:
        res.broken.append("tie(a) extractor: " + msg)
    for tool, why in wee.TRANSLATOR_FAILURES.items():
        if pid in wee.TRANSLATOR_SCOPE.get(tool, set()):
            res.broken.append(f"tie(a) translator: TIE-BROKEN {tool}: {why}")
    # shape facts of the source (hidden-state sites, table/channel/worker-count primitives): the hand model has no
    # counterpart for a new static / thread-local / cell / lock, and fixes the semantics of these primitives
    try:
        cur = json.load(open(os.path.join(wee.BUILD, "fingerprints.json"))).get("shape", {})
        base = json.load(open(os.path.join(VERIF, "fingerprints.baseline.json"))).get("shape", {})
        rel = {"C01": ["movegen", "moves", "state", "board", "attacks", "common"], "C02": ["state", "moves", "board", "movegen"],
               "C08": ["hasher"], "C09": ["attacks", "common", "board"], "C10": ["board", "state", "attacks"],
               "C11": ["notation", "board", "state"], "C12": ["notation", "moves"], "C14": ["notation", "board", "uci"],
               "C16": ["corebook", "enginebook", "buildrs", "notation", "hasher"], "C20": ["moves", "piece", "board"],
               "C05": ["eval", "eval_edge", "eval_pawns", "eval_squares", "eval_worths", "board"], "C13": ["eval", "eval_edge", "eval_pawns", "eval_squares", "eval_worths"],
               "C07": ["uci", "searcher", "enginebook", "state"], "C18": ["uci", "searcher"]}
        search_props = ("C03", "C04", "C06", "C15", "C17", "C19", "C07", "C18")
        names = rel.get(pid, ["searcher", "eval", "hasher", "movegen", "state"])
        diffs = []
        for k in sorted(set(cur) | set(base)):
            if cur.get(k, 0) == base.get(k, 0):
                continue
            kind, _, rest = k.partition(":")
            if kind == "state" and rest.split(":")[0] in names:
                diffs.append(f"{k}: {base.get(k, 0)} -> {cur.get(k, 0)}")
            if kind == "prim" and pid in search_props:
                diffs.append(f"{k}: {base.get(k, 0)} -> {cur.get(k, 0)}")
        if diffs:
            res.broken.append("tie(a) shape: the source has state-carrying sites or primitives the model does not mirror: " + "; ".join(diffs)[:600])
    except OSError:
        pass
    reg = registry().get(pid, {"modules": [], "theorems": []})
    if reg["modules"]:
        proof = wee.prove(pid, reg)
        if tier == "thorough" and not proof["problems"]:
            # independent re-check of the compiled property modules by the toolchain's `leanchecker`
            rc, out, err = wee.run(["lake", "env", "leanchecker"] + reg["modules"], cwd=wee.LEAN, timeout=3600)
            proof["leanchecker"] = "ok" if rc == 0 else ("failed: " + (out + err)[-400:])
            proof["checker_cmd"] += " && lake env leanchecker " + " ".join(reg["modules"])
            if rc != 0:
                proof["problems"].append("leanchecker rejected a property module: " + (out + err)[-400:])
    else:
        okd, outd = wee.lake_build(["weedriver"])
        proof = {"obligations": [], "discharged": [], "problems": ["no theorem registered"] + ([] if okd else ["driver build failed: " + outd[-400:]]), "checker_cmd": ""}
    okc, msgc = wee.cargo_build("debug")
    if not okc:
        res.broken.append("harness does not build against /repo: " + msgc[-500:])
        return wee.finish(pid, tier, seed, t0, res, proof, "build failed")
    fchanged = fingerprints_changed(files)
    deep = bool(changed) or bool(proof["problems"]) or bool(fchanged)
    if fchanged:
        wee.log(f"[{pid}] modelled source changed since the model was validated ({', '.join(fchanged)}): running the correspondence at greater depth")
    rule = fn(res, tier, seed, deep)
    extra = {"exhaustive": bool(getattr(res, "exhaustive", False)), "escalated": deep, "changed_sources": fchanged,
             "regenerated_modules": changed}
    return wee.finish(pid, tier, seed, t0, res, proof, rule, extra, assumptions=reg.get("assumptions", []))


def replay(pid, path):
    reqs = [l.split(": ", 1)[1].strip() for l in open(path) if l.startswith("request: ")]
    if not reqs:
        print(open(path).read())
        return 0
    wee.step_extract()
    wee.lake_build(["weedriver"])
    wee.cargo_build("debug")
    impl, _, _ = wee.run_lines(wee.harness_path(), [r.split(" => ")[0] for r in reqs])
    drv, _, _ = wee.run_driver([r.split(" => ")[0] for r in reqs])
    for r, i, (m, s) in zip(reqs, impl, drv):
        print(f"request: {r}\nimpl:    {i}\nmodel:   {m}\nspec:    {s}\n")
    return 0
