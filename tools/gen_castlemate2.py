#!/usr/bin/env python3
"""Builds corpus/castle_mate2.txt: positions P with a UNIQUE mate in two whose line is forced move by move — one key move T, exactly
one legal reply, then castling is the only mating move:  `P | S` (S = the position after T and the reply, where castling mates).
A UCI front end that remembers the announced line across commands meets, after S is presented WITHOUT the castling right (same
placement and side to move), a remembered move that is no longer legal.  Classified by the model's exhaustive solver.
usage: gen_castlemate2.py <seed> <trials>"""
import os, sys, random
sys.path.insert(0, os.path.dirname(os.path.abspath(__file__)))
import wee
from gen_underpromo import fen_of  # noqa


def flip(cells):
    return {(7 - s // 8) * 8 + s % 8: c.swapcase() for s, c in cells.items()}


def main():
    seed, trials = int(sys.argv[1]), int(sys.argv[2])
    rnd = random.Random(seed)
    cands = []
    for _ in range(trials):
        kingside = rnd.random() < 0.5
        cells = {4: "K", (7 if kingside else 0): "R"}
        path = [5, 6] if kingside else [1, 2, 3]
        cells[rnd.choice(path)] = rnd.choice("BBN")          # a man on the castling path that has to step aside first
        rf = 5 if kingside else 3
        # the enemy king on the landing file of the rook, close to the bottom so that few squares need covering
        if rnd.random() < 0.7:
            # … or on the castler's own back rank BEYOND its king: only castling (the king leaves e1) opens the rank for the rook
            kr = 0
            ks = rnd.choice([6, 7] if not kingside else [0, 1, 2])
        else:
            kr = rnd.choice([0, 0, 1, 1, 2, 7])
            ks = kr * 8 + max(0, min(7, rf + rnd.choice([0, 0, 1, -1, 2, -2])))
        if ks in cells or (abs(ks % 8 - 4) <= 1 and ks // 8 <= 1):
            continue
        cells[ks] = "k"
        for ch in rnd.choices("ppnPNPQ", k=rnd.randrange(1, 6)):
            for _ in range(20):
                s2 = rnd.randrange(64)
                if s2 not in cells and not (ch in "pP" and s2 // 8 in (0, 7)):
                    cells[s2] = ch
                    break
        white = rnd.random() < 0.5
        right = ("K" if kingside else "Q") if white else ("k" if kingside else "q")
        c2 = cells if white else flip(cells)
        cands.append(fen_of(c2, "w" if white else "b").replace(" - - 0 1", f" {right} - 0 1"))
    cands = sorted(set(cands))
    leg, _, _ = wee.run_driver(["legalpos " + c for c in cands], jobs=14)
    cands = [c for c, (m, s) in zip(cands, leg) if s == "1"]
    m1, _, _ = wee.run_driver(["matekeep 1 " + c for c in cands], jobs=14)
    cands = [c for c, (m, s) in zip(cands, m1) if s.strip() in ("", "-")]
    m3, _, _ = wee.run_driver(["matekeep 3 " + c for c in cands], jobs=14)
    step = []
    for c, (m, s) in zip(cands, m3):
        toks = [t for t in s.split(" ") if ":" in t]
        if len(toks) == 1:
            step.append((c, toks[0].split(":")[1].replace("_", " ")))
    mv, _, _ = wee.run_driver(["moves " + r for c, r in step], jobs=14)
    forced = [(c, r, m.split(" ")[1].split(":")[1]) for (c, r), (m, s) in zip(step, mv) if m.split(" ")[0] == "1"]
    ap, _, _ = wee.run_driver([f"apply {raw} {r}" for c, r, raw in forced], jobs=14)
    fin = [(c, m) for (c, r, raw), (m, s) in zip(forced, ap) if not m.startswith("err") and m not in ("panic", "badfen")]
    k1, _, _ = wee.run_driver(["matekeep 1 " + s_ for c, s_ in fin], jobs=14)
    mvs, _, _ = wee.run_driver(["moves " + s_ for c, s_ in fin], jobs=14)
    keep = []
    for (c, s_), (m1_, sp1), (mm, _) in zip(fin, k1, mvs):
        mates = [t.split(":")[0] for t in sp1.split(" ") if ":" in t]
        castles = {t.split(":")[1] for t in mm.split(" ")[1:] if t.count(":") >= 2 and t.split(":")[2].split(",")[8] != "-"}
        if len(mates) == 1 and mates[0] in castles:
            keep.append(f"{c} | {s_}")
    print(len(cands), "without mate in one;", len(step), "unique key move;", len(forced), "forced reply;", len(keep), "kept")
    p = os.path.join(wee.VERIF, "corpus", "castle_mate2.txt")
    old = [l.strip() for l in open(p)] if os.path.exists(p) else []
    with open(p, "w") as fh:
        fh.write("\n".join(sorted(set(old) | set(keep) - {""})) + "\n")


if __name__ == "__main__":
    main()
