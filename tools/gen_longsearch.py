#!/usr/bin/env python3
"""Builds corpus/longsearch_positions.txt: legal positions whose PUBLIC depth-3 search (one worker) has an iteration of at
least 10000 nodes and finds no mate — the only depth-limited single-worker searches that reach a cancellation poll, i.e. that
run long enough for something else in the process to interfere (C19: overlapping searches; C04: Stop in mid-iteration).
Queen-rich side to move, the other king sheltered behind pawns and minor pieces.   usage: gen_longsearch.py <seed> <trials>"""
import os, sys, random, re
sys.path.insert(0, os.path.dirname(os.path.abspath(__file__)))
import wee
from gen_underpromo import fen_of  # noqa


def main():
    seed, trials = int(sys.argv[1]), int(sys.argv[2])
    rnd = random.Random(seed)
    cands = []
    for _ in range(trials):
        white = rnd.random() < 0.5          # side to move = the queen-rich side
        cells = {}
        # the sheltered king in a corner of its own back rank (rank index 7 for black, 0 for white when black moves)
        back = 7 if white else 0
        dirn = -1 if white else 1
        kf = rnd.choice([6, 7, 0, 1])
        cells[back * 8 + kf] = "k"
        for f in range(8):
            if abs(f - kf) <= 2 and rnd.random() < 0.9:
                cells[(back + dirn) * 8 + f] = "p"
            if abs(f - kf) <= 3 and rnd.random() < 0.5 and (back + 2 * dirn) * 8 + f not in cells:
                cells[(back + 2 * dirn) * 8 + f] = rnd.choice("pnp")
        for f in range(8):
            if f != kf and abs(f - kf) <= 2 and rnd.random() < 0.6:
                cells[back * 8 + f] = rnd.choice("rbn")
        def put(ch, pred=lambda s: True):
            for _ in range(80):
                s = rnd.randrange(64)
                if s not in cells and pred(s):
                    cells[s] = ch
                    return s
        far = lambda s: abs(s // 8 - back) >= 3
        put("K", far)
        for _ in range(rnd.randrange(5, 10)):
            put("Q", far)
        for ch in rnd.sample(["R", "R", "B", "B", "N"], rnd.randrange(0, 4)):
            put(ch, far)
        if not white:
            cells = {s: c.swapcase() for s, c in cells.items()}
        cands.append(fen_of(cells, "w" if white else "b"))
    legal, _, _ = wee.run_driver(["legalpos " + f for f in cands], jobs=8)
    cands = [f for f, (m, s) in zip(cands, legal) if s == "1"]
    outs, _, _ = wee.run_lines(wee.harness_path(), [f"searchpub 7 3 {f}" for f in cands], timeout=3600, per_request_timeout=60)
    keep = []
    for f, o in zip(cands, outs):
        pr = [int(x) for x in re.findall(r"prog:\d+:(\d+)", o)]
        ev = [int(x) for x in re.findall(r"best:(-?\d+):", o)]
        if len(pr) == 3 and o.endswith("joined") and ev and abs(ev[-1]) < 10000:
            per = max(pr[0], pr[1] - pr[0], pr[2] - pr[1])
            if per >= 10000:
                keep.append((per, f))
    keep.sort(reverse=True)
    print(len(cands), "legal;", len(keep), "with an iteration of >= 10000 nodes and no mate; max", keep[0][0] if keep else 0)
    p = os.path.join(wee.VERIF, "corpus", "longsearch_positions.txt")
    old = [l.strip() for l in open(p)] if os.path.exists(p) else []
    have = {l.split(" ", 1)[1] for l in old if l}
    lines = old + [f"{n} {f}" for n, f in keep[:30] if f not in have]
    with open(p, "w") as fh:
        fh.write("\n".join(l for l in lines if l) + "\n")


if __name__ == "__main__":
    main()
