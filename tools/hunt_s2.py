#!/usr/bin/env python3
"""S2 with a FORCED schedule (hook `set_insert_delay`): the odd (one ply shallower) workers write the root entry last.
Is a winning terminal evaluation then reported with a first move that does not keep the mate?  usage: hunt_s2.py <seed> <n>"""
import os, sys, random
sys.path.insert(0, os.path.dirname(os.path.abspath(__file__)))
import wee, props
seed, n = int(sys.argv[1]), int(sys.argv[2])
rnd = random.Random(seed)
mates = [m for m in props.mate_positions(seed, n, 3) if m[0] == 3]
reqs, meta = [], []
for d, keep, f in mates:
    for w in (2, 4):
        reqs.append(f"searchdelay {rnd.getrandbits(32)} {d} {w} 2 64 150 {f}")
        meta.append(f)
outs, _, _ = wee.run_lines_parallel(wee.harness_path(), reqs, jobs=6)
mreqs, own = [], []
for r, f, o in zip(reqs, meta, outs):
    bests, _ = props.parse_events(o)
    for ev, line in bests:
        if ev >= 10000 and line:
            mreqs.append(f"matecheck {ev} {line[0]} {f}")
            own.append((r, o))
drv, _, _ = wee.run_driver(mreqs, jobs=12)
bad = 0
for mr, (r, o), (m, sp) in zip(mreqs, own, drv):
    if sp not in ("sound", "claim-too-deep-for-oracle"):
        bad += 1
        print("FOUND", sp, "|", r, "|", o[:200], flush=True)
print(f"{len(reqs)} forced-schedule searches, {len(mreqs)} winning claims, {bad} mis-paired")
