"""Common machinery of ./check: build steps, audit, correspondence runner, verdict, evidence."""
import fcntl
import json
import os
import re
import subprocess
import sys
import time

VERIF = os.path.dirname(os.path.dirname(os.path.abspath(__file__)))
LEAN = os.path.join(VERIF, "lean")
BUILD = os.path.join(VERIF, "build")
HARNESS = os.path.join(VERIF, "harness")
DRIVER = os.path.join(LEAN, ".lake", "build", "bin", "weedriver")
ALLOWED_AXIOMS = {"propext", "Classical.choice", "Quot.sound"}
ENV = dict(os.environ, CARGO_NET_OFFLINE="true")

TRUSTED_BASE = [
    "Lean 4.33.0 kernel",
    "axioms: every audited theorem depends on at most propext, Classical.choice, Quot.sound (the audit would list a *._native.bv_decide.ax_* axiom per theorem if one appeared; none does)",
    "tools/extract.py copies constants/tables from the Rust source into lean/Wee/Gen (fails closed on a missing pattern)",
    "tools/rs2lean.py translates the straight-line bit-level functions (moves.rs mod compact and Move constructors/accessors, Square helpers, Evaluation::mate_in_ply/is_terminal) into lean/Wee/Gen/MoveFns.lean; trusted: its parser and the table of primitive mappings in tools/rs2lean.NOTES.md; the bridge to the hand model is proved (Wee/Proofs/MoveFnsBridge.lean); stage 2 (tools/rs2lean2.py → Wee/Gen/CoreFns.lean, bridge Wee/Proofs/CoreFnsBridge.lean): impl BitBoard, Board::new and occupancy accessors, CastleRights, State::by_performing_move, ZobristHasher::hash, AttackGenerator lookups and leaper tables; new trusted primitives: trailing_zeros/leading_zeros/count_ones (proved equal to the model's), wrapping_mul, saturating_add; stage 3a (tools/rs2lean3.py → Wee/Gen/GenMoves.lean, bridges Wee/Proofs/GenMovesBridge*.lean): all of movegen.rs incl. generation order and the legality filter (compute_legal_moves_model), AttackMap::from_occupancy, Board::piece_at/is_check/colored_attacks with the OnceCell read as compute-on-demand; stage 3b (tools/rs2lean_eval.py → Wee/Gen/EvalFns.lean, Wee/Proofs/EvalFnsBridge.lean): evaluator term functions bridged (f32 = the model's binary32 soft-float, literals as exact bit patterns); Evaluator::evaluate and estimate, king-edge and StateVariation::from bridged too, with the move-generation and attack queries discharged by the stage-3a bridges (Evaluator.evaluate_eq: when the translated function returns r the model returns r; for plies < 2^31); stage 3c (tools/rs2lean_tt.py → Wee/Gen/TTFns.lean, Wee/Proofs/TTFnsBridge.lean): TranspositionBucket/Table/TableAccess, iter_moves, StateHistory — RwLock read as atomic application, HashMap as an abstract finite map, size_of computed by layout rules (320), cfg(weechess_verif) hook calls skipped by rule; stage 3d (tools/rs2lean_text.py → Wee/Gen/TextFns.lean, Wee/Proofs/TextFnsBridge.lean): all of notation.rs translated (strings as List Char, write! as appends, the regex match a seam parameter); all bridged (TextFnsBridge, TextFnsBridge2): FEN writer and reader (composition with the model's fenPipeline), SAN scanner, MoveQuery::test, LAN, the move-token reader of uci.rs; stage 4a (tools/rs2lean_search.py → Wee/Gen/SearchFns.lean, Wee/Proofs/SearchFnsBridge.lean): quiescence_search bridged to the model's quiesce (refinement: when the translated run returns, the model run returns the same in the corresponding state), analyze_recursive translated whole and bridged completely (Searcher.analyze_recursive_refines), the iteration loop of analyze_iterative bridged to iterLoop for the sequential schedule (SearchIterBridge) — trusted readings: the rayon map as running the workers one after the other, sort_by_cached_key as a stable sort with keys computed once in list order, gen_range as the ChaCha8 model, is_cancelled as the counted poll of the hook; stage 4b (tools/rs2lean_book.py → Wee/Gen/BookFns.lean, Wee/Proofs/BookFnsBridge.lean): parse_movetext, generate_book_data and OpeningBook::lookup bridged to the model's buildBook/lookup — trusted: the I/O frame of build.rs (directory = list of file contents, serialisation = identity), lazy iterators as a first-order value; stage 4c (tools/rs2lean_uci.py → Wee/Gen/UciFns.lean, Wee/Proofs/UciFnsBridge.lean): the UCI command loop Client::exec (all ten arms) bridged to the session model (Client.exec.body_refines per line, Client.exec_refines per history) — seams: stdout/stderr as an event log, stdin as the list of lines, Search::spawn / wait_cancel as events with an unknown outcome stream (their text pinned by digests), thread_rng, State::by_performing_moves — translated in stage 5 (tools/rs2lean_seams.py → Wee/Gen/SeamFns.lean, Wee/Proofs/SeamFnsBridge.lean: State.by_performing_moves_eq, Client.exec_refines_resolved with no resolver hypothesis left); stage 6 (tools/rs2lean_iterate.py → Wee/Gen/IterateFns.lean, Wee/Proofs/IterateFnsBridge.lean): the artifact set-up, the F2 rule, the history increment, the saturation warning and the returned artifact of analyze_iterative — Searcher.analyze_iterative_refines bridges the whole function to the model's iterate for a given depth limit; trusted: ZobristHasher::with = KeyTable.ofRng (its text pinned), carried hypotheses: WalkOK invariant, agreement of the f32 saturation test with the model's exact one",
    "correspondence check: hand-written executable Lean model vs the real Rust code on generated inputs (differential; as strong as the generators)",
    "Wee/Spec/*.lean is the reading of what the property means",
    "modelled, not verified: std (RwLock, channels, sort_by_cached_key, OnceCell, str slicing), rayon, the regex crate's conformance to Wee/Spec/Regex.lean on the one FEN literal, rand/rand_chacha, ciborium, rustc `as` casts and overflow-check semantics, IEEE-754 binary32 of the CPU",
]


def log(msg):
    print(msg, flush=True)


class Lock:
    def __enter__(self):
        os.makedirs(BUILD, exist_ok=True)
        self.f = open(os.path.join(BUILD, "lock"), "w")
        fcntl.flock(self.f, fcntl.LOCK_EX)
        return self

    def __exit__(self, *a):
        fcntl.flock(self.f, fcntl.LOCK_UN)
        self.f.close()


def run(cmd, cwd=None, timeout=None, input_text=None, env=None):
    p = subprocess.run(cmd, cwd=cwd, timeout=timeout, input=input_text, capture_output=True, text=True,
                       env=env or ENV)
    return p.returncode, p.stdout, p.stderr


# ------------------------------------------------------------------------------------------------
# build steps

# which properties a later-stage translator's files are anchored in (board.rs / hasher.rs / attacks.rs / state.rs; movegen.rs;
# eval/*.rs): everything that moves pieces for stages 2 and 3a, everything that evaluates for 3b
_CHESS = {"C01", "C02", "C03", "C04", "C05", "C06", "C07", "C08", "C09", "C10", "C11", "C12", "C13", "C14", "C16", "C17", "C18", "C19"}
TRANSLATOR_SCOPE = {
    "rs2lean2.py": _CHESS,
    "rs2lean3.py": _CHESS - {"C08", "C09"},
    "rs2lean_eval.py": {"C03", "C04", "C05", "C06", "C07", "C13", "C17", "C18", "C19"},
    "rs2lean_tt.py": {"C03", "C04", "C06", "C07", "C15", "C17", "C18", "C19"},
    "rs2lean_text.py": {"C07", "C11", "C12", "C14", "C16"},
    "rs2lean_search.py": {"C03", "C04", "C06", "C07", "C17", "C18", "C19"},
    "rs2lean_book.py": {"C07", "C16"},
    "rs2lean_uci.py": {"C07", "C14", "C18"},
    "rs2lean_seams.py": {"C02", "C07", "C14", "C18"},
    "rs2lean_iterate.py": {"C03", "C04", "C06", "C07", "C17", "C18", "C19"},
}
TRANSLATOR_FAILURES = {}


def step_extract():
    """tie (a). returns (ok, message, changed files)"""
    rc, out, err = run([sys.executable, os.path.join(VERIF, "tools", "extract.py")])
    if rc != 0:
        return False, (out + err).strip(), []
    try:
        changed = json.loads(out.strip().splitlines()[-1])["changed"]
    except Exception:
        changed = []
    # tie (a) for FUNCTIONS: the straight-line bit-level code (moves.rs `mod compact`, Move constructors/accessors, Square
    # helpers, Evaluation::mate_in_ply …) is re-translated from the source text into Wee/Gen/MoveFns.lean; the bridge proofs
    # (Wee/Proofs/MoveFnsBridge.lean) are re-checked by the lake build of the property modules that import them
    gen = os.path.join(LEAN, "Wee", "Gen", "MoveFns.lean")
    before = open(gen).read() if os.path.exists(gen) else ""
    rc2, out2, err2 = run([sys.executable, os.path.join(VERIF, "tools", "rs2lean.py")])
    if rc2 != 0:
        return False, ("TIE-BROKEN rs2lean: " + (out2 + err2).strip())[-600:], changed
    after = open(gen).read() if os.path.exists(gen) else ""
    if after != before:
        changed = list(changed) + ["Wee/Gen/MoveFns.lean"]
    # stage 2 (tools/rs2lean2.py): `impl BitBoard`, the Index/Color/Piece helpers, CastleRights, Board::new and the occupancy
    # accessors, State::by_performing_move, ZobristHasher::hash, the AttackGenerator lookups and the leaper tables are
    # re-translated into Wee/Gen/CoreFns.lean; Wee/Proofs/CoreFnsBridge.lean proves them equal to the hand model
    # A later-stage translator that cannot translate the current text breaks the tie of the properties ANCHORED in the files
    # it reads (TRANSLATOR_SCOPE), not of every property: recorded in TRANSLATOR_FAILURES, judged by the caller
    TRANSLATOR_FAILURES.clear()
    gen2 = os.path.join(LEAN, "Wee", "Gen", "CoreFns.lean")
    before2 = open(gen2).read() if os.path.exists(gen2) else ""
    rc3, out3, err3 = run([sys.executable, os.path.join(VERIF, "tools", "rs2lean2.py")])
    if rc3 != 0:
        TRANSLATOR_FAILURES["rs2lean2.py"] = (out3 + err3).strip()[-600:]
    after2 = open(gen2).read() if os.path.exists(gen2) else ""
    if after2 != before2:
        changed = list(changed) + ["Wee/Gen/CoreFns.lean"]
    # stage 3a (tools/rs2lean3.py): ALL of movegen.rs (pseudo-legal generators in generation order, the legality filter,
    # compute_legal_moves), AttackGenerator::compute, AttackMap::from_occupancy, Board::piece_at / is_check / colored_attacks →
    # Wee/Gen/GenMoves.lean, bridged in Wee/Proofs/GenMovesBridge*.lean (headline: compute_legal_moves_model);
    # stage 3b (tools/rs2lean_eval.py): the static evaluator → Wee/Gen/EvalFns.lean, term functions bridged in
    # Wee/Proofs/EvalFnsBridge.lean (all term functions, StateVariation::from, Evaluator::evaluate and estimate)
    # stage 3c (tools/rs2lean_tt.py): the search memory of searcher.rs — TranspositionBucket/Table/TableAccess (insert, find,
    # bookkeeping, iter_moves) and StateHistory → Wee/Gen/TTFns.lean, bridged to Model/TT and Search.walkLine in
    # Wee/Proofs/TTFnsBridge.lean (RwLock read as the atomic application of the sub-table method, HashMap as an abstract map)
    # stage 3d (tools/rs2lean_text.py): notation.rs — FEN writer (bridged completely), FEN reader behind the regex (placement
    # parser bridged; the regex match is a seam parameter, formalised in Props/FenRegex), MoveQuery, SAN scanner, LAN
    # stage 4a (tools/rs2lean_search.py): searcher.rs quiescence_search (bridged to `quiesce`), analyze_recursive (translated whole;
    # bridged at node entry / horizon, inner expansion in progress) → Wee/Gen/SearchFns.lean, Wee/Proofs/SearchFnsBridge.lean;
    # stage 4b (tools/rs2lean_book.py): BookParser::parse_movetext, build.rs generate_book_data (inside its I/O frame),
    # OpeningBook::lookup → Wee/Gen/BookFns.lean, Wee/Proofs/BookFnsBridge.lean (OpeningBook.lookup_built)
    for tool, rel in (("rs2lean3.py", "GenMoves.lean"), ("rs2lean_eval.py", "EvalFns.lean"), ("rs2lean_tt.py", "TTFns.lean"), ("rs2lean_text.py", "TextFns.lean"),
                      ("rs2lean_search.py", "SearchFns.lean"), ("rs2lean_book.py", "BookFns.lean"),
                      # stage 4c (tools/rs2lean_uci.py): the command loop Client::exec of uci.rs, all arms, bridged to Model/Uci
                      # (Client.exec_refines); threads, stdin/stdout, the rng and by_performing_moves are named seams
                      ("rs2lean_uci.py", "UciFns.lean"),
                      # stage 5 (tools/rs2lean_seams.py): State::by_performing_moves (the coordinate resolver) → Wee/Gen/SeamFns.lean,
                      # bridged to the model's performQueries; discharges the resolver seam of stage 4c (Client.exec_refines_resolved)
                      ("rs2lean_seams.py", "SeamFns.lean"),
                      # stage 6 (tools/rs2lean_iterate.py): the set-up and tail of analyze_iterative around its loop → Wee/Gen/IterateFns.lean;
                      # Searcher.analyze_iterative_refines bridges the WHOLE function to the model's `iterate` (Some depth limit)
                      ("rs2lean_iterate.py", "IterateFns.lean")):
        g = os.path.join(LEAN, "Wee", "Gen", rel)
        b = open(g).read() if os.path.exists(g) else ""
        rc4, out4, err4 = run([sys.executable, os.path.join(VERIF, "tools", tool)])
        if rc4 != 0:
            TRANSLATOR_FAILURES[tool] = (out4 + err4).strip()[-600:]
        a = open(g).read() if os.path.exists(g) else ""
        if a != b:
            changed = list(changed) + ["Wee/Gen/" + rel]
    return True, "", changed


def lake_build(targets, timeout=3600):
    rc, out, err = run(["lake", "build"] + targets, cwd=LEAN, timeout=timeout)
    return rc == 0, out + err


def failing_decls(build_output):
    """names of modules / positions that failed, for the replay file"""
    bad = []
    for m in re.finditer(r"error: ([^\n]+)", build_output):
        bad.append(m.group(1))
    return bad[:20]


def step_audit(module, theorems):
    """#print axioms for every theorem; returns (ok, {thm: [axioms]}, message)"""
    os.makedirs(BUILD, exist_ok=True)
    path = os.path.join(BUILD, f"audit_{module.replace('.', '_')}.lean")
    with open(path, "w") as f:
        f.write(f"import {module}\n")
        for t in theorems:
            f.write(f"#print axioms {t}\n")
    rc, out, err = run(["lake", "env", "lean", path], cwd=LEAN, timeout=1800)
    text = out + err
    res = {}
    # "'Wee.foo' depends on axioms: [propext, Quot.sound]"  or  "'Wee.foo' does not depend on any axioms"
    for m in re.finditer(r"^'(\S+)' depends on axioms: \[([^\]]*)\]", text, re.S | re.M):
        res[m.group(1)] = [a.strip() for a in m.group(2).replace("\n", " ").split(",") if a.strip()]
    for m in re.finditer(r"^'(\S+)' does not depend on any axioms", text, re.M):
        res[m.group(1)] = []
    problems = []
    for t in theorems:
        if t not in res:
            problems.append(f"theorem {t} not found / not checked")
            continue
        for a in res[t]:
            if a in ALLOWED_AXIOMS or re.search(r"\._native\.bv_decide\.ax_", a):
                continue
            problems.append(f"theorem {t} depends on disallowed axiom {a}")
    if rc != 0 and not problems:
        problems.append("audit file failed to elaborate: " + text[-400:])
    return not problems, res, "; ".join(problems)


def grep_forbidden(files):
    """sorry/admit/axiom/native_decide/implemented_by/unsafe/maxHeartbeats 0 outside comments"""
    hits = []
    pat = re.compile(r"\bsorry\b|\badmit\b|^\s*axiom\s|native_decide|implemented_by|\bunsafe\s|maxHeartbeats 0")
    for fn in files:
        try:
            src = open(fn).read()
        except OSError:
            continue
        src = re.sub(r"/-.*?-/", lambda m: "\n" * m.group(0).count("\n"), src, flags=re.S)
        for i, line in enumerate(src.splitlines(), 1):
            line = line.split("--")[0]
            if pat.search(line):
                hits.append(f"{os.path.relpath(fn, VERIF)}:{i}: {line.strip()[:80]}")
    return hits


def lean_sources():
    """every Lean source the library root `Wee.lean` and the driver import, transitively (files nobody imports — e.g. work in
    progress — are not part of the proof base and are not scanned)"""
    seen, todo = set(), [os.path.join(LEAN, "Wee.lean"), os.path.join(LEAN, "Driver", "Main.lean")]
    while todo:
        fn = todo.pop()
        if fn in seen or not os.path.exists(fn):
            continue
        seen.add(fn)
        try:
            src = open(fn).read()
        except OSError:
            continue
        for m in re.finditer(r"^import\s+((?:Wee|Driver)[\w.]*)", src, re.M):
            todo.append(os.path.join(LEAN, *m.group(1).split(".")) + ".lean")
    return sorted(seen)


def cargo_build(profile="debug", bins=False):
    """build the harness (and optionally the weechess binary) from /repo's working tree"""
    cmd = ["cargo", "build"] + (["--release"] if profile == "release" else [])
    rc, out, err = run(cmd, cwd=HARNESS, timeout=3600)
    if rc != 0:
        return False, (out + err)[-3000:]
    return True, ""


def harness_path(profile="debug"):
    return os.path.join(BUILD, "target", profile, "weeharness")


def build_weechess(profile="release"):
    """the real CLI binary for process-level checks, never into /repo/target"""
    env = dict(ENV, CARGO_TARGET_DIR=os.path.join(BUILD, "target-cli"),
               RUSTFLAGS="--cfg weechess_verif")
    cmd = ["cargo", "build", "--offline", "-p", "weechess_cli"] + (["--release"] if profile == "release" else [])
    rc, out, err = run(cmd, cwd="/repo", timeout=3600, env=env)
    if rc != 0:
        return None, (out + err)[-3000:]
    return os.path.join(BUILD, "target-cli", profile, "weechess"), ""


# ------------------------------------------------------------------------------------------------
# correspondence

def run_lines(exe, lines, timeout=3600, per_request_timeout=None, env=None):
    """one process for the whole batch; if it hangs or dies, the unanswered requests are re-run one
    by one (each with its own time limit) so that the culprit is identified: `<hang>` / `<died>`"""
    cmd = [exe] if isinstance(exe, str) else exe
    inp = "\n".join(lines) + "\n"
    try:
        p = subprocess.run(cmd, input=inp, capture_output=True, text=True, env=dict(ENV, **(env or {})), timeout=timeout)
        out, rc, err = p.stdout, p.returncode, p.stderr
    except subprocess.TimeoutExpired as e:
        out = e.stdout.decode() if isinstance(e.stdout, bytes) else (e.stdout or "")
        rc, err = -9, "timeout"
    res = out.split("\n")[:-1] if out.endswith("\n") else [l for l in out.split("\n") if l != ""]
    if len(res) < len(lines) and per_request_timeout:
        for r in lines[len(res):]:
            try:
                p = subprocess.run(cmd, input=r + "\n", capture_output=True, text=True, env=dict(ENV, **(env or {})), timeout=per_request_timeout)
                o = p.stdout.strip("\n")
                res.append(o if o else "<died>")
            except subprocess.TimeoutExpired:
                res.append("<hang>")
    return res, rc, err


def run_lines_parallel(exe, lines, jobs=14, timeout=3600, per_request_timeout=None):
    """split the request list round-robin over `jobs` processes (the model is much slower than the real code on searches)"""
    from concurrent.futures import ThreadPoolExecutor
    jobs = max(1, min(jobs, len(lines) // 4 or 1))
    if jobs == 1:
        return run_lines(exe, lines, timeout, per_request_timeout)
    chunks = [lines[i::jobs] for i in range(jobs)]
    with ThreadPoolExecutor(max_workers=jobs) as ex:
        results = list(ex.map(lambda c: run_lines(exe, c, timeout, per_request_timeout), chunks))
    outs = [None] * len(lines)
    rc_all, err_all = 0, ""
    for j, (o, rc, err) in enumerate(results):
        rc_all = rc_all or rc
        err_all += err
        o = o + ["<no-output>"] * (len(chunks[j]) - len(o))
        for k, v in enumerate(o[:len(chunks[j])]):
            outs[j + k * jobs] = v
    return outs, rc_all, err_all


def run_driver(lines, timeout=3600, jobs=1):
    outs, rc, err = run_lines_parallel([DRIVER, "run"], lines, jobs, timeout) if jobs > 1 else run_lines([DRIVER, "run"], lines, timeout)
    res = []
    for o in outs:
        if " ||| " in o:
            m, s = o.split(" ||| ", 1)
        else:
            m, s = o, "-"
        res.append((m, s))
    return res, rc, err


def driver_positions(seed, n):
    rc, out, err = run([DRIVER, "positions", str(seed), str(n)], timeout=3600)
    return [l for l in out.split("\n") if l.strip()]


class Pipe:
    """persistent line-protocol process (driver or harness): ask(line) -> answer line"""

    def __init__(self, cmd):
        self.p = subprocess.Popen(cmd, stdin=subprocess.PIPE, stdout=subprocess.PIPE, text=True, bufsize=1, env=ENV)

    def ask(self, line):
        self.p.stdin.write(line + "\n")
        self.p.stdin.flush()
        return self.p.stdout.readline().rstrip("\n")

    def close(self):
        try:
            self.p.stdin.close()
            self.p.wait(10)
        except Exception:
            self.p.kill()


def driver_pipe():
    return Pipe([DRIVER, "run"])


def harness_pipe():
    return Pipe([harness_path()])


class Result:
    """accumulates the three-way comparison"""

    def __init__(self, pid):
        self.pid = pid
        self.evaluations = 0
        self.distinct = set()
        self.nontrivial = set()
        self.samples = []
        self.violations = []          # (request, impl, model, spec, note)
        self.model_diffs = []         # (request, impl, model)
        self.kinds = {}
        self.tags = {}
        self.broken = []              # tie / proof breakages (strings)
        self.spec_checked = 0

    def tag(self, t):
        self.tags[t] = self.tags.get(t, 0) + 1

    def add(self, req, impl, model, spec, spec_view=None, nontrivial=True):
        self.evaluations += 1
        kind = req.split(" ", 1)[0]
        self.kinds[kind] = self.kinds.get(kind, 0) + 1
        self.distinct.add(req)
        if nontrivial:
            self.nontrivial.add(req)
        if len(self.samples) < 6 and (self.evaluations % 97 == 1):
            self.samples.append({"request": req[:300], "impl": impl[:300], "model": model[:300], "spec": spec[:300]})
        viol = False
        if spec != "-":
            self.spec_checked += 1
            iv = spec_view(impl) if spec_view else impl
            if iv != spec:
                viol = True
                self.violations.append((req, impl, model, spec, "impl differs from spec; impl as seen by the spec: " + str(iv)[:400]))
        if impl != model:
            self.model_diffs.append((req, impl, model))
        return viol


def compare_batch(res, reqs, spec_views=None, harness=None, nontrivial=None):
    """run requests through impl and driver, three-way compare. spec_views: kind -> fn(impl_out)->str"""
    if not reqs:
        return
    impl, rc, err = run_lines(harness or harness_path(), reqs)
    drv, rc2, err2 = run_driver(reqs)
    if len(impl) != len(reqs):
        res.broken.append(f"harness returned {len(impl)} lines for {len(reqs)} requests (rc={rc}) {err[-300:]}")
        impl = impl + ["<no-output>"] * (len(reqs) - len(impl))
    if len(drv) != len(reqs):
        res.broken.append(f"driver returned {len(drv)} lines for {len(reqs)} requests (rc={rc2}) {err2[-300:]}")
        drv = drv + [("<no-output>", "-")] * (len(reqs) - len(drv))
    for req, i, (m, s) in zip(reqs, impl, drv):
        kind = req.split(" ", 1)[0]
        sv = (spec_views or {}).get(kind)
        nt = nontrivial(req, i) if nontrivial else True
        res.add(req, i, m, s, sv, nt)


# ------------------------------------------------------------------------------------------------
# known findings, verdict, evidence

def load_known():
    p = os.path.join(VERIF, "known_findings.json")
    if not os.path.exists(p):
        return []
    return json.load(open(p)).get("findings", [])


def match_known(pid, req, known):
    for k in known:
        if k.get("property") == pid and k.get("status") == "known":
            if k.get("request") == req or (k.get("request_regex") and re.fullmatch(k["request_regex"], req)):
                return k
    return None


def write_replay(pid, name, content):
    d = os.path.join(VERIF, "replays", pid)
    os.makedirs(d, exist_ok=True)
    p = os.path.join(d, name)
    with open(p, "w") as f:
        f.write(content)
    return p


def finish(pid, tier, seed, t0, res, proof, rule, extra_cov=None, assumptions=None, level="proof"):
    """proof = dict(obligations=[names], discharged=[names], axioms={}, checker_cmd=str, problems=[...])
    prints KNOWN-FINDING / VIOLATION lines, writes evidence, returns exit code."""
    known = load_known()
    new_viol = []
    known_hits = {}
    for v in res.violations:
        k = match_known(pid, v[0], known)
        if k:
            known_hits[k["id"]] = k
        else:
            new_viol.append(v)
    for k in known_hits.values():
        log(f"KNOWN-FINDING: property={pid} {k['what']}")
    rc = 0
    broken = list(res.broken) + list(proof.get("problems", []))
    if res.model_diffs:
        broken.append(f"correspondence: {len(res.model_diffs)} request(s) where the real code and the Lean model differ, first: {res.model_diffs[0][0][:200]}")
    if new_viol:
        rc = 1
        v = new_viol[0]
        body = (f"# property {pid}: the real code violates the property on this input\n"
                f"# seed={seed} tier={tier}\n"
                f"request: {v[0]}\nimpl:    {v[1]}\nmodel:   {v[2]}\nspec:    {v[3]}\nnote:    {v[4]}\n"
                f"# {len(new_viol)} violating request(s) in this run; further ones:\n" +
                "".join(f"request: {x[0]}\n" for x in new_viol[1:10]))
        if broken:
            body += "# additionally broken obligations / ties:\n" + "".join(f"#  {b}\n" for b in broken)
        p = write_replay(pid, f"violation_{seed}.txt", body)
        log(f"VIOLATION property={pid} replay={p}")
    elif broken:
        rc = 1
        body = (f"# property {pid}: no longer shown to hold; no failing input found in this run\n"
                f"# seed={seed} tier={tier}\n" + "".join(f"broken: {b}\n" for b in broken))
        for d in res.model_diffs[:10]:
            body += f"request: {d[0]}\nimpl:    {d[1]}\nmodel:   {d[2]}\n"
        p = write_replay(pid, f"unproved_{seed}.txt", body)
        log(f"VIOLATION property={pid} replay={p} no-failing-input-found")
    cov = {
        "obligations": len(proof.get("obligations", [])),
        "discharged": len(proof.get("discharged", [])),
        "checker_cmd": proof.get("checker_cmd", ""),
        "trusted_base": TRUSTED_BASE,
        "theorems": proof.get("obligations", []),
        "axioms_found": proof.get("axioms", {}),
        "partial": proof.get("partial", []),
        "evaluations": res.evaluations,
        "distinct_nontrivial": len(res.nontrivial),
        "rule": rule,
        "samples": res.samples[:6] or [{"note": "no correspondence cases in this run"}],
        "request_kinds": res.kinds,
        "branch_tags": res.tags,
        "spec_oracle_comparisons": res.spec_checked,
        "impl_vs_spec_failures": len(res.violations),
        "impl_vs_model_disagreements": len(res.model_diffs),
        "known_findings_hit": sorted(known_hits.keys()),
        "broken": broken,
    }
    if extra_cov:
        cov.update(extra_cov)
    ev = {
        "property_id": pid,
        "tier": tier,
        "seed": seed,
        "level": level,
        "coverage": cov,
        "assumptions": assumptions or [],
        "wall_s": round(time.time() - t0, 2),
        "violations": len(new_viol) + (1 if (broken and not new_viol) else 0),
    }
    os.makedirs(os.path.join(VERIF, "evidence"), exist_ok=True)
    with open(os.path.join(VERIF, "evidence", f"{pid}.json"), "w") as f:
        json.dump(ev, f, indent=1)
    log(f"[{pid}] {tier}: obligations {cov['discharged']}/{cov['obligations']}, cases {res.evaluations}, "
        f"spec-compared {res.spec_checked}, impl!=spec {len(res.violations)}, impl!=model {len(res.model_diffs)}, "
        f"wall {ev['wall_s']}s, exit {rc}")
    return rc


def prove(pid, spec):
    """spec = {"modules": [...], "theorems": [...], "partial": [...]}; runs lake build + audit + grep"""
    problems = []
    ok, out = lake_build(spec["modules"] + ["weedriver"])
    axioms = {}
    discharged = []
    if not ok:
        problems.append("lake build failed: " + " | ".join(failing_decls(out))[:1500])
    else:
        for mod in spec["modules"]:
            ths = [t for t in spec["theorems"] if spec.get("where", {}).get(t, spec["modules"][0]) == mod]
            if not ths:
                continue
            aok, ax, msg = step_audit(mod, ths)
            axioms.update(ax)
            if not aok:
                problems.append("audit: " + msg)
            discharged += [t for t in ths if t in ax and not any(
                not (a in ALLOWED_AXIOMS or "_native.bv_decide.ax_" in a) for a in ax[t])]
    hits = grep_forbidden(lean_sources())
    if hits:
        problems.append("forbidden construct: " + "; ".join(hits[:5]))
    return {
        "obligations": spec["theorems"],
        "discharged": discharged,
        "axioms": axioms,
        "partial": spec.get("partial", []),
        "checker_cmd": "lake build " + " ".join(spec["modules"]) + " && lake env lean build/audit_*.lean (#print axioms)",
        "problems": problems,
    }
