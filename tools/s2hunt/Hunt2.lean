import Driver.Interleave
/-! Coroutine form of the worker (tool only): the worker as a resumable `Step`, so that a scheduler can interleave
several workers operation by operation.  Every history found is re-validated against the pure model (`okOuts`). -/
open Wee Wee.Search Driver

structure LSt where
  rng : Rng.ChaCha8
  nodes : Nat
  polls : Nat

inductive Step where
  | done (r : Except Stop Eval) (nodes : Nat)
  | find (k : Nat) (cont : Option TT.Entry → Step)
  | insert (k : Nat) (e : TT.Entry) (cont : Unit → Step)

instance : Inhabited Step := ⟨.done (.error .interrupt) 0⟩

abbrev Co (α : Type) := LSt → (α → LSt → Step) → Step

@[inline] def Co.pure {α} (a : α) : Co α := fun st k => k a st
@[inline] def Co.bind {α β} (x : Co α) (f : α → Co β) : Co β := fun st k => x st (fun a st' => f a st' k)
instance : Monad Co where
  pure := Co.pure
  bind := Co.bind

def Co.throw {α} (e : Stop) : Co α := fun st _ => .done (.error e) st.nodes
def Co.find (k : Nat) : Co (Option TT.Entry) := fun st c => .find k (fun r => c r st)
def Co.insert (k : Nat) (e : TT.Entry) : Co Unit := fun st c => .insert k e (fun u => c u st)
def Co.getSt : Co LSt := fun st k => k st st
def Co.setSt (s : LSt) : Co Unit := fun _ k => k () s

/-- run a table-free computation of the sequential model -/
def Co.liftM {α} (x : M α) : Co α := fun st k =>
  match x.run.run { tt := default, rng := st.rng, nodes := st.nodes, polls := st.polls } with
  | (.ok a, s') => k a { rng := s'.rng, nodes := s'.nodes, polls := s'.polls }
  | (.error e, s') => .done (.error e) s'.nodes

partial def childLoopC (ctx : Ctx) (child : NodeArgs → Co Eval) (a : NodeArgs) (hash : UInt64) :
    List Move → Eval → Option Move → Nat → Co (Except Eval (Eval × Option Move × Nat))
  | [], alpha, best, kind => pure (.ok (alpha, best, kind))
  | mv :: rest, alpha, best, kind => do
    match tryAsLegal a.s mv with
    | none => Co.throw (.panic "try_as_legal_move")
    | some none => childLoopC ctx child a hash rest alpha best kind
    | some (some (m, next)) =>
      let ext := if a.curExt < Gen.extensionCap then extensionOf a.s else 0
      let v ← child { s := next, maxDepth := a.maxDepth + ext, curDepth := a.curDepth + 1 + ext,
                      curExt := a.curExt + ext, alpha := -a.beta, beta := -alpha, prioritized := none }
      let ev := -v
      if ev ≥ a.beta then
        let e : TT.Entry := { kind := kindLower, mv := m.toNat, depth := a.curDepth, maxDepth := a.maxDepth, eval := a.beta }
        Co.insert hash.toNat e
        pure (.error a.beta)
      else if ev > alpha then childLoopC ctx child a hash rest ev (some m) kindExact
      else childLoopC ctx child a hash rest alpha best kind

partial def searchNodeC (ctx : Ctx) (rem : Nat) (a : NodeArgs) : Co Eval := do
  let st0 ← Co.getSt
  let st := { st0 with nodes := st0.nodes + 1 }
  Co.setSt st
  if st.nodes % Gen.pollInterval == 0 then
    let cancelled := match ctx.cancelAt with | some k => decide (st.polls ≥ k) | none => false
    Co.setSt { st with polls := st.polls + 1 }
    if cancelled then Co.throw (α := Unit) .interrupt
  let hash := Wee.hash ctx.keys a.s
  if a.curDepth > 0 && ctx.history.contains hash then return 0
  let mut alpha := a.alpha
  let mut beta := a.beta
  match ← Co.find hash.toNat with
  | some e =>
    if a.maxDepth < a.curDepth ∨ e.maxDepth < e.depth then Co.throw (α := Unit) (.panic "underflow")
    if e.maxDepth - e.depth ≥ a.maxDepth - a.curDepth then
      if e.kind == kindExact then return e.eval
      else if e.kind == kindUpper then beta := min beta e.eval
      else alpha := max alpha e.eval
      if alpha ≥ beta then return e.eval
  | none => pure ()
  match rem with
  | 0 =>
    match quiesce evaluate (quiesceFuel a.s) a.s a.curDepth alpha beta with
    | .ok v => return v
    | .error e => Co.throw e
  | rem' + 1 =>
    match pseudoLegalMoves a.s with
    | none => Co.throw (.panic "move generation")
    | some pseudo =>
      let sorted ← Co.liftM (sortByCachedKey pseudo fun mv => do
        let j ← jitter
        pure (estimate a.s mv + j))
      let buffer := match a.prioritized with | some m => sorted ++ [m] | none => sorted
      let before := (← Co.getSt).nodes
      let a' := { a with alpha := alpha, beta := beta }
      match ← childLoopC ctx (searchNodeC ctx rem') a' hash buffer.reverse alpha none kindUpper with
      | .error b => return b
      | .ok (alpha', best, kind) =>
        if (← Co.getSt).nodes == before then
          match evaluate a.s a.s.turn a.curDepth with
          | some e => return e
          | none => Co.throw (.panic "evaluate: no king")
        match best with
        | some m =>
          let e : TT.Entry := { kind := kind, mv := m.toNat, depth := a.curDepth, maxDepth := a.maxDepth, eval := alpha' }
          Co.insert hash.toNat e
        | none => pure ()
        return alpha'

def startWorker (ctx : Ctx) (root : State) (w : Worker) : Step :=
  searchNodeC ctx w.searchDepth
    { s := root, maxDepth := w.searchDepth, curDepth := 0, curExt := 0,
      alpha := - Ev.mateInPly 0, beta := Ev.mateInPly 0, prioritized := w.best }
    { rng := w.rng, nodes := 0, polls := w.polls } (fun v st => .done (.ok v) st.nodes)

/-- xorshift -/
def nextRand (s : UInt64) : UInt64 :=
  let s := s ^^^ (s <<< 13)
  let s := s ^^^ (s >>> 7)
  s ^^^ (s <<< 17)

structure SimOut where
  H : Array (Nat × TOp)
  tt : TT.Access
  results : Array (Option (Except Stop Eval))
deriving Inhabited

/-- random scheduler: repeatedly pick a live worker (weights), run it for a burst of up to `burst` operations.
`holdLast i = true`: worker `i`'s final root insert is not delayed specially (plain random). -/
partial def simulate (steps : Array Step) (tt : TT.Access) (weights : Array Nat) (burst : Nat) (seed : UInt64) : SimOut :=
  let rec go (steps : Array Step) (tt : TT.Access) (H : Array (Nat × TOp)) (res : Array (Option (Except Stop Eval)))
      (rs : UInt64) : SimOut :=
    -- settle finished workers
    let live := (List.range steps.size).filter fun i => match steps[i]! with | .done _ _ => false | _ => true
    let res := Id.run do
      let mut res := res
      for i in List.range steps.size do
        match steps[i]! with
        | .done r _ => if res[i]!.isNone then res := res.set! i (some r)
        | _ => pure ()
      return res
    if live.isEmpty then { H, tt, results := res } else
    let rs := nextRand rs
    let total := live.foldl (fun s i => s + weights[i]!) 0
    let pick := (rs.toNat >>> 11) % (max total 1)
    let (w, _) := live.foldl (fun (acc : Nat × Nat) i =>
      if acc.2 ≤ pick && pick < acc.2 + weights[i]! then (i, acc.2 + weights[i]!) else (acc.1, acc.2 + weights[i]!)) (live.head!, 0)
    let rs := nextRand rs
    let q := 1 + (rs.toNat >>> 13) % (max burst 1)
    -- run worker w for q operations
    let rec run (n : Nat) (s : Step) (tt : TT.Access) (H : Array (Nat × TOp)) : Step × TT.Access × Array (Nat × TOp) :=
      match n, s with
      | 0, s => (s, tt, H)
      | _, .done r nd => (.done r nd, tt, H)
      | n + 1, .find k c => let r := tt.find k; run n (c r) tt (H.push (w, .find k r))
      | n + 1, .insert k e c => run n (c ()) (tt.insert k e) (H.push (w, .insert k e))
    let (s', tt', H') := run q steps[w]! tt H
    go (steps.set! w s') tt' H' res rs
  go steps tt #[] (Array.replicate steps.size none) (seed ||| 1)

def keepsMate (root : State) (mv : Move) : Bool :=
  match (legalMoves root).find? fun r => r.1 == mv with
  | none => false
  | some r => [0, 2, 4, 6, 8].any fun j => Outcome.lostIn j r.2

instance : Inhabited Worker := ⟨{ searchDepth := 1, best := none, rng := Rng.seedFromU64 0 }⟩

def seqOps (ctx : Ctx) (root : State) (ws : Array Worker) : List Nat → TT.Access → List (Nat × TOp) → List (Nat × TOp) × TT.Access
  | [], tt, acc => (acc, tt)
  | i :: rest, tt, acc =>
    let out := runWorkerE Env.empty ctx root (ws.getD i default) tt
    seqOps ctx root ws rest out.2.1.tt (acc ++ out.2.2.map fun op => (i, op))

def fmtHist (H : List (Nat × TOp)) : String :=
  " ".intercalate (H.map fun p => s!"{p.1}:{opStr p.2}")

partial def huntLoop (ctx : Ctx) (root : State) (rootHash : UInt64) (workers : Nat) (maxDepth : Nat) (trials : Nat)
    (minDepth : Nat) (verbose : Bool) (dump : Bool)
    (depth : Nat) (st : IterSt) (acc : Array String) (rs : UInt64) : Array String := Id.run do
  if depth ≥ maxDepth || st.finished then return acc
  let ws := workersOfIteration depth st.bestMv (drawSeeds workers st.rng).1 fun _ => 0
  let rng' := (drawSeeds workers st.rng).2
  let mut acc := acc
  let mut rs := rs
  if depth ≥ minDepth then
    let steps0 := (ws.map fun w => startWorker ctx root w).toArray
    for t in List.range trials do
      rs := nextRand (rs + 0x9E3779B97F4A7C15)
      let weights := (List.range workers).toArray.map fun i => 1 + ((rs.toNat >>> (7 * i + 3)) % 8)
      let burst := #[1, 2, 4, 8, 16, 32, 64, 128, 256, 512, 1024][(rs.toNat >>> 40) % 11]!
      let sim := simulate steps0 st.tt weights burst rs
      let vals := sim.results.toList.filterMap fun r => match r with | some (.ok v) => some v | _ => none
      let best := vals.foldl max (-100000)
      let rootE := sim.tt.find rootHash.toNat
      if verbose then acc := acc.push s!"  depth={depth} trial={t} w={weights} burst={burst} vals={vals} root={entryStr rootE} ops={sim.H.size}"
      match rootE with
      | some e =>
        if best ≥ Ev.posInf && e.eval < Ev.posInf && vals.length == workers then
          let H := sim.H.toList
          let outs := outsOf ctx root st.tt ws H
          let ok := okOuts ws H outs
          let j := joinOuts st.tt H outs
          let st' := finishStep ctx root rootHash depth rng' j st
          let keeps := keepsMate root e.mv.toUInt32
          acc := acc.push s!"MISPAIR depth={depth} trial={t} w={weights} burst={burst} interleaving={ok} evals={j.evals} root={entryStr (st'.tt.find rootHash.toNat)} keeps={keeps} nops={H.length} events={st'.events.map eventStr}"
          if !keeps && ok then
            acc := acc.push s!"COUNTEREXAMPLE depth={depth} trial={t} simseed={rs}"
            if dump then acc := acc.push s!"HISTORY {fmtHist H}"
      | none => pure ()
  -- continue with the sequential schedule
  let H := (seqOps ctx root ws.toArray (List.range ws.length) st.tt []).1
  let outs := outsOf ctx root st.tt ws H
  let st' := finishStep ctx root rootHash depth rng' (joinOuts st.tt H outs) st
  huntLoop ctx root rootHash workers maxDepth trials minDepth verbose dump (depth + 1) st' acc rs

def huntOne (seed depth workers tables buckets trials minDepth : Nat) (verbose dump : Bool) (fen : String) : Array String :=
  match parseFenM fen with
  | none => #["badfen"]
  | some root =>
    let kt := (KeyTable.ofRng (Rng.seedFromU64 seed.toUInt64)).1
    let rootHash := Wee.hash kt.keys root
    let ctx : Ctx := { keys := kt.keys, history := [rootHash], cancelAt := none }
    huntLoop ctx root rootHash workers depth trials minDepth verbose dump 0
      { tt := TT.Access.new tables buckets, rng := Rng.seedFromU64 seed.toUInt64, events := [], nodes := 0,
        bestEval := Ev.negInf, bestMv := none, polls := 0 } #[] (seed.toUInt64 * 7919 + 13)

/-- stdin lines: `<seed> <depth> <workers> <tables> <buckets> <trials> <minDepth> <fen...>` -/
partial def loop (h : IO.FS.Stream) (verbose dump : Bool) : IO Unit := do
  let line ← h.getLine
  if line.isEmpty then return ()
  let l := line.trimAscii.toString
  if !l.isEmpty then
    let parts := l.splitOn " "
    let nat (i : Nat) : Nat := (parts.getD i "").toNat!
    let fen := " ".intercalate (parts.drop 7)
    let res := huntOne (nat 0) (nat 1) (nat 2) (nat 3) (nat 4) (nat 5) (nat 6) verbose dump fen
    let out ← IO.getStdout
    for r in res do
      out.putStrLn s!"{r} || {l}"
    out.putStrLn s!"done || {l}"
    out.flush
  loop h verbose dump

def main (args : List String) : IO UInt32 := do
  loop (← IO.getStdin) (args.contains "-v") (args.contains "-d")
  return 0
