import Driver.Interleave
open Wee Wee.Search Driver

def keepsMate (root : State) (mv : Move) : Bool :=
  match (legalMoves root).find? fun r => r.1 == mv with
  | none => false
  | some r => [0, 2, 4, 6, 8].any fun j => Outcome.lostIn j r.2

instance : Inhabited Worker := ⟨{ searchDepth := 1, best := none, rng := Rng.seedFromU64 0 }⟩

def seqOps (ctx : Ctx) (root : State) (ws : Array Worker) : List Nat → TT.Access → List (Nat × TOp) → List (Nat × TOp) × TT.Access
  | [], tt, acc => (acc, tt)
  | i :: rest, tt, acc =>
    let out := runWorkerE Env.empty ctx root (ws.getD i default) tt
    seqOps ctx root ws rest out.2.1.tt (acc ++ out.2.2.map fun op => (i, op))

def fmtHist (H : List (Nat × TOp)) : String :=
  " ".intercalate (H.map fun p => s!"{p.1}:{opStr p.2}")

/-- prefix lengths `m` of `log` (as ops of worker `i` on `tt`) after which key `rk` is absent -/
def absentPoints (tt : TT.Access) (rk : Nat) (log : List TOp) : List Nat := Id.run do
  let mut t := tt
  let mut res : List Nat := if (t.find rk).isNone then [0] else []
  let mut m := 0
  for op in log do
    t := op.apply t
    m := m + 1
    if (t.find rk).isNone then res := res ++ [m]
  return res

partial def huntLoop (ctx : Ctx) (root : State) (rootHash : UInt64) (workers : Nat) (maxDepth : Nat)
    (verbose : Bool) (dump : Bool)
    (depth : Nat) (st : IterSt) (acc : Array String) : Array String := Id.run do
  if depth ≥ maxDepth || st.finished then return acc
  let ws := workersOfIteration depth st.bestMv (drawSeeds workers st.rng).1 fun _ => 0
  let rng' := (drawSeeds workers st.rng).2
  let rk := rootHash.toNat
  let mut acc := acc
  if depth ≥ 1 && workers ≥ 2 then
    let wa := ws.toArray
    let outA := runWorkerE Env.empty ctx root (wa.getD 0 default) st.tt
    let logA := outA.2.2
    let pts := absentPoints st.tt rk logA
    if verbose then acc := acc.push s!"  depth={depth} W0alone={repr outA.1} ops={logA.length} absent={pts.take 5}.. ({pts.length})"
    -- a few candidate switch points: first, and a spread
    let cands := (pts.take 3) ++ (if pts.length > 6 then [pts[pts.length / 2]!, pts[pts.length * 3 / 4]!] else [])
    for m in cands do
      if m ≥ logA.length then continue
      let preA : History := (logA.take m).map fun op => (0, op)
      let t1 := History.table st.tt preA
      let outB := runWorkerE Env.empty ctx root (wa.getD 1 default) t1
      match outB.1, outB.2.2.getLast? with
      | .ok v1, some (.insert k e) =>
        if k == rk && v1 < Ev.posInf then
          let preB : History := outB.2.2.dropLast.map fun op => (1, op)
          let H0 := preA ++ preB
          let outA' := runWorkerE (envFast H0 0) ctx root (wa.getD 0 default) st.tt
          let restA : History := (outA'.2.2.drop m).map fun op => (0, op)
          let H := H0 ++ restA ++ [(1, TOp.insert k e)]
          let winA := match outA'.1 with | .ok v => decide (v ≥ Ev.posInf) | _ => false
          if verbose then acc := acc.push s!"    m={m} v1={v1} e={entryStr (some e)} W0={repr outA'.1}"
          if winA then
            let outs := outsOf ctx root st.tt ws H
            let ok := okOuts ws H outs
            let j := joinOuts st.tt H outs
            let st' := finishStep ctx root rootHash depth rng' j st
            let rootE := st'.tt.find rk
            let keeps := match rootE with | some x => keepsMate root x.mv.toUInt32 | none => true
            acc := acc.push s!"MISPAIR depth={depth} m={m} interleaving={ok} evals={j.evals} root={entryStr rootE} keeps={keeps} nops={H.length} events={st'.events.map eventStr}"
            if !keeps && ok then
              acc := acc.push s!"COUNTEREXAMPLE depth={depth} m={m} nops={H.length}"
              if dump then acc := acc.push s!"HISTORY {fmtHist H}"
      | _, _ => pure ()
  -- continue with the sequential schedule
  let H := (seqOps ctx root ws.toArray (List.range ws.length) st.tt []).1
  let outs := outsOf ctx root st.tt ws H
  let st' := finishStep ctx root rootHash depth rng' (joinOuts st.tt H outs) st
  huntLoop ctx root rootHash workers maxDepth verbose dump (depth + 1) st' acc

def huntOne (seed depth workers tables buckets : Nat) (verbose dump : Bool) (fen : String) : Array String :=
  match parseFenM fen with
  | none => #["badfen"]
  | some root =>
    let kt := (KeyTable.ofRng (Rng.seedFromU64 seed.toUInt64)).1
    let rootHash := Wee.hash kt.keys root
    let ctx : Ctx := { keys := kt.keys, history := [rootHash], cancelAt := none }
    huntLoop ctx root rootHash workers depth verbose dump 0
      { tt := TT.Access.new tables buckets, rng := Rng.seedFromU64 seed.toUInt64, events := [], nodes := 0,
        bestEval := Ev.negInf, bestMv := none, polls := 0 } #[]

/-- stdin lines: `<seed> <depth> <workers> <tables> <buckets> <fen...>` -/
partial def loop (h : IO.FS.Stream) (verbose dump : Bool) : IO Unit := do
  let line ← h.getLine
  if line.isEmpty then return ()
  let l := line.trimAscii.toString
  if !l.isEmpty then
    let parts := l.splitOn " "
    let nat (i : Nat) : Nat := (parts.getD i "").toNat!
    let fen := " ".intercalate (parts.drop 5)
    let res := huntOne (nat 0) (nat 1) (nat 2) (nat 3) (nat 4) verbose dump fen
    let out ← IO.getStdout
    for r in res do
      out.putStrLn s!"{r} || {l}"
    out.putStrLn s!"done || {l}"
    out.flush
  loop h verbose dump

def main (args : List String) : IO UInt32 := do
  loop (← IO.getStdin) (args.contains "-v") (args.contains "-d")
  return 0
