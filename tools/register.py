#!/usr/bin/env python3
"""register.py <Cxx> <module> <theorem>...   — add audited theorems of a module to lean/props.json"""
import json, os, sys
V = os.path.dirname(os.path.dirname(os.path.abspath(__file__)))
P = os.path.join(V, "lean", "props.json")
reg = json.load(open(P))
pid, mod, ths = sys.argv[1], sys.argv[2], sys.argv[3:]
e = reg[pid]
if mod not in e["modules"]:
    e["modules"].append(mod)
w = e.setdefault("where", {})
for t in e["theorems"]:
    w.setdefault(t, e["modules"][0])
for t in ths:
    if t not in e["theorems"]:
        e["theorems"].append(t)
    w[t] = mod
json.dump(reg, open(P, "w"), indent=1, ensure_ascii=False)
print(pid, len(e["theorems"]), "theorems in", e["modules"])
