"""Tie of the interleaving semantics (lean/Wee/Model/SearchEnv.lean) to REAL multi-threaded searches.

A real lazy-SMP search (`searchlog` request of the harness: rayon workers on one shared table, fresh memory, no
cancellation) logs every table operation inside the critical section of its sub-table.  The driver request `ilcheck`
(lean/Driver/Interleave.lean) replays the search: for every iteration the logged history `H` must be an
`Interleaving ctx root tt ws H` of the model's workers (each worker re-run in the environment `H` induces for it must
produce exactly its part of `H`: same keys, same results of every `find`, same inserts, same order), and the events
the model derives for THIS schedule (`finishStep`: node counts, evaluations, lines, table occupancy, root entry) must be
the events the real search reported.

    run(res, tier, seed, deep)   -- used by the C03 check
    python3 tools/ilcheck.py [quick|deep|thorough] [seed]   -- stand-alone
    python3 tools/ilcheck.py teeth   -- a history with two adjacent records swapped must be rejected
"""
import os
import random
import sys
import time

sys.path.insert(0, os.path.dirname(os.path.abspath(__file__)))
import wee  # noqa: E402

WORKERS = (2, 3, 4, 8, 32)
FAILED = ("panic", "badfen", "<no-output>", "<hang>", "<died>", "unknown-request")


def split_answer(out):
    """harness answer of `searchlog` -> (events string, [log tokens]) or None"""
    if " ||" not in out:
        return None
    ev, log = out.split(" ||", 1)
    return ev.strip(), [t for t in log.split(" ") if t]


def to_ilcheck(req, toks):
    p = req.split(" ")
    fen = p[6:]
    return "ilcheck " + " ".join(p[1:6]) + f" {len(fen)} " + " ".join(fen) + (" " + " ".join(toks) if toks else "")


def impl_summary(events, toks):
    """what the driver answers when the real run is an execution of the model: `ok <iterations> <ops> <events>`"""
    iters, n = set(), 0
    for t in toks:
        ident = int(t.split(":")[1])
        if ident >= 1000000:
            iters.add((ident - 1000000) // 1000)
            n += 1
    return f"ok {len(iters)} {n} {events}"


def concurrency(toks):
    """how concurrent the logged run was: (adjacent records of different workers of one iteration,
    finds answered by an entry that ANOTHER worker of the same iteration stored)"""
    switches = foreign = 0
    prev = None
    writer = {}
    for t in toks:
        f = t.split(":")
        ident = int(f[1])
        if ident < 1000000:
            continue
        if prev is not None and prev != ident and prev // 1000 == ident // 1000:
            switches += 1
        prev = ident
        if f[2] == "i":
            writer[f[3]] = (ident, f[4])
        elif f[4] != "-":
            w = writer.get(f[3])
            if w is not None and w[1] == f[4] and w[0] != ident and w[0] // 1000 == ident // 1000:
                foreign += 1
    return switches, foreign


def gen_requests(seed, n):
    import props
    rnd = random.Random(seed * 7919 + 31)
    fens = rnd.sample(props.positions(seed + 303, 400), max(1, n - n // 5)) + [rnd.choice(props.MIDGAME) for _ in range(n // 5)]
    rnd.shuffle(fens)
    reqs = []
    for k in range(n):
        f = fens[k % len(fens)]
        w = WORKERS[k % len(WORKERS)]
        # the model replays every worker's whole tree (a few thousand nodes per second): the deepest searches get
        # the smaller worker counts
        d = rnd.choice((2, 3, 4)) if w <= 4 else rnd.choice((2, 2, 3))
        if k % 10 == 9 and w <= 8:
            d = 4
        tables = rnd.randint(1, 4)
        # small tables force bucket overflows (the `Replaced` branch of insert_or_replace) under contention
        buckets = rnd.choice((2, 3, 4, 8, 16, 32, 64))
        reqs.append(f"searchlog {rnd.getrandbits(32)} {d} {w} {tables} {buckets} {f}")
    return reqs


def check(reqs, jobs_impl=4, jobs_model=12):
    """[(request, impl summary, model answer, (n_ops, switches between workers, finds answered by another worker's entry))]"""
    impl, rc, err = wee.run_lines_parallel(wee.harness_path(), reqs, jobs=jobs_impl, timeout=1800, per_request_timeout=300)
    ils, summ, nops = [], [], []
    for r, o in zip(reqs, impl):
        sp = split_answer(o)
        if sp is None:
            ils.append(None)
            summ.append(o if o in FAILED else "malformed: " + o[:200])
            nops.append((0, 0, 0))
        else:
            ils.append(to_ilcheck(r, sp[1]))
            summ.append(impl_summary(sp[0], sp[1]))
            nops.append((len(sp[1]),) + concurrency(sp[1]))
    todo = [x for x in ils if x is not None]
    drv, rc2, err2 = wee.run_driver(todo, jobs=jobs_model, timeout=7200) if todo else ([], 0, "")
    drv = list(drv) + [("<no-output>", "-")] * (len(todo) - len(drv))
    it = iter(drv)
    out = []
    for r, il, s, n in zip(reqs, ils, summ, nops):
        m = next(it)[0] if il is not None else "ends-normally"
        out.append((r, s, m, n))
    return out


def run(res, tier, seed, deep):
    n = 200 if tier == "thorough" else (60 if deep else 20)
    reqs = gen_requests(seed, n)
    t0 = time.time()
    total = switches = foreign = 0
    for r, s, m, (nops, sw, fo) in check(reqs):
        total += nops
        switches += sw
        foreign += fo
        res.add("ilcheck " + r, s, m, "-", None)
        res.tag("interleaving_ok" if (s == m and m.startswith("ok ")) else "interleaving_not_ok")
    res.tags["interleaving_table_ops"] = res.tags.get("interleaving_table_ops", 0) + total
    res.tags["interleaving_worker_switches"] = res.tags.get("interleaving_worker_switches", 0) + switches
    res.tags["interleaving_finds_answered_by_another_worker"] = res.tags.get("interleaving_finds_answered_by_another_worker", 0) + foreign
    res.tags["interleaving_seconds"] = round(time.time() - t0, 1)
    return ("real multi-threaded searches (2/3/4/8/32 rayon workers, depth limits 2-4, 1-4 sub-tables of 2-64 buckets, fresh "
            "memory) with the table-operation log taken inside the critical sections: per iteration the logged history "
            "must be an Interleaving of the model's workers (every worker re-run in the environment the history induces "
            "reproduces its own finds with their results and its inserts, in order) and the events the model derives for "
            "that schedule must equal the real events")


def swap_adjacent(toks):
    """exchange the first pair of adjacent worker records `find(key)=none by A`, `insert(key) by B` (A != B) into
    `insert by B`, `find=none by A`: in the new history the find happens after the insert and cannot have missed it"""
    for i in range(len(toks) - 1):
        a, b = toks[i].split(":"), toks[i + 1].split(":")
        if int(a[1]) < 1000000 or int(b[1]) < 1000000:
            continue
        if a[1] != b[1] and a[3] == b[3] and a[2] == "f" and a[4] == "-" and b[2] == "i":
            out = list(toks)
            out[i] = ":".join([a[0]] + b[1:])
            out[i + 1] = ":".join([b[0]] + a[1:])
            return out, i
    return None, None


def teeth(seed=1):
    """returns (request, model answer on the real log, model answer on the tampered log)"""
    for k in range(40):
        reqs = gen_requests(seed + k, 10)
        impl, _, _ = wee.run_lines_parallel(wee.harness_path(), reqs, jobs=4)
        for r, o in zip(reqs, impl):
            sp = split_answer(o)
            if sp is None:
                continue
            bad, i = swap_adjacent(sp[1])
            if bad is None:
                continue
            drv, _, _ = wee.run_driver([to_ilcheck(r, sp[1]), to_ilcheck(r, bad)])
            return r, i, sp[1][i:i + 2], drv[0][0], drv[1][0]
    return None


if __name__ == "__main__":
    mode = sys.argv[1] if len(sys.argv) > 1 else "quick"
    sd = int(sys.argv[2]) if len(sys.argv) > 2 else 1
    if mode == "teeth":
        t = teeth(sd)
        if t is None:
            print("no adjacent find-miss/insert pair of different workers found")
            sys.exit(2)
        r, i, pair, good, bad = t
        print("request :", r)
        print("records :", i, pair, "(swapped in the tampered log)")
        print("real log:", good[:160])
        print("tampered:", bad[:300])
        sys.exit(0 if good.startswith("ok ") and bad.startswith("mismatch") else 1)
    res = wee.Result("C03")
    t0 = time.time()
    run(res, "thorough" if mode == "thorough" else "quick", sd, mode == "deep")
    print(f"{res.evaluations} runs, {len(res.model_diffs)} differ, tags {res.tags}, {time.time() - t0:.1f}s wall")
    for req, i, m in res.model_diffs[:10]:
        print("DIFF", req[:200])
        print("  impl :", i[:400])
        print("  model:", m[:400])
    sys.exit(1 if res.model_diffs else 0)
