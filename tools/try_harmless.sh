#!/bin/bash
cd /verif
run() { r=$1; shift; echo "=== $r: $*"; tools/try_mutant.sh /verif/seeded/harmless/$r.diff quick "$@" 2>&1 | grep -E "VIOLATION|exit|does not apply" | cut -c1-220; }
run r01 C09 C10 C01
run r02 C09 C10 C01 C02
run r03 C01 C02 C12
run r04 C02 C01 C10
run r05 C20 C01
run r06 C11 C12 C14
run r07 C08 C16
run r08 C05 C13 C06
run r09 C03 C04 C06 C15 C17 C19
run r10 C07 C14 C18
echo REFACTORS-DONE
