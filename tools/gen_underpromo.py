#!/usr/bin/env python3
"""Builds corpus/underpromo_mates.txt: legal few-men positions with a forced mate in 3 plies whose ONLY mate-keeping first
moves are under-promotions (found by the exhaustive solver of the Lean driver).  usage: gen_underpromo.py <seed> <trials>"""
import os, sys, random
sys.path.insert(0, os.path.dirname(os.path.abspath(__file__)))
import wee, props


def fen_of(cells, stm):
    rows = []
    for r in range(7, -1, -1):
        row, run = "", 0
        for f in range(8):
            c = cells.get(r * 8 + f)
            if c is None:
                run += 1
            else:
                row += (str(run) if run else "") + c
                run = 0
        rows.append(row + (str(run) if run else ""))
    return "/".join(rows) + f" {stm} - - 0 1"


def main():
    seed, trials = int(sys.argv[1]), int(sys.argv[2])
    rnd = random.Random(seed)
    cands = []
    for _ in range(trials):
        white = rnd.random() < 0.5
        cells = {}
        def put(ch, pred=lambda s: True):
            for _ in range(50):
                s = rnd.randrange(64)
                if s not in cells and pred(s):
                    cells[s] = ch
                    return s
        # the promoting pawn on its 7th rank, promotion square free (or capturable neighbour)
        pr = 6 if white else 1
        put("P" if white else "p", lambda s: s // 8 == pr)
        bk = put("k" if white else "K", lambda s: (s // 8 >= 5) if white else (s // 8 <= 2))
        put("K" if white else "k")
        for ch in rnd.sample(["R", "B", "N", "P", "Q", "p", "p", "n", "b", "r"], rnd.randrange(1, 5)):
            ch = ch if white else ch.swapcase()
            put(ch, lambda s: 0 < s // 8 < 7 if ch in "Pp" else True)
        cands.append(fen_of(cells, "w" if white else "b"))
    legal, _, _ = wee.run_driver(["legalpos " + f for f in cands], jobs=8)
    cands = [f for f, (m, s) in zip(cands, legal) if s == "1"]
    print(len(cands), "legal candidates", flush=True)
    out = []
    k1, _, _ = wee.run_driver(["matekeep 1 " + f for f in cands], jobs=14)
    cands = [f for f, (m, s) in zip(cands, k1) if not s.strip()]          # no mate in 1
    k3, _, _ = wee.run_driver(["matekeep 3 " + f for f in cands], jobs=14)
    mm = dict(props.model_moves(cands))
    for f, (m, s) in zip(cands, k3):
        keeps = [t.split(":")[0] for t in s.split(" ") if ":" in t]
        if not keeps:
            continue
        promo = {str(raw): attrs[5] for lan, raw, attrs in mm.get(f, [])}
        # piece codes: knight 2, bishop 3, rook 4, queen 5
        if all(promo.get(k, "0") in ("2", "3", "4") for k in keeps):
            out.append(f)
    print(len(out), "under-promotion mates in 3")
    os.makedirs(os.path.join(wee.VERIF, "corpus"), exist_ok=True)
    p = os.path.join(wee.VERIF, "corpus", "underpromo_mates.txt")
    old = set(open(p).read().split("\n")) if os.path.exists(p) else set()
    with open(p, "w") as fh:
        fh.write("\n".join(sorted((old | set(out)) - {""})) + "\n")


if __name__ == '__main__':
    main()
