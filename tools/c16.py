"""C16 — the opening book offers exactly the recorded, legal moves.

`c16(res, tier, seed, deep)` in the style of tools/props.py:

1. `weedriver book /repo/book` rebuilds the book from the PGN files twice — with the Lean MODEL
   (`Wee.Book.buildBook`, the transcription of build.rs / BookParser) and with the SPEC (`Wee.Spec.Book`, an
   independent PGN/SAN reading) — and prints one line per distinct position key.  Every listed position is put
   to the REAL book (`book <fen>` of the harness) and compared three-way (whole sets, as sorted raw u32).
2. second sentence of the property: variants of book positions that keep the placement but change castling
   rights / en-passant state / side to move (legal ones only), and positions from play that are not in the
   book: the real answer must equal model and spec (mostly `none`), and every move the real book offers there
   must be legal in that position (spec `linecheck`).
"""
import os
import random
import subprocess

import wee

BOOK_DIR = "/repo/book"

# F7 (fixed in /repo 03333f6): four games of Gibraltar2019.txt have three newlines in front of the movetext and were
# dropped by `split("\n\n").filter(starts_with("1."))`.  The positions that only those games reach / the positions where
# only those games play a certain move stay in every run as fixed regression inputs (key = first four FEN fields).
F7_POSITIONS = [
    "rnbqkb1r/ppp1pp1p/3p1np1/8/2PP4/2N2N2/PP2PPPP/R1BQKB1R b KQkq -",
    "rnbqkb1r/pppp2pp/4pn2/5p2/3P1B2/5N2/PPP1PPPP/RN1QKB1R w KQkq -",
    "rnbqk2r/ppppb1pp/4pn2/5p2/3P1B2/4PN1P/PPP2PP1/RN1QKB1R b KQkq -",
    "rnbqkbnr/ppp2ppp/3p4/4p3/2P5/2N3P1/PP1PPP1P/R1BQKBNR b KQkq -",
    "rnbqkb1r/pppp2pp/4pn2/5p2/3P1B2/5N1P/PPP1PPP1/RN1QKB1R b KQkq -",
    "rnbqk2r/ppppb1pp/4pn2/5p2/3P1B2/5N1P/PPP1PPP1/RN1QKB1R w KQkq -",
    "rn1qkbnr/ppp2ppp/3pb3/4p3/2P5/2N3P1/PP1PPP1P/R1BQKBNR w KQkq -",
    "rn1qkbnr/ppp2ppp/3pb3/4p3/2P5/2N2NP1/PP1PPP1P/R1BQKB1R b KQkq -",
    "r2qkbnr/ppp2ppp/2npb3/4p3/2P5/2N2NP1/PP1PPP1P/R1BQKB1R w KQkq -",
    "r2qkbnr/ppp2ppp/2npb3/4p3/2PP4/2N2NP1/PP2PP1P/R1BQKB1R b KQkq d3",
]


def _driver_book(extra, stdin_lines=None, timeout=3600):
    """run `weedriver book <dir> …`; returns (lines, rc, stderr)"""
    cmd = [wee.DRIVER, "book", BOOK_DIR] + extra
    p = subprocess.run(cmd, input=("\n".join(stdin_lines) + "\n") if stdin_lines is not None else None,
                       capture_output=True, text=True, timeout=timeout)
    return [l for l in p.stdout.split("\n") if l != ""], p.returncode, p.stderr


def _parse_line(l):
    """`<fen> ||| model=… ||| spec=…[ ||| legalpos=…]` → (fen, model, spec, legalpos)"""
    parts = l.split(" ||| ")
    fen = parts[0]
    d = {}
    for p in parts[1:]:
        k, _, v = p.partition("=")
        d[k] = v
    return fen, d.get("model", "<missing>"), d.get("spec", "-"), d.get("legalpos", "-")


def _sub_rights(letters):
    out = []
    for mask in range(1 << len(letters)):
        out.append("".join(ch for i, ch in enumerate(letters) if mask >> i & 1) or "-")
    return out


def _board(placement):
    """placement field → dict square index (rank*8+file) → piece char"""
    cells = {}
    for ri, row in enumerate(placement.split("/")):
        rank = 7 - ri
        f = 0
        for ch in row:
            if ch.isdigit():
                f += int(ch)
            else:
                cells[rank * 8 + f] = ch
                f += 1
    return cells


def _sqname(sq):
    return "abcdefgh"[sq % 8] + str(sq // 8 + 1)


def variants(fen, rnd, full):
    """FENs with the same placement but other castling rights / en-passant state / side to move.
    Legality (Spec.LegalPos) is decided by the driver afterwards."""
    p = fen.split(" ")
    placement, side, rights, ep = p[0], p[1], p[2], p[3]
    cells = _board(placement)
    out = []
    # rights that the placement would allow at all (king and rook at home)
    allowed = ""
    if cells.get(4) == "K" and cells.get(7) == "R":
        allowed += "K"
    if cells.get(4) == "K" and cells.get(0) == "R":
        allowed += "Q"
    if cells.get(60) == "k" and cells.get(63) == "r":
        allowed += "k"
    if cells.get(60) == "k" and cells.get(56) == "r":
        allowed += "q"
    subs = [r for r in _sub_rights(allowed) if r != rights]
    if not full and len(subs) > 6:
        # one right removed / added at a time, none at all, and a random other subset
        near = [r for r in subs if len(set(r.replace("-", "")) ^ set(rights.replace("-", ""))) == 1]
        rest = [r for r in subs if r not in near and r != "-"]
        subs = near + ["-"] + (rnd.sample(rest, 1) if rest else [])
    for r in subs:
        out.append(" ".join([placement, side, r, ep] + p[4:]))
    # en-passant state
    if ep != "-":
        out.append(" ".join([placement, side, rights, "-"] + p[4:]))
    # an en-passant target behind every pawn that could just have made a double step
    mover_pawn, rank_from, rank_mid, rank_to = ("P", 1, 2, 3) if side == "b" else ("p", 6, 5, 4)
    for f in range(8):
        to, mid, frm = rank_to * 8 + f, rank_mid * 8 + f, rank_from * 8 + f
        if cells.get(to) == mover_pawn and mid not in cells and frm not in cells and _sqname(mid) != ep:
            out.append(" ".join([placement, side, rights, _sqname(mid)] + p[4:]))
    # side to move (an en-passant target belongs to the other side then: dropped)
    other = "b" if side == "w" else "w"
    out.append(" ".join([placement, other, rights, "-"] + p[4:]))
    out.append(" ".join([placement, other, "-", "-"] + p[4:]))
    # the clocks must not matter: same key, other counters → same answer as the book position
    out.append(" ".join([placement, side, rights, ep, str(rnd.randrange(0, 90)), str(rnd.randrange(1, 200))]))
    return [v for v in dict.fromkeys(out) if v != fen]


def c16(res, tier, seed, deep):
    rnd = random.Random(seed)
    full = tier == "thorough"
    # ---- 1. the whole book, model and spec
    lines, rc, err = _driver_book([])
    if rc != 0:
        res.broken.append(f"weedriver book failed (rc={rc}): {err[-300:]}")
        return "driver failed"
    summary = [l for l in lines if l.startswith("#")]
    rows = [_parse_line(l) for l in lines if not l.startswith("#")]
    for l in summary:
        if l.startswith("#!"):
            # a game the model or the spec could not read: the build would have failed / the spec is incomplete
            res.broken.append("book reader problem: " + l[2:].strip()[:200])
        if l.startswith("# depth"):
            kv = dict(x.split("=") for x in l.split()[2:])
            if kv.get("model") != kv.get("spec"):
                res.broken.append(f"BOOK_DEPTH is {kv.get('model')} in build.rs, the property says {kv.get('spec')} plies")
        if l.startswith("# ") and "=" in l:
            res.tags[l[2:].strip()] = 1
    if not rows:
        res.broken.append("weedriver book listed no position")
        return "no positions"
    if full:
        # the model book evaluated exactly as written (no memoisation) must print the same lines
        plines, prc, perr = _driver_book(["pure"])
        if prc != 0 or [l for l in plines if not l.startswith("#")] != [l for l in lines if not l.startswith("#")]:
            res.broken.append("weedriver book <dir> pure differs from the memoised evaluation")
    # every listed position goes to the real book (both tiers: a lookup costs 2 ms)
    reqs = ["book " + fen for fen, _, _, _ in rows]
    impl, rc, err = wee.run_lines(wee.harness_path(), reqs)
    if len(impl) != len(reqs):
        res.broken.append(f"harness returned {len(impl)} lines for {len(reqs)} book requests (rc={rc}) {err[-300:]}")
        impl = impl + ["<no-output>"] * (len(reqs) - len(impl))
    book_keys = set()
    for (fen, model, spec, _), req, i in zip(rows, reqs, impl):
        res.add(req, i, model, spec, None, nontrivial=(spec != "none"))
        book_keys.add(" ".join(fen.split(" ")[:4]))
    missing = [k for k in F7_POSITIONS if k not in book_keys]
    if missing and BOOK_DIR == "/repo/book":
        res.broken.append("regression positions (Gibraltar2019 games behind three newlines) are not listed by weedriver book: " + missing[0])
    res.tags["book_positions"] = len(rows)
    res.tags["book_positions_with_ep_target"] = sum(1 for fen, _, _, _ in rows if fen.split(" ")[3] != "-")
    res.tags["book_positions_with_rights"] = sum(1 for fen, _, _, _ in rows if fen.split(" ")[2] != "-")

    # ---- 2. same placement, different castling / en-passant / side; positions outside the book
    if full:
        base = [r[0] for r in rows]
    else:
        pick = set(range(0, len(rows), 7))
        # a third of the positions with an en-passant target, all with reduced rights
        pick |= {k for k, r in enumerate(rows) if r[0].split(" ")[3] != "-" and k % 3 == 0}
        pick |= {k for k, r in enumerate(rows) if r[0].split(" ")[2] != "KQkq"}
        pick |= {k for k, r in enumerate(rows) if " ".join(r[0].split(" ")[:4]) in F7_POSITIONS}
        if deep:
            pick |= set(range(0, len(rows), 2))
        base = [rows[k][0] for k in sorted(pick)]
    var = []
    for fen in base:
        var += variants(fen, rnd, full)
    var = list(dict.fromkeys(var))
    # positions from play that are not in the book
    outside = [f for f in wee.driver_positions(seed + 16, 900 if full else 320) if " ".join(f.split(" ")[:4]) not in book_keys]
    outside = outside[:600 if full else 220]
    probes = var + outside
    plines, prc, perr = _driver_book(["probe"], probes)
    if prc != 0 or len(plines) != len(probes):
        res.broken.append(f"weedriver book probe returned {len(plines)} lines for {len(probes)} positions (rc={prc}) {perr[-300:]}")
        return "probe failed"
    prow = [_parse_line(l) for l in plines]
    # legal positions only (an illegal variant is not a position the property talks about)
    keep = [(fen, m, s) for (fen, m, s, lp) in prow if lp == "1"]
    res.tags["variants_generated"] = len(var)
    res.tags["variants_legal"] = sum(1 for (fen, m, s, lp) in prow[:len(var)] if lp == "1")
    res.tags["outside_positions"] = sum(1 for (fen, m, s, lp) in prow[len(var):] if lp == "1")
    vreqs = ["book " + fen for fen, _, _ in keep]
    vimpl, rc, err = wee.run_lines(wee.harness_path(), vreqs)
    if len(vimpl) != len(vreqs):
        res.broken.append(f"harness returned {len(vimpl)} lines for {len(vreqs)} book requests (rc={rc}) {err[-300:]}")
        vimpl = vimpl + ["<no-output>"] * (len(vreqs) - len(vimpl))
    offered = []
    for (fen, m, s), req, i in zip(keep, vreqs, vimpl):
        res.add(req, i, m, s, None, nontrivial=True)
        if i not in ("none", "badfen", "<no-output>"):
            offered.append((fen, i, m))
    res.tags["variants_answered_with_moves"] = len(offered)
    # every move the real book offers (in a book position or in a variant) is legal there — judged by the spec
    legal_targets = [(fen, i, m) for (fen, m, _, _), i in zip(rows, impl) if i not in ("none", "badfen", "<no-output>")]
    if not full:
        legal_targets = legal_targets[::5]
    legal_targets += offered
    lreqs = [f"linecheck {raw} {fen}" for fen, ans, _ in legal_targets for raw in ans.split(",")]
    louts, lrc, lerr = wee.run_driver(lreqs, jobs=8)
    if len(louts) != len(lreqs):
        res.broken.append(f"driver returned {len(louts)} lines for {len(lreqs)} linecheck requests")
        louts = louts + [("-", "<no-output>")] * (len(lreqs) - len(louts))
    k = 0
    for fen, ans, m in legal_targets:
        bad = []
        for raw in ans.split(","):
            if louts[k][1] != "legal":
                bad.append(raw)
            k += 1
        res.add("booklegal " + fen, ans, m, "legal",
                (lambda x, bad=bad: "legal" if not bad else "offers illegal move(s) " + ",".join(bad)))
    if full:
        res.exhaustive = True
    return ("all games of all files of book/ (model: the build.rs chunking and BookParser tokeniser; spec: independent PGN "
            "section and SAN reader requiring a unique legal move), first ten plies; one request per distinct position key "
            "(placement, side, rights, available en-passant square), whole move sets compared as sorted raw u32 between the "
            "real embedded book, the model book and the spec book; variants of book positions with the same placement and "
            "other castling rights (subsets of the rights the placement allows), en-passant target dropped / added behind "
            "every double-stepped pawn, side to move swapped, counters changed — legal ones only (Spec.LegalPos) — and legal "
            "positions from random play outside the book: same three-way comparison, and every move the real book offers "
            "must be legal in the asked position (spec linecheck); quick: every 7th book position gets variants and every "
            "5th answer the legality check, thorough: all (plus the unmemoised evaluation of the model book); non-trivial = "
            "the spec book has moves for the position, or the position is a variant")
