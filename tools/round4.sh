#!/bin/bash
# confirm a round-4 seeded change, keep it under seeded/<id>-4, try it against the given checks
P=$1; shift
O=/tmp/mut/$P.out; W=/tmp/mut/$P; D=/verif/seeded/$P-4
[ -f $O/patch.diff ] || { echo "$P: no patch"; exit 2; }
R=$(bash /verif/tools/confirm_mutant.sh $W $O 2>&1 | tail -4)
echo "$R"
case "$R" in *"CONFIRM OK"*) ;; *) echo "$P: NOT CONFIRMED"; exit 1;; esac
mkdir -p $D; cp $O/* $D/
bash /verif/tools/try_mutant.sh $D/patch.diff quick "$@"
